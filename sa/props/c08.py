"""C08 - Circuit hops are only keyed with the peer the originator chose."""
from __future__ import annotations

import ast

from ..core import Ctx
from ..localnames import load_table
from ..match import _atoms_with_polarity, _match_chain, arg, fact_of, facts_at, is_param, local_defs, resolve, single_def, stores
from ..match import calls as _all_calls
from ..model import (NOCONST, AnalysisError, FuncInfo, ancestors, chain, clone, const_value, enclosing_function, enclosing_stmt, head, norm, parent,
                     strip_cast, walk_no_nested)

LEVEL = "other"
EXPLANATION = (
    "Acceptance of keys as dominance/dataflow facts: each call of _ours_on_created_extended is dominated by a live "
    "RetryRequestCache for that circuit id whose random packet_identifier equals the answer's identifier; inside it, "
    "hop.keys / add_hop / clearing unverified_hop are reachable only after verify_and_generate_shared_secret returned "
    "normally, whose 4th argument is the static key of circuit.unverified_hop.peer (the peer selected in "
    "send_initial_create / send_extend, the only writers of unverified_hop) and whose return is dominated by a truthy "
    "crypto_auth_verify; both DH sides concatenate (ephemeral, static) in the same order; Circuit._hops is append-only "
    "with one caller; relay-side create/extend pairing by cache number, and the relay installs relay_from_to[..] only under the "
    "to/from circuit ids of its own popped CreateRequestCache, keyed from the origin's exit socket, under the dominating fact that "
    "the origin circuit still is an exit socket (an established relay hop is never rewired by an answer). "
    "Membership facts are read from what a test computes: ``T.get(k, D) is not D`` / ``!= D`` with one stable D (None, a module or "
    "non-loop local sentinel bound to object(), a class constant) or a truthy ``T.get(k)`` give ``k in T`` (get returns exactly D for a "
    "missing key; the converse direction is not concluded), ``k in T.keys()`` / ``set(T)``, ``T.__contains__(k)`` and one-element set "
    "algebra ({k} <= T.keys(), issubset / issuperset / isdisjoint, {k} & T.keys()) are ``k in T`` with the corresponding polarity. "
    "Answering side: exit sockets (the keys of the hop towards the sender of a CREATE) are installed only by join_circuit, under an "
    "in-use test of the circuit id made after the last await, and removed only by remove_exit_socket, so a CREATE never re-keys an "
    "established hop; the EXTEND request names key and address of one and the same peer on every pair of reaching definitions. "
    "Expressions are compared after expanding single-assignment locals and binding the parameters of helper functions that do "
    "not exist in the reviewed tree to the caller's arguments (the helper is analysed in the caller's context, also when it "
    "returns a decision the caller acts on). A function that carries a decorator which is defined in this repository and is not part "
    "of the reviewed tree denotes the wrapper that decorator returns (factory arguments bound to the wrapper's free variables, "
    "*args / **kwargs spelled out); the wrapper's call of the function it was given runs the next decorator layer and finally the "
    "decorated body, so a guard carried by a decorator is a dominating fact of the body and code of the wrapper is code of the handler; "
    "a new decorator of another shape than 'define one wrapper and return it' is undecided. "
    "Where the identifier test is not a dominating fact at the call (spelled through "
    "conditional expressions / result objects / operator functions, or moved into the callee), it is decided by reachability under "
    "an assumption: everything that processes an answer must be unreachable both when no RetryRequestCache exists for the circuit "
    "and when its packet_identifier differs (three-valued evaluation of the conditions, locals with several definitions followed "
    "along the CFG). The same machinery states that code which runs only for an answer that is not the awaited one has no effect "
    "besides logging (no reviewed method of the community, no change of its tables or of the request cache). The acceptance is "
    "atomic: no suspension point between the entry of the answer handler and hop.keys / clearing unverified_hop / add_hop, and the "
    "next attempt (send_extend) is started from the acceptance only after the RetryRequestCache of the accepted hop was popped. "
    "Release after acceptance (C08.release-after-accept): between circuit.add_hop(hop) and the release of the retry of that hop "
    "(request_cache.pop(RetryRequestCache, <circuit id>) attempted, or remove_circuit(<circuit id>); also inside new helpers) no "
    "call / await / non-loop-index subscript that consumes data of the answer (payload fields other than the matched circuit_id / "
    "identifier, the payload as a whole, locals derived from them, followed into helper parameters) may be able to end the handler: "
    "its exceptional edge is followed through except clauses and out of helpers into their callers, and neither the raise exit nor - "
    "after being caught - the normal exit of the answer handler may be reached before a release (otherwise a bit flip in the "
    "candidate list leaves the RetryRequestCache of an accepted hop registered; its timeout re-runs the retry for a filled position). "
    "Calls that do not consume answer data (logging, self.circuits.get(circuit_id)) get no such edge; the ordinary return without "
    "release in a state other than EXTENDING / READY is listed in the evidence, not reported. "
    "``with contextlib.suppress(E)`` is given the control flow of try / except E: pass. "
    "Early binding: a local that is assigned exactly once (plainly or element-wise in ``a, b = x.m, y.n``) to a chain of attribute reads whose root "
    "name has at most one binding denotes, where it is called, the bound method that chain denotes (same receiver object, same function); "
    "``n = partial(f, a..)`` ... ``n(b..)`` runs f(a.., b..) at the place of the call of n (not where the partial is built). A callee picked from "
    "a table - ``{k: self.m, ..}.get(e)`` / ``.get(e, None)`` (a missing key gives None, which runs nothing), ``next((fn for k, fn in <rows> if "
    "<test>), None)`` over an evident display of rows - is every entry of the table, each analysed as a callee of that call. "
    "Fresh ephemeral key (C08.fresh-dh-secret): every value stored as a hop's dh_secret / dh_first_part (attribute store or Hop(..) argument, "
    "anywhere below ipv8/messaging/anonymization) is element 0 / 1 of a generate_diffie_secret() call (or None): the authenticator of an answer covers "
    "only DH(ephemeral, ephemeral) and the 16-bit identifier is visible to every relay on the path, so a reused ephemeral key lets the answer of an "
    "earlier attempt towards another candidate verify for the retry. Equality of derived keys is X25519/HKDF (trusted)."
)

TC = "ipv8/messaging/anonymization/community.py"
CR = "ipv8/messaging/anonymization/crypto.py"
CA = "ipv8/messaging/anonymization/caches.py"
TU = "ipv8/messaging/anonymization/tunnel.py"

VERIFY = "verify_and_generate_shared_secret"


# ---- early binding: ``send = self.endpoint.send`` / ``verify, expand = self.crypto.verify_.., self.crypto.generate_..`` ... ``verify(..)``
class _Scope:
    """just enough of a FuncInfo for local_defs / single_def on the function a node lies in"""

    def __init__(self, node):
        self.node = node

    def params(self) -> list[str]:
        a = self.node.args
        return [x.arg for x in a.posonlyargs + a.args] + ([a.vararg.arg] if a.vararg else []) + [x.arg for x in a.kwonlyargs] + ([a.kwarg.arg] if a.kwarg else [])


def _bound_reference(fn, name: str, depth: int = 3) -> ast.AST | None:
    """
    The attribute chain ``root.a.b`` a local of function fn was bound to, if the local is assigned exactly once (plainly or element-wise
    in ``x, y = e1, e2``) to a chain of plain attribute reads whose root name itself has at most one binding in fn: every later use of
    the local denotes the (bound) method / attribute that chain denoted when the local was bound.
    """
    sc = _Scope(fn)
    d = single_def(sc, name)
    if d is None or d[1] is not None or depth <= 0:
        return None
    val = strip_cast(d[0])
    if isinstance(val, ast.Name):
        return _bound_reference(fn, val.id, depth - 1)
    if not isinstance(val, ast.Attribute):
        return None
    root = val
    while isinstance(root, ast.Attribute):
        root = strip_cast(root.value)
    if not isinstance(root, ast.Name) or len(local_defs(sc, root.id)) > (0 if root.id in sc.params() else 1):
        return None
    return val


def _callee(c: ast.Call) -> ast.AST:
    """the expression that denotes the callee of c: c.func, or the attribute chain a local in callee position was bound to once (early binding)"""
    f = strip_cast(c.func)
    if not isinstance(f, ast.Name):
        return f
    cached = c.__dict__.get("_c08_callee")
    if cached is not None:
        return cached
    out = f
    fn = None
    for a in ancestors(c):
        if isinstance(a, ast.Lambda) or isinstance(a, (ast.GeneratorExp, ast.ListComp, ast.SetComp, ast.DictComp)):
            bound = {x.arg for x in ast.walk(a.args) if isinstance(x, ast.arg)} if isinstance(a, ast.Lambda) \
                else {x.id for g in a.generators for x in ast.walk(g.target) if isinstance(x, ast.Name)}
            if f.id in bound:
                break
        elif isinstance(a, (ast.FunctionDef, ast.AsyncFunctionDef)):
            fn = a
            break
        elif isinstance(a, ast.ClassDef):
            break
    if fn is not None:
        out = _bound_reference(fn, f.id) or f
    c.__dict__["_c08_callee"] = out
    return out


def call_name(c: ast.Call) -> str | None:
    f = _callee(c)
    return f.attr if isinstance(f, ast.Attribute) else f.id if isinstance(f, ast.Name) else None


def calls(fi_or_node, pattern=None, nested: bool = False):
    """match.calls, with a callee that was bound early to a local matched by the attribute chain it denotes"""
    out = _all_calls(fi_or_node, None, nested)
    return out if pattern is None else [n for n in out if _match_chain(chain(_callee(n)), pattern)]


# ------------------------------------------------------------------------------------ helpers (semantic recognition)
def _snorm(e: ast.AST | None) -> str | None:
    """norm() of an expression with typing.cast(...) wrappers removed (cast is the identity at run time)."""
    return None if e is None else norm(strip_cast(e))


def _rnorm(fi: FuncInfo, e: ast.AST | None) -> str | None:
    """norm() after following single-assignment local aliases and removing casts."""
    return None if e is None else norm(resolve(fi, e))


def _assigned_names(st: ast.stmt) -> list[str]:
    """Local names bound to the whole value of an assignment statement (plain, chained or annotated)."""
    if isinstance(st, ast.Assign):
        return [t.id for t in st.targets if isinstance(t, ast.Name)]
    if isinstance(st, ast.AnnAssign) and isinstance(st.target, ast.Name) and st.value is not None:
        return [st.target.id]
    return []


def _is_new(fi: FuncInfo) -> bool:
    """fi does not exist in the reviewed tree (sa/tables/local_names.json): a helper introduced by a later change"""
    return fi.qualname not in load_table().get(fi.module.relpath, {})


def _pargs(call: ast.Call, names: list[str], fi: FuncInfo | None = None) -> list[ast.expr | None] | None:
    """
    The arguments of `call` in the order of `names` (positional or keyword); None if the call has other arguments.
    ``f(*seq)`` / ``f(**{..})`` with an evident sequence / dict display (also held in a single-assignment local of fi) are spelled out.
    """
    pos: list = []
    for a in call.args:
        if isinstance(a, ast.Starred):
            its = _seq_items(resolve(fi, a.value) if fi is not None else a.value, fi.module if fi is not None else None)
            if its is None:
                return None
            pos += its
        else:
            pos.append(a)
    kws: dict = {}
    for k in call.keywords:
        if k.arg is None:
            d = resolve(fi, k.value) if fi is not None else strip_cast(k.value)
            if not isinstance(d, ast.Dict) or not all(kk is not None and isinstance(const_value(kk), str) for kk in d.keys):
                return None
            for kk, val in zip(d.keys, d.values):
                kws[const_value(kk)] = val
        else:
            kws[k.arg] = k.value
    if len(pos) > len(names) or any(k not in names[len(pos):] for k in kws):
        return None
    return [pos[i] if i < len(pos) else kws.get(n) for i, n in enumerate(names)]


_BUILTIN_METHODS = frozenset(n for t in (dict, list, set, tuple, str, bytes, bytearray, int, object) for n in dir(t))


# ---- control flow of ``with contextlib.suppress(E): BODY``: that of ``try: BODY`` / ``except E: pass``
def _is_suppress(mod, e: ast.AST) -> bool:
    e = strip_cast(e)
    return isinstance(e, ast.Call) and not e.keywords and not any(isinstance(a, ast.Starred) for a in e.args) \
        and _imported_as(mod, e.func, "contextlib", ("suppress",))


def _unsuppress_block(stmts: list, mod, back: dict) -> tuple[list, bool]:
    out, changed = [], False
    for st in stmts:
        ns = _unsuppress_stmt(st, mod, back)
        changed = changed or ns is not st
        out.append(ns)
    return (out, True) if changed else (stmts, False)


def _unsuppress_stmt(st: ast.stmt, mod, back: dict) -> ast.stmt:
    """st, or a shallow copy in which every ``with suppress(E):`` block (also nested deeper) is a try / except E: pass (sub-nodes are shared)"""
    import copy
    if isinstance(st, (ast.FunctionDef, ast.AsyncFunctionDef, ast.ClassDef)):
        return st
    new: dict = {}
    for f in ("body", "orelse", "finalbody"):
        blk = getattr(st, f, None)
        if isinstance(blk, list) and blk and isinstance(blk[0], ast.stmt):
            nb, ch = _unsuppress_block(blk, mod, back)
            if ch:
                new[f] = nb
    if isinstance(getattr(st, "handlers", None), list):
        hs, ch = [], False
        for h in st.handlers:
            nb, c2 = _unsuppress_block(h.body, mod, back)
            if c2:
                nh = copy.copy(h)
                nh.body = nb
                back[id(nh)] = h
                hs.append(nh)
                ch = True
            else:
                hs.append(h)
        if ch:
            new["handlers"] = hs
    sup = [i for i in st.items if _is_suppress(mod, i.context_expr)] if isinstance(st, ast.With) else []
    if not new and not sup:
        return st
    ns = copy.copy(st)
    for f, val in new.items():
        setattr(ns, f, val)
    back[id(ns)] = st
    if not sup:
        return ns
    types = [a for i in sup for a in strip_cast(i.context_expr).args]
    if not types:
        return ns           # suppress() without arguments suppresses nothing
    handler = ast.ExceptHandler(type=types[0] if len(types) == 1 else ast.Tuple(elts=list(types), ctx=ast.Load()), name=None, body=[ast.Pass()])
    tr = ast.Try(body=ns.body, handlers=[handler], orelse=[], finalbody=[])
    for x in (tr, handler, handler.body[0]):
        ast.copy_location(x, st)
        x._parent = parent(st)
    handler._parent = tr
    handler.body[0]._parent = handler
    rest = [i for i in st.items if i not in sup]
    if rest:
        ns.items = rest
        ns.body = [tr]
        return ns
    back.pop(id(ns), None)
    return tr


def _cfg_of(ctx: Ctx, fi: FuncInfo):
    """
    ctx.cfg(fi); for a function that uses ``with contextlib.suppress(..)`` the graph is built from a shallow copy in which these
    blocks are try / except .. : pass (the engine's CFG has no edge from a suppressed exception to the code after the block).
    The copy shares every statement and expression with the repository's tree, which is left untouched.
    """
    k = id(fi.node)
    if k in ctx._cfgs:
        return ctx._cfgs[k]
    mod = fi.module
    if not isinstance(fi.node, (ast.FunctionDef, ast.AsyncFunctionDef)) or \
            not any(isinstance(x, ast.With) and any(_is_suppress(mod, i.context_expr) for i in x.items) for x in walk_no_nested(fi.node)):
        return ctx.cfg(fi)
    import copy
    from ..cfg import CFG
    back: dict = {}
    body, changed = _unsuppress_block(fi.node.body, mod, back)
    if not changed:
        return ctx.cfg(fi)
    shell = copy.copy(fi.node)
    shell.body = body
    g = CFG(shell)
    g.func = fi.node
    for n in g.nodes:
        if n.ast is not None and id(n.ast) in back:
            orig = back[id(n.ast)]
            g.by_ast.setdefault(id(orig), []).append(n)
            n.ast = orig
    ctx.functions.add(fi.where)
    ctx._cfgs[k] = g
    return g


def _record_fields(cls) -> list[str] | None:
    """field names, in constructor order, of a NamedTuple / dataclass without a hand-written constructor"""
    node = cls.node
    is_nt = any(chain(b) in ("NamedTuple", "typing.NamedTuple") for b in node.bases)
    is_dc = any((chain(d.func) if isinstance(d, ast.Call) else chain(d)) in ("dataclass", "dataclasses.dataclass") for d in node.decorator_list)
    if not (is_nt or is_dc) or len(node.bases) > (1 if is_nt else 0) or "__init__" in cls.methods or "__new__" in cls.methods or "__post_init__" in cls.methods:
        return None
    out = []
    for st in node.body:
        if isinstance(st, ast.AnnAssign) and isinstance(st.target, ast.Name) and "ClassVar" not in norm(st.annotation):
            out.append(st.target.id)
    return out


def _project(v: "_View", base: ast.AST, key) -> ast.AST | None:
    """
    base.<key> (attribute name) / base[<key>] (constant index) when base is a tuple display or the construction of a
    NamedTuple / dataclass record of this repository: the corresponding element / constructor argument.
    """
    base = strip_cast(base)
    if isinstance(base, (ast.Tuple, ast.List)) and isinstance(key, int):
        if 0 <= key < len(base.elts) and not any(isinstance(x, ast.Starred) for x in base.elts):
            return base.elts[key]
        return None
    if not isinstance(base, ast.Call) or not isinstance(base.func, ast.Name) or any(isinstance(a, ast.Starred) for a in base.args) \
            or any(k.arg is None for k in base.keywords):
        return None
    try:
        cls = v.ctx.repo.resolve_name(v.fi.module, base.func.id)
    except Exception:  # noqa: BLE001
        return None
    fields = _record_fields(cls) if hasattr(cls, "methods") and hasattr(cls, "node") and isinstance(cls.node, ast.ClassDef) else None
    if not fields:
        return None
    if isinstance(key, int):
        if not any(chain(b) in ("NamedTuple", "typing.NamedTuple") for b in cls.node.bases) or not 0 <= key < len(fields):
            return None
        key = fields[key]
    if key not in fields:
        return None
    i = fields.index(key)
    if i < len(base.args):
        return base.args[i]
    for k in base.keywords:
        if k.arg == key:
            return k.value
    for st in cls.node.body:         # field default
        if isinstance(st, ast.AnnAssign) and isinstance(st.target, ast.Name) and st.target.id == key and st.value is not None:
            return clone(st.value)
    return None


def _boolean_valued(e: ast.AST, depth: int = 4) -> bool:
    """e evaluates to True / False whatever its operands are: a comparison, ``not x``, ``bool(x)``, and / or of such"""
    e = strip_cast(e)
    if isinstance(e, ast.Compare) or isinstance(e, ast.UnaryOp) and isinstance(e.op, ast.Not) or isinstance(const_value(e), bool):
        return True
    if isinstance(e, ast.Call) and isinstance(e.func, ast.Name) and e.func.id in ("bool", "isinstance", "callable", "any", "all"):
        return True
    if isinstance(e, ast.BoolOp) and depth > 0:
        return all(_boolean_valued(x, depth - 1) for x in e.values)
    if isinstance(e, ast.IfExp) and depth > 0:
        return _boolean_valued(e.body, depth - 1) and _boolean_valued(e.orelse, depth - 1)
    return False


# ---- a function decorated with a NEW private decorator denotes the wrapper the decorator returns
def _named_function(repo, k: FuncInfo, ref: ast.AST) -> FuncInfo | None:
    """the function of this repository a decorator expression of k names (bare name, name of the class body, module.name)"""
    ref = strip_cast(ref)
    try:
        if isinstance(ref, ast.Name):
            if k.cls is not None and ref.id in k.cls.methods and k.cls.methods[ref.id].node is not k.node:
                return k.cls.methods[ref.id]
            r = repo.resolve_name(k.module, ref.id)
            return r if isinstance(r, FuncInfo) else None
        if isinstance(ref, ast.Attribute) and isinstance(ref.value, ast.Name):
            r = repo.resolve_name(k.module, ref.value.id)
            if isinstance(r, tuple) and r[0] == "module" and r[1] is not None:
                return r[1].functions.get(ref.attr)
            if hasattr(r, "methods") and ref.attr in r.methods:
                return r.methods[ref.attr]
            if k.cls is not None and ref.value.id in ("self", "cls", k.cls.name):
                return k.cls.lookup(ref.attr)
    except Exception:  # noqa: BLE001
        return None
    return None


def _is_wraps(mod, d: ast.AST) -> bool:
    d = strip_cast(d)
    return isinstance(d, ast.Call) and (_imported_as(mod, d.func, "functools", ("wraps",)) or chain(d.func) in ("functools.wraps", "wraps"))


def _returned_def(repo, f: FuncInfo) -> FuncInfo | None:
    """
    f does nothing but define one nested function and return it (``return g`` / ``return wraps(x)(g)``; a docstring is allowed,
    g may be decorated with functools.wraps only): that nested function, else None.
    """
    body = [st for st in f.node.body if not (isinstance(st, ast.Expr) and isinstance(const_value(st.value), str)) and not isinstance(st, ast.Pass)]
    if len(body) != 2 or not isinstance(body[0], (ast.FunctionDef, ast.AsyncFunctionDef)) or not isinstance(body[1], ast.Return) or body[1].value is None:
        return None
    g, rv = body[0], strip_cast(body[1].value)
    if isinstance(rv, ast.Call) and _is_wraps(f.module, rv.func) and len(rv.args) == 1 and not rv.keywords:
        rv = strip_cast(rv.args[0])
    if not (isinstance(rv, ast.Name) and rv.id == g.name) or not all(_is_wraps(f.module, d) for d in g.decorator_list):
        return None
    return getattr(g, "_info", None)


def _plain_bind(f: FuncInfo, c: ast.Call) -> dict | None:
    """parameters of the plain function f bound to the argument expressions of the call c as written (defaults filled in), None if not evident"""
    a = f.node.args
    if a.vararg or a.kwarg or any(isinstance(x, ast.Starred) for x in c.args) or any(kw.arg is None for kw in c.keywords):
        return None
    pos = [x.arg for x in a.posonlyargs + a.args]
    if len(c.args) > len(pos):
        return None
    bind = dict(zip(pos, c.args))
    names = pos + [x.arg for x in a.kwonlyargs]
    for kw in c.keywords:
        if kw.arg not in names or kw.arg in bind:
            return None
        bind[kw.arg] = kw.value
    defaults = dict(zip(pos[len(pos) - len(a.defaults):], a.defaults)) if a.defaults else {}
    defaults.update({x.arg: d for x, d in zip(a.kwonlyargs, a.kw_defaults) if d is not None})
    for p_ in names:
        if p_ not in bind:
            if p_ not in defaults:
                return None
            bind[p_] = defaults[p_]
    return bind


def _decorator_layers(ctx: Ctx, k: FuncInfo) -> list[tuple[FuncInfo, str, dict]]:
    """
    The NEW (not in the reviewed tree) decorators of k that this repository defines, outermost first, each as (wrapper function -
    given k's class, so that `self` resolves -, the wrapper's free variable that denotes the decorated function, the other free
    variables bound by a decorator factory call).  Calling k runs the first wrapper; the wrapper's call of its function variable runs
    the next layer and finally k's own body.  Decorators of the reviewed tree, built-in and third-party ones are not layers (they are
    treated as before).  A decorator that hands back the function it was given (registration at import time) is transparent.
    A new decorator of another shape cannot be followed: undecided.
    """
    cache = ctx.__dict__.setdefault("_c08_layers", {})
    if id(k.node) in cache:
        return cache[id(k.node)]
    cache[id(k.node)] = []
    out = []
    if isinstance(k.node, (ast.FunctionDef, ast.AsyncFunctionDef)):
        for d in k.node.decorator_list:
            call = strip_cast(d) if isinstance(strip_cast(d), ast.Call) else None
            dfi = _named_function(ctx.repo, k, call.func if call is not None else d)
            if dfi is None or not _is_new(dfi) or dfi.node is k.node:
                continue
            closure: dict = {}
            plain = dfi
            if call is not None:
                b = _plain_bind(dfi, call)
                plain = _returned_def(ctx.repo, dfi)
                if b is None or plain is None:
                    raise AnalysisError(f"undecided: the new decorator `@{norm(d)[:60]}` of {k.qualname} is not a factory that only defines and returns a decorator")
                closure.update(b)
            pa = plain.node.args
            if len(pa.posonlyargs + pa.args) != 1 or pa.vararg or pa.kwarg or pa.kwonlyargs:
                raise AnalysisError(f"undecided: the new decorator `@{norm(d)[:60]}` of {k.qualname} does not take exactly the decorated function")
            fname = (pa.posonlyargs + pa.args)[0].arg
            rets = [r for r in walk_no_nested(plain.node) if isinstance(r, ast.Return)]
            if rets and all(r.value is not None and isinstance(strip_cast(r.value), ast.Name) and strip_cast(r.value).id == fname for r in rets) \
                    and not local_defs(plain, fname):
                continue        # hands the function back unchanged
            w = _returned_def(ctx.repo, plain)
            if w is None:
                raise AnalysisError(f"undecided: the new decorator `@{norm(d)[:60]}` of {k.qualname} does more than define and return one wrapper function")
            if local_defs(w, fname) or is_param(w, fname) or any(not is_param(w, x) and local_defs(w, x) for x in closure):
                raise AnalysisError(f"undecided: the wrapper of the new decorator `@{norm(d)[:60]}` rebinds a variable of its enclosing scope")
            out.append((FuncInfo(w.name, w.qualname, w.node, w.module, k.cls), fname, closure))
    cache[id(k.node)] = out
    return out


def _entry(ctx: Ctx, fi: FuncInfo) -> "_View":
    """the view that stands for a call of fi from outside the analysed code: its outermost new decorator wrapper if it has one"""
    layers = _decorator_layers(ctx, fi)
    if not layers:
        return _View(ctx, fi)
    wfi, fname, closure = layers[0]
    a = wfi.node.args
    bind = {n: clone(x) for n, x in closure.items() if not is_param(wfi, n)}
    if a.vararg or a.kwarg:
        # wrapper(self, *args, **kwargs): seen as called with the decorated function's own parameters, by name
        own = [x.arg for x in fi.node.args.posonlyargs + fi.node.args.args][len(a.posonlyargs + a.args):]
        if a.vararg:
            bind[a.vararg.arg] = ast.Tuple(elts=[ast.Name(id=x, ctx=ast.Load()) for x in own], ctx=ast.Load())
        if a.kwarg:
            bind[a.kwarg.arg] = ast.Dict(keys=[], values=[])
    v = _View(ctx, wfi, bind)
    v.wrapped = (fname, fi, 1)
    return v


def _body_view(ctx: Ctx, fi: FuncInfo) -> "_View":
    """the view of fi's own body, reached through the wrappers of its new decorators (so that their guards are facts of the body)"""
    e = _entry(ctx, fi)
    if e.wrapped is None:
        return e
    vs = [v for v in e.closure() if v.fi.node is fi.node]
    if len(vs) != 1:
        raise AnalysisError(f"undecided: the wrappers of the new decorators of {fi.qualname} do not call it at exactly one evident place")
    return vs[0]


def _entry_params(root: "_View") -> list[str]:
    """parameter names of the function a root view stands for (those of the decorated function when the wrapper takes *args)"""
    a = root.fi.node.args
    if root.wrapped is not None and (a.vararg or a.kwarg):
        return root.wrapped[1].params()
    return root.fi.params()


class _View:
    """
    A function analysed in the context of one call: its parameters are bound to the caller's argument expressions (already
    expanded in the caller's view).  expand() rewrites an expression into the terms of the outermost function: pure
    single-assignment locals are replaced by their definition, bound parameters by the caller's argument, typing.cast is
    dropped.  Two expressions with the same expansion are evaluated from the same inputs.
    """

    def __init__(self, ctx: Ctx, fi: FuncInfo, bind: dict | None = None, up: "_View | None" = None, site: ast.Call | None = None):
        self.ctx, self.fi, self.cfg = ctx, fi, _cfg_of(ctx, fi)
        self.bind = bind or {}
        self.up, self.site = up, site
        self.extra: list = []           # facts (in the caller's terms) under which a dispatch selects this callee
        self._targets: dict | None = None
        self._views: dict = {}
        # a decorator wrapper: (its free variable that denotes the decorated function, that function, index of the next layer)
        self.wrapped: tuple | None = None

    def stack(self) -> list[FuncInfo]:
        out, v = [], self
        while v is not None:
            out.append(v.fi)
            v = v.up
        return out

    # ---- expressions
    def expand(self, e: ast.AST | None, *, keep: frozenset = frozenset(), env: dict | None = None, depth: int = 8, at: ast.AST | None = None,
               obj: bool = False):
        """at: where the expression is evaluated (default: e itself when it is a node of this function); obj: e is used as an object there"""
        if e is None:
            return None
        if at is None and parent(e) is not None:
            at = e
        return self._x(e, depth, frozenset(keep), env or {}, at, obj)

    def xn(self, e: ast.AST | None, **kw) -> str | None:
        return None if e is None else norm(self.expand(e, **kw))

    def _x(self, e, depth: int, keep: frozenset, env: dict, at=None, obj: bool = False):
        if not isinstance(e, ast.AST):
            return e
        e = strip_cast(e)
        if isinstance(e, ast.Name):
            if isinstance(e.ctx, ast.Load) and e.id not in keep:
                if e.id in env:
                    return clone(env[e.id])
                if e.id in self.bind and not local_defs(self.fi, e.id):
                    return clone(self.bind[e.id])
                if depth > 0:
                    common = self._common_component(e, depth) if parent(e) is not None else None
                    if common is not None:
                        return common
                    d = self.one_def(e.id) or self._value_def(e.id, at, obj)
                    if d is not None and d[1] is None and not isinstance(d[0], (ast.Yield, ast.YieldFrom, ast.Await)):
                        return self._x(d[0], depth - 1, keep | {e.id}, env, d[0], obj)
                    if d is not None and d[1] is None and isinstance(d[0], ast.Await) and isinstance(strip_cast(d[0].value), ast.Call):
                        syn = _deferred_call(self, strip_cast(d[0].value))     # await loop.run_in_executor(None, f, a, b) is f(a, b)
                        if syn is not None:
                            return self._x(syn, depth - 1, keep | {e.id}, env, d[0])
                    if d is not None and d[1] is not None and self._plain_unpack(e.id, d[1]):
                        # `a, b = seq`: a is seq[0] (no starred target before it)
                        src = self._x(d[0], depth - 1, keep | {e.id}, env, d[0])
                        return _project(self, src, d[1]) or ast.Subscript(value=src, slice=ast.Constant(value=d[1]), ctx=ast.Load())
            return clone(e)
        if depth > 0 and isinstance(e, (ast.Attribute, ast.Subscript)) and isinstance(e.ctx, ast.Load) and parent(e) is not None:
            base = strip_cast(e.value)
            if not (isinstance(base, ast.Name) and (base.id in keep or base.id in env)):
                common = self._common_component(e, depth)
                if common is not None:
                    return common
        if isinstance(e, (ast.Lambda, ast.GeneratorExp, ast.ListComp, ast.SetComp, ast.DictComp)):
            return clone(e)     # own scopes: left as written
        if isinstance(e, ast.Call) and depth > 0:
            kv = self.helper_of(e)
            if kv is not None:
                vals = kv.result_values()
                if vals is not None and len(vals) == 1:
                    # a new helper that returns one expression or else None / False: where its result is used as an object
                    # it is that expression (the caller has excluded the constant, or fails on it)
                    return kv._x(vals[0], depth - 1, frozenset(), {}, vals[0])
        new = type(e)()
        for f in e._fields:
            if not hasattr(e, f):
                continue
            v = getattr(e, f)
            sub_obj = f == "value" and isinstance(e, (ast.Attribute, ast.Subscript))
            setattr(new, f, [self._x(x, depth, keep, env, at) for x in v] if isinstance(v, list) else self._x(v, depth, keep, env, at, sub_obj))
        for a in e._attributes:
            if hasattr(e, a):
                setattr(new, a, getattr(e, a))
        if isinstance(new, ast.Call) and isinstance(new.func, ast.Call):
            pre = _partial_applied(self.fi.module, new.func, new)
            if pre is not None:
                new = pre           # partial(f, a, k=b)(x, y) is f(a, x, y, k=b)
        if isinstance(new, ast.Call) and isinstance(new.func, ast.Call) and len(new.args) == 1 and not new.keywords and not isinstance(new.args[0], ast.Starred):
            # attrgetter("a")(x) is x.a, methodcaller("m", y)(x) is x.m(y), partial(f, a)(x) is f(a, x)
            r = _apply_callable(self.fi.module, new.func, new.args[0])
            if not (isinstance(r, ast.Call) and isinstance(r.func, ast.Call)):
                new = r
        if isinstance(new, ast.Call) and isinstance(new.func, ast.Name) and new.func.id == "next" and len(new.args) == 1 and not new.keywords \
                and isinstance(new.args[0], ast.Call) and isinstance(new.args[0].func, ast.Name) and new.args[0].func.id == "iter" \
                and len(new.args[0].args) == 1 and not new.args[0].keywords and not isinstance(new.args[0].args[0], ast.Starred):
            return ast.Subscript(value=new.args[0].args[0], slice=ast.Constant(value=0), ctx=ast.Load())     # the first element (of a sequence)
        if obj and isinstance(new, ast.Call) and isinstance(new.func, ast.Attribute) and new.func.attr == "get" and len(new.args) == 1 and not new.keywords \
                and not isinstance(new.args[0], ast.Starred):
            # used as an object, ``d.get(k)`` is ``d[k]`` (None fails there)
            return ast.Subscript(value=new.func.value, slice=new.args[0], ctx=ast.Load())
        if isinstance(new, ast.Attribute) and isinstance(new.ctx, ast.Load):
            return _project(self, new.value, new.attr) or new
        if isinstance(new, ast.Subscript) and isinstance(new.ctx, ast.Load) and isinstance(const_value(new.slice), int) and not isinstance(const_value(new.slice), bool):
            return _project(self, new.value, const_value(new.slice)) or new
        return new

    def _common_component(self, e: ast.AST, depth: int):
        """
        e is a component (tuple element / record field) of the result of a new helper with several returns: if that component
        is the same expression at every return, e is that expression.
        """
        comp = _component(self, e)
        if comp is None or comp[1] is None:
            return None
        kv = self.helper_of(comp[0])
        if kv is None:
            return None
        vals = {}
        for r in [x for x in walk_no_nested(kv.fi.node) if isinstance(x, ast.Return)]:
            te = _ret_elts(kv, r.value)
            key = comp[1]
            i = key if isinstance(key, int) else (te[1].index(key) if te is not None and te[1] and key in te[1] else None)
            if te is None or i is None or i >= len(te[0]):
                return None
            x = kv._x(te[0][i], depth - 1, frozenset(), {}, te[0][i])
            vals.setdefault(norm(x), x)
        return next(iter(vals.values())) if len(vals) == 1 else None

    def _value_def(self, name: str, at, obj: bool):
        """
        A local with several definitions of which exactly one is not the constant None / False: where the name is used as an
        object (base of an attribute / item access: None fails there), or where a dominating fact says it is truthy / not
        None, it holds that one definition.
        """
        if is_param(self.fi, name):
            return None
        defs = local_defs(self.fi, name)
        real = [(val, i) for _st, val, i in defs if not (val is not None and i is None and (const_value(strip_cast(val)) is None or const_value(strip_cast(val)) is False))]
        if len(defs) < 2 or len(real) != 1 or real[0][0] is None or real[0][1] is not None \
                or name in {x.id for x in ast.walk(real[0][0]) if isinstance(x, ast.Name)}:
            return None
        if obj:
            return real[0]
        if at is None or not self.cfg.nodes_for(at):
            return None
        for f in facts_at(self.cfg, at):
            l = strip_cast(f.left)
            if isinstance(l, ast.Name) and l.id == name and (f.op == "truthy" and f.pos or f.op in ("is", "eq") and not f.pos and f.right is not None
                                                          and (const_value(f.right) is None or const_value(f.right) is False)):
                return real[0]
        return None

    def one_def(self, name: str):
        """single_def(), also when the local is assigned the textually same call-free expression at several places (inlined copies)"""
        d = single_def(self.fi, name)
        if d is not None or is_param(self.fi, name):
            return d
        defs = local_defs(self.fi, name)

        def keeps(val, i) -> bool:
            # `x = x` / `a, x = (.., x)`: the definition keeps the current value (left behind by inlining)
            val = strip_cast(val) if val is not None else None
            if i is not None and isinstance(val, (ast.Tuple, ast.List)) and i < len(val.elts) and not any(isinstance(y, ast.Starred) for y in val.elts):
                val = strip_cast(val.elts[i])
            elif i is not None:
                return False
            return isinstance(val, ast.Name) and val.id == name
        real = [(val, i) for _st, val, i in defs if not keeps(val, i)]
        if len(real) == 1 and len(defs) > 1 and real[0][0] is not None:
            return real[0]
        if len(defs) > 1 and all(val is not None and i is None for _, val, i in defs) and len({norm(val) for _, val, _i in defs}) == 1 \
                and not any(isinstance(x, (ast.Call, ast.Await, ast.Yield, ast.YieldFrom, ast.NamedExpr)) for x in ast.walk(defs[0][1])) \
                and name not in {x.id for x in ast.walk(defs[0][1]) if isinstance(x, ast.Name)}:
            return defs[0][1], None
        return None

    def _plain_unpack(self, name: str, idx: int) -> bool:
        found = False
        for st, _val, i in local_defs(self.fi, name):
            if i != idx:
                continue
            ok = False
            for t in getattr(st, "targets", None) or [getattr(st, "target", None)]:
                if isinstance(t, (ast.Tuple, ast.List)) and idx < len(t.elts) and isinstance(t.elts[idx], ast.Name) and t.elts[idx].id == name:
                    ok = not any(isinstance(x, ast.Starred) for x in t.elts[:idx])
            if not ok:
                return False
            found = True
        return found

    def result_values(self) -> list[ast.AST] | None:
        """The non-constant values this function can return (None / False / True constants and falling off the end left out)."""
        out = []
        for r in walk_no_nested(self.fi.node):
            if isinstance(r, ast.Return) and r.value is not None:
                cv = const_value(strip_cast(r.value))
                if not (cv is None or cv is False or cv is True):
                    out.append(r.value)
        return out

    # ---- calls of helpers that are not part of the reviewed tree
    def bind_call(self, k: FuncInfo, c: ast.Call, ref: ast.AST | None = None, layer: int = 0) -> "_View | None":
        """
        view of k for the call c; ref: the expression that denotes k (default c.func; differs for dispatched calls).
        A k that carries new decorators is entered through their wrappers (layer: how many of them the call is already inside).
        """
        layers = _decorator_layers(self.ctx, k)
        if layer < len(layers):
            wfi, fname, closure = layers[layer]
            v = self._bind(wfi, k, c, ref)
            if v is not None:
                for n, x in closure.items():
                    v.bind.setdefault(n, clone(x))
                v.wrapped = (fname, k, layer + 1)
            return v
        return self._bind(k, k, c, ref)

    def _spread(self, c: ast.Call) -> tuple[list, list] | None:
        """positional arguments and (name, value) keywords of c with ``*seq`` / ``**map`` of an evident tuple / dict display (a bound *args / **kwargs) spelled out"""
        args: list = []
        for x in c.args:
            if isinstance(x, ast.Starred):
                seq = self.expand(x.value)
                if not isinstance(seq, (ast.Tuple, ast.List)) or any(isinstance(y, ast.Starred) for y in seq.elts):
                    return None
                args += [("x", y) for y in seq.elts]
            else:
                args.append(("r", x))
        kws: list = []
        for kw in c.keywords:
            if kw.arg is None:
                d = self.expand(kw.value)
                if not isinstance(d, ast.Dict) or not all(kk is not None and isinstance(const_value(kk), str) for kk in d.keys):
                    return None
                kws += [(const_value(kk), ("x", val)) for kk, val in zip(d.keys, d.values)]
            else:
                kws.append((kw.arg, ("r", kw.value)))
        return args, kws

    def _bind(self, k: FuncInfo, decl: FuncInfo, c: ast.Call, ref: ast.AST | None) -> "_View | None":
        """k: the function whose body runs (decl itself or a decorator wrapper standing for it); decl: the function as declared in its class"""
        ref = strip_cast(ref if ref is not None else c.func)
        a = k.node.args
        sp = self._spread(c)
        if sp is None:
            return None
        cargs, ckws = sp

        def val(t):
            return self.expand(t[1]) if t[0] == "r" else clone(t[1])       # spread elements are already in expanded form
        pos = [x.arg for x in a.posonlyargs + a.args]
        static = any(chain(d) == "staticmethod" for d in decl.node.decorator_list)
        bind = {}
        first: list = []
        if decl.cls is not None and not static and isinstance(ref, ast.Attribute) and not pos and a.vararg:
            first = [self.expand(strip_cast(ref.value))]        # wrapper(*args): the receiver is args[0]
        if decl.cls is not None and not static and isinstance(ref, ast.Attribute) and pos:
            recv = strip_cast(ref.value)
            if not (isinstance(recv, ast.Name) and recv.id in ("self", "cls") and self.fi.cls is not None):
                if any(chain(d) == "classmethod" for d in decl.node.decorator_list):
                    return None
                bind[pos[0]] = self.expand(recv)       # a method of another object: its `self` is the receiver
            pos = pos[1:]       # self / cls is the receiver
        if len(cargs) > len(pos) and not a.vararg:
            return None
        bind.update({p: val(x) for p, x in zip(pos, cargs)})
        if a.vararg:
            bind[a.vararg.arg] = ast.Tuple(elts=first + [val(x) for x in cargs[len(pos):]], ctx=ast.Load())
        names = pos + [x.arg for x in a.kwonlyargs]
        extra_kw: list = []
        for kwname, kwval in ckws:
            if kwname in bind:
                return None
            if kwname not in names:
                if not a.kwarg:
                    return None
                extra_kw.append((kwname, val(kwval)))
                continue
            bind[kwname] = val(kwval)
        if a.kwarg:
            bind[a.kwarg.arg] = ast.Dict(keys=[ast.Constant(value=n) for n, _ in extra_kw], values=[x for _, x in extra_kw])
        allpos = [x.arg for x in a.posonlyargs + a.args]
        defaults = dict(zip(allpos[len(allpos) - len(a.defaults):], a.defaults)) if a.defaults else {}
        defaults.update({x.arg: d for x, d in zip(a.kwonlyargs, a.kw_defaults) if d is not None})
        for p in names:
            if p not in bind:
                if p not in defaults:
                    return None
                bind[p] = clone(defaults[p])
        return _View(self.ctx, k, bind, self, c)

    def _callable_alternatives(self, f: ast.AST, depth: int = 3) -> list[tuple[ast.AST, list]] | None:
        """
        The function references a callee expression can evaluate to, each with the facts under which it is selected:
        ``a if c else b``, ``{k1: a, k2: b}[e]``, ``{..}.get(e, d)``, a single-assignment local holding one of these.
        None: not such a dispatch.
        """
        f = strip_cast(f)
        if depth <= 0:
            return None
        if isinstance(f, ast.Name):
            sd = single_def(self.fi, f.id)
            if sd is not None and sd[1] is None:
                return self._callable_alternatives(sd[0], depth - 1)
            return [(f, [])] if not is_param(self.fi, f.id) and not local_defs(self.fi, f.id) else None
        if isinstance(f, ast.Attribute):
            return [(f, [])]
        if isinstance(f, ast.IfExp):
            a, b = self._callable_alternatives(f.body, depth - 1), self._callable_alternatives(f.orelse, depth - 1)
            if a is None or b is None:
                return None
            return [(r, fs + _atoms_with_polarity(f.test, True)) for r, fs in a] + [(r, fs + _atoms_with_polarity(f.test, False)) for r, fs in b]
        if isinstance(f, ast.Call) and _is_builtin(self.fi.module, f.func, "next") and len(f.args) in (1, 2) and not f.keywords \
                and isinstance(strip_cast(f.args[0]), ast.GeneratorExp) and len(strip_cast(f.args[0]).generators) == 1:
            # ``next((fn for key, fn in <rows> if <test on key>), None)``: the first row of an evident table whose test holds
            ge = strip_cast(f.args[0])
            g = ge.generators[0]
            rows = _row_items(self, g.iter) if not g.is_async else None
            names = [x.id for x in g.target.elts] if isinstance(g.target, (ast.Tuple, ast.List)) and all(isinstance(x, ast.Name) for x in g.target.elts) else None
            if not rows or names is None or len(set(names)) != len(names) or any(len(r) != len(names) for r in rows):
                return None
            out = []
            for r in rows:
                elt, tests = ge.elt, list(g.ifs)
                for n, x in zip(names, r):
                    elt = _subst_name(elt, n, x)
                    tests = [_subst_name(t, n, x) for t in tests]
                alts = self._callable_alternatives(elt, depth - 1)
                if alts is None:
                    return None
                sel = [a for t in tests for a in _atoms_with_polarity(t, True)]
                out += [(ref, fs + sel) for ref, fs in alts]
            dflt = strip_cast(f.args[1]) if len(f.args) == 2 else None
            if dflt is not None and not (isinstance(dflt, ast.Constant) and dflt.value is None):
                alts = self._callable_alternatives(dflt, depth - 1)
                if alts is None:
                    return None
                out += alts
            return out
        table = key = default = None
        if isinstance(f, ast.Subscript):
            table, key = resolve(self.fi, f.value), f.slice
        elif isinstance(f, ast.Call) and isinstance(f.func, ast.Attribute) and f.func.attr == "get" and len(f.args) in (1, 2) and not f.keywords \
                and not any(isinstance(x, ast.Starred) for x in f.args):
            # ``{..}.get(e)`` / ``{..}.get(e, None)``: a missing key gives None, which is not a function (calling it runs nothing of this repository)
            table, key, default = resolve(self.fi, f.func.value), f.args[0], (f.args[1] if len(f.args) == 2 else ast.Constant(value=None))
        if isinstance(table, (ast.Tuple, ast.List)) and key is not None and default is None and isinstance(f, ast.Subscript) \
                and not any(isinstance(x, ast.Starred) for x in table.elts):
            # (f, g)[i]: a tuple display used as a table
            out = []
            for i, val in enumerate(table.elts):
                alts = self._callable_alternatives(val, depth - 1)
                if alts is None:
                    return None
                if len(table.elts) == 2 and _boolean_valued(resolve(self.fi, key)):
                    sel = _atoms_with_polarity(key, i == 1)         # (f, g)[flag]: g iff the flag is true
                else:
                    sel = [fact_of(ast.Compare(left=key, ops=[ast.Eq()], comparators=[ast.Constant(value=i)]), True)]
                out += [(r, fs + sel) for r, fs in alts]
            return out
        if isinstance(table, ast.Dict) and key is not None and all(k is not None for k in table.keys):
            out = []
            for k, val in zip(table.keys, table.values):
                alts = self._callable_alternatives(val, depth - 1)
                kc = const_value(strip_cast(k))
                if alts is None:
                    return None
                if kc is True or kc is False:
                    sel = _atoms_with_polarity(key, kc)
                else:
                    sel = [fact_of(ast.Compare(left=key, ops=[ast.Eq()], comparators=[k]), True)]
                out += [(r, fs + sel) for r, fs in alts]
            if default is not None and not (isinstance(strip_cast(default), ast.Constant) and strip_cast(default).value is None):
                alts = self._callable_alternatives(default, depth - 1)
                if alts is None:
                    return None
                out += alts
            return out
        return None

    def _resolve_ref(self, ref: ast.AST, c: ast.Call) -> list[FuncInfo]:
        repo = self.ctx.repo
        try:
            if isinstance(ref, ast.Attribute) and isinstance(ref.value, ast.Name) and ref.value.id in ("self", "cls") and self.fi.cls is not None:
                return repo.dispatch(self.fi.cls, ref.attr)
            if isinstance(ref, ast.Name):
                r = repo.resolve_name(self.fi.module, ref.id)
                return [r] if isinstance(r, FuncInfo) else []
        except Exception:  # noqa: BLE001
            return []
        return []

    def _calls_wrapped(self, f: ast.AST) -> bool:
        f = strip_cast(f)
        return self.wrapped is not None and isinstance(f, ast.Name) and f.id == self.wrapped[0] and not is_param(self.fi, f.id) and not local_defs(self.fi, f.id)

    def depth(self) -> int:
        """number of functions on the call stack of this view (the wrappers of decorators do not count)"""
        n, v = 0, self
        while v is not None:
            n += v.wrapped is None
            v = v.up
        return n

    def call_targets(self, c: ast.Call) -> list[tuple[FuncInfo, ast.AST, list]]:
        """(callee, expression denoting it, selecting facts) for a call in this function; [] if the callee is not known"""
        f = strip_cast(c.func)
        if self._calls_wrapped(f):
            return [(self.wrapped[1], f, [])]        # the wrapper of a decorator runs the function it decorates
        bound = _callee(c) if isinstance(f, ast.Name) and parent(c) is not None else f
        if bound is not f:
            # a local bound once to ``self.m`` / ``obj.m`` (early binding) and called later: the call runs that method
            targets = self._resolve_ref(bound, c)
            if not targets and isinstance(bound, ast.Attribute) and bound.attr not in _BUILTIN_METHODS:
                same = [g for g in self.ctx.repo.all_functions() if g.name == bound.attr]
                targets = same if len(same) == 1 and same[0].cls is not None else []
            return [(targets[0], bound, [])] if len(targets) == 1 else []
        direct = isinstance(f, ast.Attribute) or isinstance(f, ast.Name) and not is_param(self.fi, f.id) and not local_defs(self.fi, f.id)
        if direct:
            try:
                targets = self.ctx.repo.resolve_call(self.fi, c)
            except Exception:  # noqa: BLE001
                targets = []
            if not targets and isinstance(f, ast.Attribute) and f.attr not in _BUILTIN_METHODS:
                # receiver of unknown type: a method name that exactly one function of the repository has denotes it
                same = [g for g in self.ctx.repo.all_functions() if g.name == f.attr]
                targets = same if len(same) == 1 and same[0].cls is not None else []
            return [(targets[0], f, [])] if len(targets) == 1 else []
        alts = self._callable_alternatives(f)
        if not alts or len(alts) < 2:
            return []
        out = []
        for ref, facts in alts:
            ks = self._resolve_ref(strip_cast(ref), c)
            if len(ks) != 1:
                return []
            out.append((ks[0], strip_cast(ref), facts))
        return out

    def _helper_targets(self) -> dict:
        if self._targets is None:
            self._targets = {}
            if self.depth() <= 4 and len(self.stack()) <= 8:
                for c in calls(self.fi, nested=False):
                    ts = [(k, ref, facts) for k, ref, facts in self.call_targets(c)
                          if (_is_new(k) or self._calls_wrapped(ref)) and k not in self.stack()
                          and not any(isinstance(n, (ast.Yield, ast.YieldFrom)) for n in walk_no_nested(k.node))]   # a generator call does not run the body
                    if ts:
                        self._targets[id(c)] = (c, ts)
        return self._targets

    def views_of(self, c: ast.AST) -> list["_View"]:
        """views of the new helpers the call `c` (in this function) can run; several for a dispatched call"""
        t = self._helper_targets().get(id(c))
        if t is None or t[0] is not c:
            return []
        if id(c) not in self._views:
            self._views[id(c)] = []           # re-entrancy guard while the arguments are expanded
            out = []
            for k, ref, facts in t[1]:
                kv = self.bind_call(k, c, ref, self.wrapped[2] if self._calls_wrapped(ref) else 0)
                if kv is not None:
                    kv.extra = list(facts)
                    out.append(kv)
            self._views[id(c)] = out
        return self._views[id(c)]

    def helper_of(self, c: ast.AST) -> "_View | None":
        """view of the callee if `c` is a call (in this function) of one new, uniquely resolved, non-generator helper"""
        t = self._helper_targets().get(id(c))
        vs = self.views_of(c)
        return vs[0] if len(vs) == 1 and len(t[1]) == 1 and len(self.call_targets(c)) == 1 else None

    def helpers(self) -> list[tuple[ast.Call, "_View"]]:
        return [(c, kv) for c, _ts in self._helper_targets().values() for kv in self.views_of(c)]

    def helper_calls(self) -> list[tuple[ast.Call, list["_View"], bool]]:
        """(call, views of the new helpers it can run, complete) - complete: every possible callee is one of these views"""
        return [(c, self.views_of(c), len(self.views_of(c)) == len(self.call_targets(c))) for c, _ts in self._helper_targets().values()]

    def closure(self) -> list["_View"]:
        out = [self]
        for _, kv in self.helpers():
            out.extend(kv.closure())
        return out


def _closure_functions(views: list[_View]) -> set[FuncInfo]:
    return {v.fi for v in views}


# ---- facts in expanded form: (op, positive, left, right) with left/right expanded syntax trees
def _fkey(op: str, pos: bool, ls: str, rs: str = "") -> tuple:
    if op == "eq" and rs < ls:
        ls, rs = rs, ls
    return op, pos, ls, rs


def _tkey(t: tuple) -> tuple:
    return _fkey(t[0], t[1], norm(t[2]), norm(t[3]) if t[3] is not None else "")


def _cv(v: _View, e: ast.AST | None):
    """constant value of e (literal, or a module / class level constant name), NOCONST if unknown"""
    if e is None:
        return None
    e = strip_cast(e)
    c = const_value(e)
    if c is NOCONST and isinstance(e, (ast.Name, ast.Attribute)) and not (isinstance(e, ast.Name) and (is_param(v.fi, e.id) or local_defs(v.fi, e.id))):
        try:
            c = v.ctx.repo.resolve_const(v.fi.module, e, v.fi.cls)
        except Exception:  # noqa: BLE001
            c = NOCONST
    return c


def _helper_call(v: _View, e: ast.AST | None) -> ast.Call | None:
    """the call of a new helper that `e` (directly or as a single-assignment local) holds the result of"""
    if e is None:
        return None
    e = strip_cast(e)
    if isinstance(e, ast.Name):
        sd = single_def(v.fi, e.id)
        if sd is None or sd[1] is not None:
            return None
        e = strip_cast(sd[0])
    if isinstance(e, ast.Await):
        e = strip_cast(e.value)
    return e if isinstance(e, ast.Call) and v.helper_of(e) is not None else None


def _node_awaits(n) -> bool:
    a = n.ast
    if a is None or n.kind not in ("stmt", "cond", "loop"):
        return False
    if isinstance(a, (ast.AsyncWith, ast.AsyncFor)):
        return True
    if isinstance(a, ast.With):
        return any(isinstance(x, ast.Await) for i in a.items for x in walk_no_nested(i.context_expr))
    if isinstance(a, (ast.For, ast.While, ast.FunctionDef, ast.AsyncFunctionDef, ast.ClassDef)):
        return False
    return any(isinstance(x, ast.Await) for x in walk_no_nested(a))


def _suspends_before(v: _View, nodes: list) -> bool:
    """some path to `nodes` passes a point where the coroutine can be suspended (other tasks run in between)"""
    aw = [n for n in v.cfg.nodes if _node_awaits(n)]
    return bool(aw) and any(n in v.cfg.reach(aw) for n in nodes)


def _fresh_facts(v: _View, site) -> list:
    """
    Dominating facts that were established after the last suspension point on every path to the site: the outcome of a test
    made before an `await` says nothing about the state after it (other handlers ran in between).
    """
    cfg = v.cfg
    nodes = cfg.nodes_for(site) if isinstance(site, ast.AST) else [site]
    starts = [cfg.entry] + [n for n in cfg.nodes if _node_awaits(n)]
    out = []
    if not nodes:
        return out
    for c in cfg.nodes:
        if c.kind != "cond" or c in nodes:
            continue
        for pol in (True, False):
            if any(lab is pol for _, lab in c.succ):
                r = cfg.reach(starts, cut_edge=lambda u, w, lab, c=c, pol=pol: u is c and lab is pol)
                if all(n not in r for n in nodes):
                    out.append(fact_of(c.ast, pol))
    return out


def _completed_loop_facts(v: _View, site) -> list:
    """
    After ``for x in (a, b, c): ...`` ran to completion (no break; the site is only reached through the loop's normal exit), a
    test outcome that every iteration must have had in order to reach the next one holds for each element:
    ``for t in (A, B): if k in t: return True`` .. afterwards k is in neither A nor B.
    """
    cfg = v.cfg
    nodes = cfg.nodes_for(site) if isinstance(site, ast.AST) else [site]
    out = []
    if not nodes:
        return out
    for lp in cfg.nodes:
        s = lp.ast
        if lp.kind != "loop" or not isinstance(s, ast.For) or not isinstance(s.target, ast.Name):
            continue
        it = strip_cast(s.iter)
        if not isinstance(it, (ast.Tuple, ast.List)) or any(isinstance(x, ast.Starred) for x in it.elts) or len(local_defs(v.fi, s.target.id)) != 1 \
                or any(isinstance(x, (ast.Break, ast.Await)) for b in s.body for x in walk_no_nested(b)):
            continue
        if not all(cfg.must_pass_edges(n, lambda u, w, lab, lp=lp: u is lp and lab is False) for n in nodes):
            continue
        body = [w for w, lab in lp.succ if lab is True]
        inside = cfg.reach(body, cut_nodes=[lp])
        for c in inside:
            if c.kind != "cond":
                continue
            for pol in (True, False):
                if any(lab is pol for _, lab in c.succ) and lp not in cfg.reach(body, cut_edge=lambda u, w, lab, c=c, pol=pol: u is c and lab is pol):
                    out += [fact_of(_subst_name(c.ast, s.target.id, x), pol) for x in it.elts]
    return out


def _membership_parts(mod, e: ast.AST, depth: int = 4) -> list[ast.AST] | None:
    """
    Containers A1..An such that ``x in e`` is ``x in A1 or .. or x in An``: itertools.chain(A1, ..), collections.ChainMap(A1, ..),
    unions ``A1.keys() | set(A2) | ..``, displays ``{*A1, *A2}``.  None: e is not such a composition.
    """
    e = strip_cast(e)
    if depth <= 0:
        return None

    def leaf(x: ast.AST) -> list[ast.AST]:
        sub = _membership_parts(mod, x, depth - 1)
        if sub is not None:
            return sub
        x = strip_cast(x)
        if isinstance(x, ast.Call) and isinstance(x.func, ast.Attribute) and x.func.attr == "keys" and not x.args and not x.keywords:
            return [x.func.value]           # membership in a keys view is membership in the dict
        if isinstance(x, ast.Call) and len(x.args) == 1 and not x.keywords and any(_is_builtin(mod, x.func, n) for n in ("set", "frozenset", "list", "tuple", "iter")):
            return leaf(x.args[0])
        return [x]

    if isinstance(e, ast.Call) and e.args and not e.keywords and not any(isinstance(a, ast.Starred) for a in e.args) \
            and (_imported_as(mod, e.func, "itertools", ("chain",)) or _imported_as(mod, e.func, "collections", ("ChainMap",))):
        return [p for a in e.args for p in leaf(a)]
    if isinstance(e, ast.BinOp) and isinstance(e.op, ast.BitOr):
        return leaf(e.left) + leaf(e.right)
    if isinstance(e, ast.Call) and isinstance(e.func, ast.Attribute) and e.func.attr == "union" and e.args and not e.keywords \
            and not any(isinstance(a, ast.Starred) for a in e.args):
        return leaf(e.func.value) + [p for a in e.args for p in leaf(a)]
    if isinstance(e, (ast.Set, ast.Tuple, ast.List)) and e.elts and all(isinstance(x, ast.Starred) for x in e.elts):
        return [p for x in e.elts for p in leaf(x.value)]
    if isinstance(e, ast.Call) and len(e.args) == 1 and not e.keywords and any(_is_builtin(mod, e.func, n) for n in ("set", "frozenset", "list", "tuple")):
        return _membership_parts(mod, e.args[0], depth - 1)
    return None


def _same_stable_value(v: _View, a: ast.AST, b: ast.AST, op: str) -> bool:
    """
    a and b (written in v's function) are two evaluations of one identity-stable expression, so that ``a is b`` (op "is") or
    ``not (a != b)`` (op "eq") certainly holds: the same singleton literal, the same module-level / parameter name that the function never
    rebinds (a sentinel ``_MISSING = object()``), the same member ``Cls.NAME`` of a class.  For "eq" the value must also be
    known to compare equal to itself with the default ``!=`` (a literal, or a name bound once at module level to ``object()`` / a literal).
    """
    a, b = strip_cast(a), strip_cast(b)
    ca, cb = const_value(a), const_value(b)
    if ca is not NOCONST or cb is not NOCONST:
        if ca is NOCONST or cb is NOCONST:
            return False
        if ca is None or ca is True or ca is False or ca is Ellipsis:
            return ca is cb
        return op == "eq" and type(ca) is type(cb) and isinstance(ca, (int, str, bytes)) and ca == cb
    repo, mod = v.ctx.repo, v.fi.module
    if isinstance(a, ast.Name) and isinstance(b, ast.Name) and a.id == b.id and not is_param(v.fi, a.id):
        ds = local_defs(v.fi, a.id)
        if len(ds) == 1 and ds[0][2] is None and isinstance(ds[0][0], ast.Assign) and enclosing_function(ds[0][0]) is v.fi.node \
                and not any(isinstance(p, (ast.For, ast.AsyncFor, ast.While)) for p in ancestors(ds[0][0])):
            # a local bound by one plain statement outside every loop (run at most once per call): one value per call
            x = strip_cast(ds[0][1])
            fresh_obj = isinstance(x, ast.Call) and isinstance(x.func, ast.Name) and x.func.id == "object" and not x.args and not x.keywords \
                and _is_builtin(mod, x.func, "object")
            return op == "is" or fresh_obj
    if isinstance(a, ast.Name) and isinstance(b, ast.Name) and a.id == b.id and not local_defs(v.fi, a.id):
        if not is_param(v.fi, a.id):
            # a module-level name: bound at most once in the whole file and never declared global / deleted (no function rebinds it)
            binds = sum(1 for x in ast.walk(mod.tree) if isinstance(x, ast.Name) and x.id == a.id and not isinstance(x.ctx, ast.Load))
            if binds > 1 or any(isinstance(x, (ast.Global, ast.Nonlocal)) and a.id in x.names for x in ast.walk(mod.tree)):
                return False
        if op == "is":
            return True
        if is_param(v.fi, a.id):
            return False
        try:
            r = repo.resolve_name(mod, a.id)
        except Exception:  # noqa: BLE001
            return False
        if isinstance(r, tuple) and len(r) == 3 and r[0] == "const":
            x = strip_cast(r[2])
            return isinstance(x, ast.Constant) and isinstance(x.value, (int, str, bytes, type(None))) \
                or isinstance(x, ast.Call) and isinstance(x.func, ast.Name) and x.func.id == "object" and not x.args and not x.keywords \
                and _is_builtin(r[1], x.func, "object")
        return False
    if op == "is" and isinstance(a, ast.Attribute) and isinstance(b, ast.Attribute) and a.attr == b.attr \
            and isinstance(a.value, ast.Name) and isinstance(b.value, ast.Name) and a.value.id == b.value.id \
            and not local_defs(v.fi, a.value.id) and not is_param(v.fi, a.value.id):
        try:
            r = repo.resolve_name(mod, a.value.id)
        except Exception:  # noqa: BLE001
            return False
        # a class-level name of a class (enum member / class constant), not a property or other descriptor defined by a def
        if type(r).__name__ != "ClassInfo" or r.lookup(a.attr) is not None or r.lookup_attr(a.attr) is None:
            return False
        x = strip_cast(r.lookup_attr(a.attr))       # a plain value, not a descriptor object
        return isinstance(x, ast.Constant) or isinstance(x, ast.Call) and isinstance(x.func, ast.Name) and x.func.id in ("object", "auto") \
            and not x.args and not x.keywords
    return False


def _get_call_of(v: _View, e: ast.AST | None) -> ast.Call | None:
    """the ``T.get(k[, d])`` call that e is (directly, as ``(x := T.get(..))``, or as a single-assignment local)"""
    e = strip_cast(e) if e is not None else None
    if isinstance(e, ast.NamedExpr):
        e = strip_cast(e.value)
    if isinstance(e, ast.Name):
        sd = single_def(v.fi, e.id)
        if sd is None or sd[1] is not None:
            return None
        e = strip_cast(sd[0])
        if isinstance(e, ast.NamedExpr):
            e = strip_cast(e.value)
    if isinstance(e, ast.Call) and isinstance(e.func, ast.Attribute) and e.func.attr == "get" and len(e.args) in (1, 2) and not e.keywords \
            and not any(isinstance(x, ast.Starred) for x in e.args):
        return e
    return None


def _present_by_get(v: _View, op: str, pos: bool, side: ast.AST, other: ast.AST | None) -> ast.Compare | None:
    """
    ``k in T`` when the fact says that a mapping lookup with a default did not give the default back: ``T.get(k, D) is not D`` /
    ``T.get(k, D) != D`` (D the same stable value twice - None, a module sentinel, an enum member), or ``T.get(k[, falsy literal])``
    is truthy.  For a missing key get() returns exactly D, so each of these tests fails then - whatever the stored entries are.
    (The converse - the default came back, hence the key is missing - would need 'no entry is D' and is not concluded.)
    """
    g = _get_call_of(v, side)
    if g is None:
        return None
    if op == "truthy":
        ok = pos and (len(g.args) == 1 or isinstance(strip_cast(g.args[1]), ast.Constant) and not strip_cast(g.args[1]).value)
    elif op in ("is", "eq") and not pos and other is not None:
        ok = _same_stable_value(v, g.args[1] if len(g.args) == 2 else ast.Constant(value=None), other, op)
    else:
        ok = False
    return ast.Compare(left=g.args[0], ops=[ast.In()], comparators=[g.func.value]) if ok else None


def _keys_base(mod, e: ast.AST | None) -> ast.AST | None:
    """X when membership in e is membership in X for a mapping X: ``X.keys()``, ``set(X)`` / ``frozenset / list / tuple / iter (X)``"""
    x, changed = (strip_cast(e) if e is not None else None), False
    for _ in range(4):
        if isinstance(x, ast.Call) and isinstance(x.func, ast.Attribute) and x.func.attr == "keys" and not x.args and not x.keywords:
            x, changed = strip_cast(x.func.value), True
        elif isinstance(x, ast.Call) and len(x.args) == 1 and not x.keywords and not isinstance(x.args[0], ast.Starred) \
                and any(_is_builtin(mod, x.func, n) for n in ("set", "frozenset", "list", "tuple", "iter")):
            x, changed = strip_cast(x.args[0]), True
        else:
            break
    return x if changed else None


def _singleton_set_membership(f) -> tuple[ast.AST, ast.AST, bool] | None:
    """
    (k, K, truth): fact f says that ``k in K`` has the given truth value, written with set algebra on the one-element display {k}:
    ``{k} <= K`` / ``K >= {k}`` / ``{k}.issubset(K)`` / ``K.issuperset({k})`` / ``{k} & K`` (truthy) are ``k in K``;
    ``K.isdisjoint({k})`` / ``{k}.isdisjoint(K)`` is ``k not in K``.
    """
    def single(x: ast.AST) -> ast.AST | None:
        x = strip_cast(x)
        return x.elts[0] if isinstance(x, ast.Set) and len(x.elts) == 1 and not isinstance(x.elts[0], ast.Starred) else None

    a = f.atom
    if f.op == "lt" and isinstance(a, ast.Compare) and len(a.ops) == 1:
        l, r = a.left, a.comparators[0]
        # fact_of spells `x <= y` as not (y < x) and `x >= y` as not (x < y): the atom itself is true iff f.pos is False
        if isinstance(a.ops[0], ast.LtE) and single(l) is not None and (f.left is r and f.right is l):
            return single(l), r, not f.pos
        if isinstance(a.ops[0], ast.GtE) and single(r) is not None and (f.left is l and f.right is r):
            return single(r), l, not f.pos
        return None
    if f.op != "truthy":
        return None
    e = strip_cast(f.left)
    if isinstance(e, ast.Call) and isinstance(e.func, ast.Attribute) and len(e.args) == 1 and not e.keywords and not isinstance(e.args[0], ast.Starred):
        recv, other, name = e.func.value, e.args[0], e.func.attr
        if name == "issubset" and single(recv) is not None:
            return single(recv), other, f.pos
        if name == "issuperset" and single(other) is not None:
            return single(other), recv, f.pos
        if name == "isdisjoint" and single(recv) is not None:
            return single(recv), other, not f.pos
        if name == "isdisjoint" and single(other) is not None:
            return single(other), recv, not f.pos
    if isinstance(e, ast.BinOp) and isinstance(e.op, ast.BitAnd):
        for x, y in ((e.left, e.right), (e.right, e.left)):
            if single(x) is not None:
                return single(x), y, f.pos
    return None


def _xfacts(v: _View, site, *, depth: int = 3, local: bool = False, extra=(), fresh: bool = False) -> list[tuple]:
    """
    Facts that hold whenever `site` is evaluated in view v, in expanded form.  Besides the dominating CFG facts: a truthy / falsy
    single-assignment local yields the atoms of its defining expression (``ok = a and b`` .. ``if not ok: return``), bool(x)
    yields x, a fact on the result of a new helper (truthy / falsy / compared with a constant tag) yields the facts common to
    all returns of the helper that are compatible with it (decision helpers), and everything that holds at the call site of a
    helper view holds inside it (unless local).
    """
    out: list[tuple] = []
    seen: set = set()

    def put(t: tuple) -> bool:
        k = _tkey(t)
        if k in seen:
            return False
        seen.add(k)
        out.append(t)
        return True

    def emit(f, d: int) -> None:
        if not put((f.op, f.pos, v.expand(f.left), v.expand(f.right) if f.right is not None else None)) or d <= 0:
            return
        sm = _singleton_set_membership(f)
        if sm is not None:
            emit(fact_of(ast.Compare(left=sm[0], ops=[ast.In()], comparators=[sm[1]]), sm[2]), d - 1)      # {k} <= K: k in K
            return
        if f.op in ("eq", "is") and f.right is not None:
            for side, other in ((f.left, f.right), (f.right, f.left)):
                k = const_value(strip_cast(other))
                b = strip_cast(side)
                if isinstance(b, ast.Name):
                    sd = single_def(v.fi, b.id)
                    b = strip_cast(sd[0]) if sd is not None and sd[1] is None else b
                if (k is True or k is False) and (isinstance(b, ast.Compare) or isinstance(b, ast.UnaryOp) and isinstance(b.op, ast.Not)
                                                  or isinstance(b, ast.Call) and isinstance(b.func, ast.Name) and b.func.id == "bool" and len(b.args) == 1):
                    inner = b.args[0] if isinstance(b, ast.Call) else b
                    for g in _atoms_with_polarity(inner, (k is True) == f.pos):
                        emit(g, d - 1)
            for side, other in ((f.left, f.right), (f.right, f.left)):
                k = const_value(strip_cast(other))
                if (k is True or k is False) and f.pos and not isinstance(const_value(strip_cast(side)), bool):
                    emit(fact_of(side, k), d - 1)        # `x is True` / `x == True` holds: x is truthy; `x is False`: x is falsy
            for side, other in ((f.left, f.right), (f.right, f.left)):
                pk = _present_by_get(v, f.op, f.pos, side, other)
                if pk is not None:
                    emit(fact_of(pk, True), d - 1)      # T.get(k, D) is not D: k is in T
            for side, other in ((f.left, f.right), (f.right, f.left)):
                hc, k = _helper_call(v, side), _cv(v, other)
                if hc is not None and k is not NOCONST:
                    if f.pos:
                        may = lambda c, k=k: c is NOCONST or (c is k if f.op == "is" or k is None or isinstance(k, bool) else c == k)   # noqa: E731
                    else:
                        may = lambda c, k=k: c is NOCONST or not (c is k if f.op == "is" or k is None or isinstance(k, bool) else c == k)   # noqa: E731
                    for t2 in _return_facts(v.helper_of(hc), d - 1, may, None, fresh):
                        put(t2)
            return
        if f.op == "in" and f.right is not None:
            kb = _keys_base(v.fi.module, f.right)
            if kb is not None:
                emit(fact_of(ast.Compare(left=f.left, ops=[ast.In()], comparators=[kb]), f.pos), d - 1)     # x in T.keys() / set(T): x in T
        if f.op == "in" and not f.pos and f.right is not None:
            # x not in chain(A, B) / A.keys() | B.keys() / {*A, *B} / ChainMap(A, B): x is in none of them
            parts = _membership_parts(v.fi.module, resolve(v.fi, f.right))
            if parts is not None:
                for x in parts:
                    emit(fact_of(ast.Compare(left=f.left, ops=[ast.In()], comparators=[x]), False), d - 1)
            return
        if f.op != "truthy":
            return
        pk = _present_by_get(v, "truthy", f.pos, f.left, None)
        if pk is not None:
            emit(fact_of(pk, True), d - 1)              # T.get(k) is truthy: k is in T
        e = strip_cast(f.left)
        if isinstance(e, ast.NamedExpr):
            e = strip_cast(e.value)
        if isinstance(e, ast.Call) and isinstance(e.func, ast.Attribute) and e.func.attr == "__contains__" and len(e.args) == 1 and not e.keywords \
                and not isinstance(e.args[0], ast.Starred):
            emit(fact_of(ast.Compare(left=e.args[0], ops=[ast.In()], comparators=[e.func.value]), f.pos), d - 1)
            return
        e = strip_cast(f.left)
        if isinstance(e, ast.Name):
            sd = single_def(v.fi, e.id)
            if sd is None or sd[1] is not None:
                return
            e = strip_cast(sd[0])
        if isinstance(e, ast.Call) and isinstance(e.func, ast.Name) and e.func.id == "bool" and len(e.args) == 1 and not e.keywords:
            e = strip_cast(e.args[0])
        if isinstance(e, ast.Call) and isinstance(e.func, ast.Name) and e.func.id in ("any", "all") and len(e.args) == 1 and not e.keywords \
                and (e.func.id == "all") == f.pos and isinstance(e.args[0], (ast.GeneratorExp, ast.ListComp)) and len(e.args[0].generators) == 1:
            # not any(P(x) for x in (a, b)) : P fails for a and for b;  all(..) : P holds for each
            g = e.args[0].generators[0]
            it = strip_cast(g.iter)
            if not g.ifs and not g.is_async and isinstance(g.target, ast.Name) and isinstance(it, (ast.Tuple, ast.List)) \
                    and not any(isinstance(x, ast.Starred) for x in it.elts):
                for x in it.elts:
                    for a in _atoms_with_polarity(_subst_name(e.args[0].elt, g.target.id, x), f.pos):
                        emit(a, d - 1)
            return
        hc = _helper_call(v, e)
        if hc is not None:
            may = (lambda c: c is NOCONST or bool(c)) if f.pos else (lambda c: c is NOCONST or not c)
            for t2 in _return_facts(v.helper_of(hc), d - 1, may, f.pos, fresh):
                put(t2)
        for g in _atoms_with_polarity(e, f.pos):
            if g.left is not f.left or g.op != "truthy":
                emit(g, d - 1)

    for f in list(_fresh_facts(v, site) if fresh else facts_at(v.cfg, site)) + list(extra):
        emit(f, depth)
    for f in _completed_loop_facts(v, site):
        emit(f, depth - 1)
    if depth > 0 and not fresh:
        nodes = [site] if not isinstance(site, ast.AST) else v.cfg.nodes_for(site)
        for c, kvs, complete in v.helper_calls():
            if not complete or len(kvs) != 1:
                continue
            kv = kvs[0]
            cn = [n for n in v.cfg.nodes_for(c) if n not in nodes]
            if cn and nodes and all(v.cfg.must_complete(n, cn) for n in nodes):
                # the helper returned normally on every path to the site: what holds at each of its normal exits holds here
                for t in _xfacts(kv, kv.cfg.exit, depth=depth - 1, local=True):
                    put(t)
    if not local and v.up is not None and not (fresh and _suspends_before(v, v.cfg.nodes_for(site) if isinstance(site, ast.AST) else [site])):
        for t in _xfacts(v.up, v.site, depth=depth, fresh=fresh, extra=v.extra):
            put(t)
    return out


def _return_facts(kv: _View, depth: int, may, truth: bool | None, fresh: bool = False) -> list[tuple]:
    """
    Facts (expanded) common to every return of the helper whose value is compatible with what the caller observed
    (may(constant value or NOCONST) -> bool); with truth = True / False the returned expression itself is known truthy / falsy.
    """
    cfg = kv.cfg
    rets = [r for r in walk_no_nested(kv.fi.node) if isinstance(r, ast.Return)]
    if may(None) and cfg.exit in cfg.reach(cut_nodes=[n for r in rets for n in cfg.nodes_for(r)]):
        return []           # falling off the end is compatible too: nothing is known
    cand = [r for r in rets if may(None if r.value is None else _cv(kv, r.value))]
    if not cand:
        return []
    per = [_xfacts(kv, r, depth=max(depth, 0), local=True, fresh=fresh,
                   extra=_atoms_with_polarity(r.value, truth) if truth is not None and r.value is not None else ()) for r in cand]
    keys = [{_tkey(t) for t in fs} for fs in per]
    return [t for t in per[0] if all(_tkey(t) in ks for ks in keys[1:])]


def _marker_locals(v: _View) -> list[str]:
    """locals with several definitions of which at least one is the plain constant None / False (outcome markers left by inlining / flags)"""
    memo = v.__dict__.get("_markers")
    if memo is None:
        memo = []
        for nm in sorted({x.id for x in ast.walk(v.fi.node) if isinstance(x, ast.Name) and isinstance(x.ctx, ast.Store)}):
            d = local_defs(v.fi, nm)
            if len(d) >= 2 and not is_param(v.fi, nm) and any(val is not None and i is None and const_value(strip_cast(val)) in (None, False)
                                                                 and isinstance(const_value(strip_cast(val)), (type(None), bool)) for _s, val, i in d):
                memo.append(nm)
        v.__dict__["_markers"] = memo
    return memo


def _feasible_reach(v: _View, name: str, *, cut_out_normal=(), cut_nodes=()) -> set:
    """
    cfg.reach() refined by the value of one marker local: a node is reached in state 'none' (the local was last assigned the
    constant None / False) or '?'; a condition outcome that contradicts the state (``x is not None`` / ``x`` truthy while x holds
    None) is not taken.  Paths that exist in the graph but that no execution can follow are dropped this way.
    """
    cfg = v.cfg
    cut_out_normal, cut_nodes = set(cut_out_normal), set(cut_nodes)

    def after(n, st: str) -> str:
        if name not in _bound_by(n):
            return st
        a = n.ast
        if n.kind == "stmt" and isinstance(a, (ast.Assign, ast.AnnAssign)) and a.value is not None:
            targets = a.targets if isinstance(a, ast.Assign) else [a.target]
            if all(isinstance(t, ast.Name) for t in targets):
                c = const_value(strip_cast(a.value))
                if c is None or c is False:
                    return "none"
        return "?"

    def contradicts(n, lab, st: str) -> bool:
        if st == "?" or n.kind != "cond" or lab not in (True, False) or n.ast is None:
            return False
        f = fact_of(n.ast, lab)
        l = strip_cast(f.left)
        if not (isinstance(l, ast.Name) and l.id == name):
            return False
        if f.op == "truthy":
            return st == "none" and f.pos
        if f.op in ("is", "eq") and f.right is not None and const_value(strip_cast(f.right)) in (None, False) \
                and isinstance(const_value(strip_cast(f.right)), (type(None), bool)):
            return st == "none" and not f.pos       # `x is not None` cannot hold while x is None; ('real' may still be False / None: no cut)
        return False

    seen: set = set()
    todo = [(cfg.entry, "?")] if cfg.entry not in cut_nodes else []
    while todo:
        n, st = todo.pop()
        if (n, st) in seen:
            continue
        seen.add((n, st))
        out = after(n, st)
        for w, lab in n.succ:
            if w in cut_nodes or (n in cut_out_normal and lab != "exc") or contradicts(n, lab, st):
                continue
            todo.append((w, st if lab == "exc" else out))
    return {n for n, _st in seen}


def _always(v: _View, nodes: list, event, *, local: bool = False, depth: int = 3) -> bool:
    """
    Every path to `nodes` (CFG nodes of view v) - from the entry of the outermost function unless local - has completed one of
    the statements event(view) normally.  A call of a new helper counts when each of its normal exits has completed one, or
    when the exits that have not return None / False (possibly as a component of a tuple / record) and a fact dominating the
    nodes excludes that constant (decision helpers); a helper view inherits what holds at its call site.
    """
    if not nodes:
        return False
    cfg = v.cfg
    through = [n for a in event(v) for n in cfg.nodes_for(a)]
    conditional = []
    if depth > 0:
        for c, kvs, complete in v.helper_calls():
            if not complete or not kvs or not all(any(event(w) for w in kv.closure()) for kv in kvs):
                continue
            if all(_always(kv, [kv.cfg.exit], event, local=True, depth=depth - 1) for kv in kvs):
                through += cfg.nodes_for(c)
            elif len(kvs) == 1:
                consts = _unverified_return_consts(kvs[0], lambda w, ns: _always(w, ns, event, local=True, depth=depth - 1))
                if consts:
                    conditional.append((c, consts))
    # a node that evaluates the event itself (``return pop(..)``, ``x.keys = f(verify(..))``) acts after the event completed
    def done(n, thr: list) -> bool:
        if n in thr or cfg.must_complete(n, thr):
            return True
        # paths around the event may be infeasible: they set a marker local to None / False that a later test excludes
        return any(n not in _feasible_reach(v, nm, cut_out_normal=[t for t in thr if t is not n]) for nm in _marker_locals(v))

    if all(done(n, through) for n in nodes):
        return True
    for c, consts in conditional:
        cn = cfg.nodes_for(c)
        if all(cfg.must_complete(n, through + cn) for n in nodes) and all(_result_excludes(v, c, consts, n) for n in nodes):
            return True
    if not local and v.up is not None:
        return _always(v.up, v.up.cfg.nodes_for(v.site), event, depth=depth)
    return False


_HOP_WRITERS = ("send_initial_create", "send_extend", "_ours_on_created_extended")


def _is_pending_hop(ctx: Ctx, fi: FuncInfo, e: ast.AST | None, site: ast.AST) -> bool:
    """
    Does `e`, evaluated at `site`, denote the Hop object that `circuit.unverified_hop` holds there?
    Accepted: the attribute read itself, or a local N with exactly one definition such that every store to
    circuit.unverified_hop in this function stores N (``circuit.unverified_hop = N`` or the chained form
    ``circuit.unverified_hop = N = Hop(..)``), such a store has completed on every path to `site` (CFG), and no function
    that rewrites unverified_hop is called from here.  Then N and the attribute are the same object at `site`.
    """
    if e is None:
        return False
    e = strip_cast(e)
    if norm(e) == "circuit.unverified_hop":
        return is_param(fi, "circuit") and not local_defs(fi, "circuit")
    if not isinstance(e, ast.Name) or is_param(fi, e.id):
        return False
    d = local_defs(fi, e.id)
    if len(d) != 1 or d[0][1] is None or d[0][2] is not None:
        return False
    sts = [st for st, t in stores(fi, "circuit.unverified_hop")]
    if not sts or not is_param(fi, "circuit") or local_defs(fi, "circuit"):
        return False
    for st in sts:
        if not isinstance(st, (ast.Assign, ast.AnnAssign)):
            return False
        same_stmt = st is d[0][0]
        v = strip_cast(st.value) if st.value is not None else None
        if not (same_stmt or (isinstance(v, ast.Name) and v.id == e.id)):
            return False
    if any(call_name(c) in _HOP_WRITERS for c in calls(fi)):
        return False
    cfg = _cfg_of(ctx, fi)
    through = [n for st in sts for n in cfg.nodes_for(st)]
    nodes = cfg.nodes_for(site)
    return bool(nodes) and all(cfg.must_complete(n, through) for n in nodes)


def _retry_cache_call(v: "_View", c: ast.AST | None, name: str) -> bool:
    """c is ``self.request_cache.<name>(RetryRequestCache, circuit.circuit_id)`` in the terms of the outermost function"""
    c = strip_cast(c) if c is not None else None
    return isinstance(c, ast.Call) and isinstance(_callee(c), ast.Attribute) and _callee(c).attr == name and v.xn(_callee(c).value) == "self.request_cache" \
        and len(c.args) + len(c.keywords) == 2 and chain(arg(c, 0, "prefix")) == "RetryRequestCache" and v.xn(arg(c, 1, "number")) == "circuit.circuit_id"


def _no_retry_cache_edge(v: "_View", u, lab) -> bool:
    """the outcome `lab` of condition node u says that no RetryRequestCache is registered for the circuit (there is nothing to pop)"""
    if u.kind != "cond" or lab not in (True, False) or u.ast is None:
        return False
    f = fact_of(u.ast, lab)
    left = resolve(v.fi, f.left) if isinstance(strip_cast(f.left), ast.Name) else strip_cast(f.left)
    if f.op == "truthy":
        return not f.pos and (_retry_cache_call(v, left, "has") or _retry_cache_call(v, left, "get"))
    if f.op in ("is", "eq") and f.right is not None:
        k = const_value(strip_cast(f.right))
        if k is None:
            return f.pos and _retry_cache_call(v, left, "get")
        if k is True or k is False:
            return (k is False) == f.pos and _retry_cache_call(v, left, "has")
    return False


def _old_retry_cache_dropped(v: "_View", nodes: list, *, local: bool = False, depth: int = 3) -> bool:
    """
    On every path to `nodes` the RetryRequestCache of an earlier attempt is gone: ``request_cache.pop(RetryRequestCache,
    circuit.circuit_id)`` was executed (it removes the entry, or raises KeyError because there is none - the path through
    an ``except KeyError`` handler is as good as the false edge of ``has``), or a test said that there is none; a call of a new
    helper counts when each of its normal exits has that property.
    """
    cfg = v.cfg
    attempted, completed = [], []
    for p in calls(v.fi):
        if _retry_cache_call(v, p, "pop"):
            st = enclosing_stmt(p)
            val = strip_cast(st.value) if isinstance(st, (ast.Expr, ast.Assign, ast.AnnAssign)) and getattr(st, "value", None) is not None else None
            (attempted if val is p else completed).extend(cfg.nodes_for(p))
    if depth > 0:
        for c, kvs, complete in v.helper_calls():
            if complete and kvs and all(_old_retry_cache_dropped(kv, [kv.cfg.exit], local=True, depth=depth - 1) for kv in kvs):
                completed += cfg.nodes_for(c)
    r = cfg.reach(cut_nodes=[n for n in attempted if n not in nodes], cut_out_normal=[n for n in completed if n not in nodes],
                  cut_edge=lambda u, w, lab: _no_retry_cache_edge(v, u, lab))
    if nodes and all(n not in r for n in nodes):
        return True
    if not local and v.up is not None:
        return _old_retry_cache_dropped(v.up, v.up.cfg.nodes_for(v.site), depth=depth)
    return False


def _old_retry_cache_dropped_before(ctx: Ctx, fi: FuncInfo, site: ast.AST) -> bool:
    v = _body_view(ctx, fi)
    return _old_retry_cache_dropped(v, v.cfg.nodes_for(site))


def _flatten_ifexp(e: ast.AST) -> list[ast.AST]:
    e = strip_cast(e)
    if isinstance(e, ast.IfExp):
        return _flatten_ifexp(e.body) + _flatten_ifexp(e.orelse)
    if isinstance(e, ast.BoolOp) and isinstance(e.op, ast.Or):
        return [x for v in e.values for x in _flatten_ifexp(v)]      # `key or self.key` evaluates to one of its operands
    if isinstance(e, ast.Call) and isinstance(e.func, ast.Name) and e.func.id == "next" and len(e.args) in (1, 2) and not e.keywords:
        # next(filter(None, (a, b)), None) / next((k for k in (a, b) if k is not None), None): one of the elements (or the None default)
        src = strip_cast(e.args[0])
        if isinstance(src, ast.Call) and isinstance(src.func, ast.Name) and src.func.id == "iter" and len(src.args) == 1 and not src.keywords:
            src = strip_cast(src.args[0])
        its = None
        if isinstance(src, ast.Call) and isinstance(src.func, ast.Name) and src.func.id == "filter" and len(src.args) == 2 and not src.keywords:
            its = _seq_items(src.args[1])
        elif isinstance(src, ast.GeneratorExp) and len(src.generators) == 1 and isinstance(src.generators[0].target, ast.Name) \
                and isinstance(src.elt, ast.Name) and src.elt.id == src.generators[0].target.id and not src.generators[0].is_async:
            its = _seq_items(src.generators[0].iter)       # a filtered selection of the elements themselves
        else:
            its = _seq_items(src)
        if its and (len(e.args) == 1 or const_value(strip_cast(e.args[1])) is None):
            return [x for v in its for x in _flatten_ifexp(v)]
    return [e]


def _is_responder_static_key(fi: FuncInfo, e: ast.AST, param: str, depth: int = 3) -> bool:
    """
    `e` can only evaluate to the caller-supplied static key parameter or to self.key (the community's own static key):
    the parameter itself (rebound, if at all, only to self.key), or a local all of whose reaching definitions are such values
    (also through conditional expressions).
    """
    alts = _flatten_ifexp(e)
    if len(alts) > 1:
        return all(_is_responder_static_key(fi, x, param, depth) for x in alts)
    e = alts[0]
    if norm(e) == "self.key":
        return True
    if not isinstance(e, ast.Name) or depth <= 0:
        return False
    defs = local_defs(fi, e.id)
    if e.id == param:
        return all(v is not None and i is None and all(norm(x) == "self.key" or (isinstance(x, ast.Name) and x.id == param)
                                                         for x in _flatten_ifexp(v)) for _, v, i in defs)
    if is_param(fi, e.id) or not defs:
        return False
    return all(v is not None and i is None and all(_is_responder_static_key(fi, x, param, depth - 1) for x in _flatten_ifexp(v))
               for _, v, i in defs)


def _subst_name(e: ast.AST, name: str, by: ast.AST) -> ast.AST:
    """copy of e with every load of `name` replaced by `by`"""
    if isinstance(e, ast.Name):
        return clone(by) if e.id == name and isinstance(e.ctx, ast.Load) else clone(e)
    if not isinstance(e, ast.AST):
        return e
    new = type(e)()
    for f in e._fields:
        if hasattr(e, f):
            v = getattr(e, f)
            setattr(new, f, [_subst_name(x, name, by) for x in v] if isinstance(v, list) else _subst_name(v, name, by))
    return new


def _imported_as(mod, f: ast.AST, module: str, names: tuple[str, ...]) -> bool:
    """f denotes <module>.<one of names>: spelled `module.name`, or a bare / aliased name imported from that module"""
    f = strip_cast(f)
    imports = getattr(mod, "imports", {}) if mod is not None else {}
    if isinstance(f, ast.Attribute) and isinstance(f.value, ast.Name) and f.attr in names:
        return imports.get(f.value.id, (f.value.id, None)) == (module, None) if mod is not None else f.value.id == module
    if isinstance(f, ast.Name):
        imp = imports.get(f.id)
        if imp is not None:
            return imp[0] == module and imp[1] in names
        return mod is None and f.id in names
    return False


def _is_builtin(mod, f: ast.AST, name: str) -> bool:
    return isinstance(f, ast.Name) and f.id == name and (mod is None or name not in getattr(mod, "imports", {}))


def _partial_applied(mod, pc: ast.AST, c: ast.Call, share: bool = False) -> ast.Call | None:
    """
    ``f(a.., x.., k=.., m=..)`` for ``partial(f, a.., k=..)(x.., m=..)``: pc is the partial(...) call, c the call of its result. None if pc is not
    an evident functools.partial call, or either call spreads ``*seq`` / ``**map``. share: reuse the argument nodes (they keep their place in the function).
    """
    pc = strip_cast(pc)
    if not (isinstance(pc, ast.Call) and pc.args and (_imported_as(mod, pc.func, "functools", ("partial",)) or chain(pc.func) == "functools.partial")):
        return None
    if any(isinstance(a, ast.Starred) for a in list(pc.args) + list(c.args)) or any(k.arg is None for k in list(pc.keywords) + list(c.keywords)):
        return None
    cp = (lambda n: n) if share else clone
    later = {k.arg for k in c.keywords}
    return ast.Call(func=cp(pc.args[0]), args=[cp(a) for a in pc.args[1:]] + [cp(a) for a in c.args],
                    keywords=[cp(k) for k in pc.keywords if k.arg not in later] + [cp(k) for k in c.keywords])


def _apply_callable(mod, f: ast.AST, x: ast.AST) -> ast.AST:
    """The expression ``f(x)`` with f spelled out where it is a lambda / partial / methodcaller / attrgetter / itemgetter."""
    f = strip_cast(f)
    if isinstance(f, ast.Lambda) and len(f.args.args) == 1 and not (f.args.posonlyargs or f.args.kwonlyargs or f.args.vararg or f.args.kwarg or f.args.defaults):
        return _subst_name(f.body, f.args.args[0].arg, x)
    if isinstance(f, ast.Call) and not any(isinstance(a, ast.Starred) for a in f.args) and not any(k.arg is None for k in f.keywords):
        if _imported_as(mod, f.func, "operator", ("methodcaller",)) and f.args and isinstance(const_value(f.args[0]), str):
            return ast.Call(func=ast.Attribute(value=clone(x), attr=const_value(f.args[0]), ctx=ast.Load()),
                            args=[clone(a) for a in f.args[1:]], keywords=[clone(k) for k in f.keywords])
        if _imported_as(mod, f.func, "functools", ("partial",)) and f.args:
            return ast.Call(func=clone(f.args[0]), args=[clone(a) for a in f.args[1:]] + [clone(x)], keywords=[clone(k) for k in f.keywords])
        if _imported_as(mod, f.func, "operator", ("attrgetter",)) and f.args and not f.keywords \
                and all(isinstance(const_value(a), str) and const_value(a).isidentifier() for a in f.args):
            parts = [ast.Attribute(value=clone(x), attr=const_value(a), ctx=ast.Load()) for a in f.args]
            return parts[0] if len(parts) == 1 else ast.Tuple(elts=parts, ctx=ast.Load())
        if _imported_as(mod, f.func, "operator", ("itemgetter",)) and f.args and not f.keywords:
            parts = [ast.Subscript(value=clone(x), slice=clone(a), ctx=ast.Load()) for a in f.args]
            return parts[0] if len(parts) == 1 else ast.Tuple(elts=parts, ctx=ast.Load())
    return ast.Call(func=clone(f), args=[clone(x)], keywords=[])


def _seq_items(e: ast.AST, mod=None, depth: int = 6) -> list[ast.AST] | None:
    """
    The elements, in order, of an expression that denotes a finite sequence / iterable whose length is evident: a tuple / list
    display (also with starred parts), a comprehension or map() over one, list / tuple / iter / sorted-free wrappers,
    itertools.chain, ``seq + seq``.  None: not evident.
    """
    e = strip_cast(e)
    if depth <= 0:
        return None
    if isinstance(e, (ast.Tuple, ast.List)):
        out = []
        for x in e.elts:
            if isinstance(x, ast.Starred):
                sub = _seq_items(x.value, mod, depth - 1)
                if sub is None:
                    return None
                out += sub
            else:
                out.append(x)
        return out
    if isinstance(e, (ast.GeneratorExp, ast.ListComp)) and len(e.generators) == 1:
        g = e.generators[0]
        its = _seq_items(g.iter, mod, depth - 1)
        if its is not None and not g.ifs and not g.is_async and isinstance(g.target, ast.Name):
            return [_subst_name(e.elt, g.target.id, x) for x in its]
        return None
    if isinstance(e, ast.BinOp) and isinstance(e.op, ast.Add):
        a, b = _seq_items(e.left, mod, depth - 1), _seq_items(e.right, mod, depth - 1)
        return a + b if a is not None and b is not None else None
    if isinstance(e, ast.Call) and not e.keywords and not any(isinstance(a, ast.Starred) for a in e.args):
        f = e.func
        if len(e.args) == 1 and any(_is_builtin(mod, f, n) for n in ("list", "tuple", "iter")):
            return _seq_items(e.args[0], mod, depth - 1)
        if len(e.args) == 1 and _is_builtin(mod, f, "reversed"):
            its = _seq_items(e.args[0], mod, depth - 1)
            return its[::-1] if its is not None else None
        if len(e.args) == 2 and _is_builtin(mod, f, "map"):
            its = _seq_items(e.args[1], mod, depth - 1)
            return [_apply_callable(mod, e.args[0], x) for x in its] if its is not None else None
        if _imported_as(mod, f, "itertools", ("chain",)):
            out = []
            for a in e.args:
                sub = _seq_items(a, mod, depth - 1)
                if sub is None:
                    return None
                out += sub
            return out
        if isinstance(f, ast.Attribute) and f.attr == "from_iterable" and _imported_as(mod, f.value, "itertools", ("chain",)) and len(e.args) == 1:
            outer = _seq_items(e.args[0], mod, depth - 1)
            if outer is None:
                return None
            out = []
            for a in outer:
                sub = _seq_items(a, mod, depth - 1)
                if sub is None:
                    return None
                out += sub
            return out
    return None


def _is_empty_bytes(e: ast.AST) -> bool:
    e = strip_cast(e)
    return const_value(e) == b"" and isinstance(const_value(e), bytes) \
        or isinstance(e, ast.Call) and isinstance(e.func, ast.Name) and e.func.id == "bytes" and not e.args and not e.keywords


def _is_concat_fn(mod, f: ast.AST) -> bool:
    """f is a two-argument function that returns ``a + b``: operator.add / operator.concat / ``lambda a, b: a + b``"""
    f = strip_cast(f)
    if _imported_as(mod, f, "operator", ("add", "concat", "__add__", "__concat__")):
        return True
    if isinstance(f, ast.Lambda) and len(f.args.args) == 2 and not (f.args.posonlyargs or f.args.kwonlyargs or f.args.vararg or f.args.kwarg or f.args.defaults):
        a, b = (x.arg for x in f.args.args)
        body = strip_cast(f.body)
        return isinstance(body, ast.BinOp) and isinstance(body.op, ast.Add) and isinstance(body.left, ast.Name) and body.left.id == a \
            and isinstance(body.right, ast.Name) and body.right.id == b
    return False


def _concat_parts(e: ast.AST, mod=None) -> list[ast.AST]:
    """
    Operands of a bytes concatenation in order.  The same value is computed by ``a + b``, ``b"".join(<a, b>)`` (any evident
    sequence: display, comprehension, map(), chain()), ``bytes.join(b"", ..)``, ``operator.add(a, b)`` / ``operator.concat``,
    ``functools.reduce(operator.add, <a, b>[, b""])`` and ``b"%b%b" % (a, b)``.
    """
    e = strip_cast(e)
    if isinstance(e, ast.BinOp) and isinstance(e.op, ast.Add):
        return _concat_parts(e.left, mod) + _concat_parts(e.right, mod)
    if isinstance(e, ast.BinOp) and isinstance(e.op, ast.Mod) and isinstance(const_value(e.left), bytes):
        fmt = const_value(e.left)
        its = _seq_items(e.right, mod) if isinstance(strip_cast(e.right), ast.Tuple) else None
        if its is not None and fmt in (b"%b" * len(its), b"%s" * len(its)) and its:
            return [p for x in its for p in _concat_parts(x, mod)]
    if isinstance(e, ast.Call) and not e.keywords and not any(isinstance(a, ast.Starred) for a in e.args):
        seq = None
        if isinstance(e.func, ast.Attribute) and e.func.attr == "join" and len(e.args) == 1 and _is_empty_bytes(e.func.value):
            seq = e.args[0]
        elif isinstance(e.func, ast.Attribute) and e.func.attr == "join" and len(e.args) == 2 and isinstance(e.func.value, ast.Name) \
                and e.func.value.id == "bytes" and _is_empty_bytes(e.args[0]):
            seq = e.args[1]
        if seq is not None:
            its = _seq_items(seq, mod)
            if its is not None:
                return [p for x in its for p in _concat_parts(x, mod)]
        if len(e.args) == 2 and _is_concat_fn(mod, e.func):
            return _concat_parts(e.args[0], mod) + _concat_parts(e.args[1], mod)
        if len(e.args) in (2, 3) and _imported_as(mod, e.func, "functools", ("reduce",)) and _is_concat_fn(mod, e.args[0]):
            its = _seq_items(e.args[1], mod)
            if its is not None and (its or len(e.args) == 3):
                first = [] if len(e.args) == 2 or _is_empty_bytes(e.args[2]) else _concat_parts(e.args[2], mod)
                return first + [p for x in its for p in _concat_parts(x, mod)]
    return [e]


def _slice_bounds(s: ast.AST, mod=None, repo=None, depth: int = 2):
    """(lower, upper, step) expressions of a slice spelled ``a:b:c`` or ``slice(..)`` (also held in a module constant)"""
    s = strip_cast(s)
    if isinstance(s, ast.Slice):
        return s.lower, s.upper, s.step
    if isinstance(s, ast.Call) and isinstance(s.func, ast.Name) and s.func.id == "slice" and not s.keywords and 1 <= len(s.args) <= 3 \
            and not any(isinstance(a, ast.Starred) for a in s.args):
        a = list(s.args)
        return (None, a[0], None) if len(a) == 1 else (a[0], a[1], a[2] if len(a) == 3 else None)
    if isinstance(s, ast.Name) and repo is not None and mod is not None and depth > 0:
        try:
            r = repo.resolve_name(mod, s.id)
        except Exception:  # noqa: BLE001
            r = None
        if isinstance(r, tuple) and len(r) == 3 and r[0] == "const":
            return _slice_bounds(r[2], r[1], repo, depth - 1)
    return None


def _prefix32(e: ast.AST, mod=None, repo=None) -> ast.AST | None:
    """X if e is the first 32 bytes of X: X[:32], X[0:32], X[slice(32)], operator.itemgetter(slice(0, 32))(X); else None."""
    e = strip_cast(e)
    if isinstance(e, ast.Call) and len(e.args) == 1 and not e.keywords and isinstance(e.func, ast.Call) \
            and _imported_as(mod, e.func.func, "operator", ("itemgetter",)) and len(e.func.args) == 1 and not e.func.keywords:
        e = ast.Subscript(value=e.args[0], slice=e.func.args[0], ctx=ast.Load())
    if isinstance(e, ast.Call) and len(e.args) == 2 and not e.keywords and _imported_as(mod, e.func, "operator", ("getitem",)):
        e = ast.Subscript(value=e.args[0], slice=e.args[1], ctx=ast.Load())
    if isinstance(e, ast.Subscript):
        b = _slice_bounds(e.slice, mod, repo)
        if b is not None:
            lo, up, step = b
            none = lambda x: x is None or const_value(x) is None      # noqa: E731
            if (none(lo) or const_value(lo) == 0 and const_value(lo) is not False) and up is not None and const_value(up) == 32 \
                    and const_value(up) is not True and (none(step) or const_value(step) == 1):
                return e.value
    return None


def _is_randbelow(fi: FuncInfo, c: ast.AST) -> bool:
    if not isinstance(c, ast.Call) or len(c.args) != 1 or c.keywords:
        return False
    if chain(c.func) == "secrets.randbelow":
        return fi.module.imports.get("secrets", ("secrets", None))[0] == "secrets"
    return isinstance(c.func, ast.Name) and fi.module.imports.get(c.func.id) == ("secrets", "randbelow")


def _is_random_16_bit(repo, fi: FuncInfo, c: ast.AST) -> bool:
    """c draws a uniform value from [0, 2**16) from the secrets module: randbelow(65536) or randbits(16)"""
    if _is_randbelow(fi, c):
        return repo.resolve_const(fi.module, c.args[0]) == 65536 or _fold_int(repo, fi.module, c.args[0]) == 65536
    return isinstance(c, ast.Call) and len(c.args) == 1 and not c.keywords and _imported_as(fi.module, c.func, "secrets", ("randbits",)) \
        and _fold_int(repo, fi.module, c.args[0]) == 16


def _fold_int(repo, mod, e: ast.AST, depth: int = 4):
    """integer value of a constant expression (+ - * ** << and module constants); None if unknown"""
    e = strip_cast(e)
    c = const_value(e)
    if isinstance(c, int) and not isinstance(c, bool):
        return c
    if depth <= 0:
        return None
    if isinstance(e, ast.BinOp):
        a, b = _fold_int(repo, mod, e.left, depth - 1), _fold_int(repo, mod, e.right, depth - 1)
        if a is None or b is None:
            return None
        if isinstance(e.op, ast.Add):
            return a + b
        if isinstance(e.op, ast.Sub):
            return a - b
        if isinstance(e.op, ast.Mult):
            return a * b
        if isinstance(e.op, ast.Pow) and 0 <= b <= 64:
            return a ** b
        if isinstance(e.op, ast.LShift) and 0 <= b <= 64:
            return a << b
        return None
    if isinstance(e, ast.Name):
        try:
            r = repo.resolve_name(mod, e.id)
        except Exception:  # noqa: BLE001
            return None
        if isinstance(r, tuple) and len(r) == 3 and r[0] == "const":
            return _fold_int(repo, r[1], r[2], depth - 1)
    try:
        c = repo.resolve_const(mod, e)
    except Exception:  # noqa: BLE001
        return None
    return c if isinstance(c, int) and not isinstance(c, bool) else None


# ------------------------------------------------------------------------------------ the answer handlers and what they accept
def _ours(ctx: Ctx) -> FuncInfo:
    return ctx.repo.method("TunnelCommunity", "_ours_on_created_extended", TC)


_ANSWER_HANDLERS = ("TunnelCommunity.on_created", "TunnelCommunity.on_extended")


def _acceptances(ctx: Ctx) -> list[tuple[_View, ast.Call, _View | None, list]]:
    """
    (view containing the call, call of _ours_on_created_extended, view of _ours_on_created_extended bound to that call) for
    every call site in an answer handler or in a new helper only the answer handlers reach (analysed in the handler's context).
    """
    cached = getattr(ctx, "_c08_acceptances", None)
    if cached is None:
        cached = []
        refs: set = set()
        ctx._c08_accept_refs = refs
        ours = _ours(ctx)
        for q in _ANSWER_HANDLERS:
            r = _entry(ctx, ctx.repo.method("TunnelCommunity", q.split(".")[1], TC))
            for v in r.closure():
                for c in calls(v.fi):
                    for k, ref, facts in v.call_targets(c):
                        if k == ours:
                            w = v.bind_call(ours, c, ref)
                            if w is not None:
                                w.extra = list(facts)
                            cached.append((v, c, w, list(facts)))
                            refs.add(id(ref))
        ctx._c08_acceptances = cached
    return cached


def _handler_members(ctx: Ctx) -> set[FuncInfo]:
    """the answer handlers and the new helpers that only they (transitively) call"""
    views = [v for q in _ANSWER_HANDLERS for v in _entry(ctx, ctx.repo.method("TunnelCommunity", q.split(".")[1], TC)).closure()]
    members = _closure_functions(views)
    changed = True
    while changed:
        changed = False
        for f in list(members):
            if f.qualname not in _ANSWER_HANDLERS and any(g is None or g not in members for _, g, _c in ctx.repo.callers_of_name(f.name)):
                members.discard(f)
                changed = True
    return members


def _root(v: _View) -> _View:
    while v.up is not None:
        v = v.up
    return v


def _payload_intact(root: _View, payload: str) -> bool:
    """
    the name `payload` denotes the handler's payload argument throughout the root function: it is a parameter that is never rebound,
    or - in a decorator wrapper that takes *args - the one local that is defined once as that positional argument
    """
    defs = local_defs(root.fi, payload)
    if not defs:
        return True
    a = root.fi.node.args
    if root.wrapped is None or not a.vararg or is_param(root.fi, payload) or len(defs) != 1:
        return False
    x = root.expand(ast.Name(id=payload, ctx=ast.Load()))
    return isinstance(x, ast.Name) and x.id == payload


def _circuit_terms(r: _View) -> tuple[str, str, str]:
    """(payload parameter of the handler, the circuit the answer is for, its pending hop) in the handler's terms"""
    p = _entry_params(_root(r))[2]
    return p, f"self.circuits[{p}.circuit_id]", f"self.circuits[{p}.circuit_id].unverified_hop"


def _accept_sites(views: list[_View]) -> list[tuple[_View, ast.AST, str]]:
    out = []
    for v in views:
        for st, t in stores(v.fi, lambda c: c.endswith(".keys")):
            out.append((v, st, "keys"))
        for st, t in stores(v.fi, lambda c: c.endswith(".unverified_hop")):
            out.append((v, st, "pending"))
        out += [(v, c, "add_hop") for c in calls(v.fi) if call_name(c) == "add_hop"]
    return out


def _stored_value(st: ast.stmt, target: ast.AST) -> ast.AST | None:
    """the expression stored into `target` by assignment st (element-wise for ``a, b = x, y``); None if not evident"""
    if isinstance(st, ast.AnnAssign):
        return st.value if st.target is target else None
    if not isinstance(st, ast.Assign):
        return None
    for t in st.targets:
        if t is target:
            return st.value
        if isinstance(t, (ast.Tuple, ast.List)) and any(x is target for x in t.elts):
            val = strip_cast(st.value)
            if isinstance(val, (ast.Tuple, ast.List)) and len(val.elts) == len(t.elts) and not any(isinstance(x, ast.Starred) for x in list(val.elts) + list(t.elts)):
                return val.elts[[x is target for x in t.elts].index(True)]
            return None
    return None


def _store_target(st: ast.stmt, suffix: str) -> ast.AST | None:
    ts = st.targets if isinstance(st, (ast.Assign, ast.Delete)) else [st.target]
    for t in ts:
        for e in (t.elts if isinstance(t, (ast.Tuple, ast.List)) else [t]):
            if isinstance(e, ast.Attribute) and e.attr == suffix:
                return e
    return None


def _ret_elts(kv: _View, val: ast.AST | None) -> tuple[list[ast.AST], list[str] | None] | None:
    """(elements, field names or None) of a returned tuple display / NamedTuple / dataclass construction; None if `val` is neither"""
    val = strip_cast(val) if val is not None else None
    if isinstance(val, ast.Tuple):
        return (list(val.elts), None) if not any(isinstance(x, ast.Starred) for x in val.elts) else None
    if isinstance(val, ast.Call) and isinstance(val.func, ast.Name):
        try:
            cls = kv.ctx.repo.resolve_name(kv.fi.module, val.func.id)
        except Exception:  # noqa: BLE001
            return None
        fields = _record_fields(cls) if hasattr(cls, "methods") and isinstance(getattr(cls, "node", None), ast.ClassDef) else None
        if fields:
            elts = [_project(kv, val, f) for f in fields]
            if all(x is not None for x in elts):
                return elts, fields
    return None


def _component(v: _View, e: ast.AST | None) -> tuple[ast.Call, object] | None:
    """
    (call, key) if e denotes the result of a call (key None) or one component of it: a tuple-unpacking target (key = index),
    ``r[i]`` (index) or ``r.field`` (name) of a single-assignment local r bound to the call.
    """
    if e is None:
        return None
    key = None
    for _ in range(8):
        e = strip_cast(e)
        if isinstance(e, ast.Await):
            e = e.value
        elif key is None and isinstance(e, ast.Attribute) and isinstance(strip_cast(e.value), (ast.Name, ast.Call)):
            key, e = e.attr, e.value
        elif key is None and isinstance(e, ast.Subscript) and isinstance(const_value(e.slice), int) and not isinstance(const_value(e.slice), bool) \
                and isinstance(strip_cast(e.value), (ast.Name, ast.Call)):
            key, e = const_value(e.slice), e.value
        elif isinstance(e, ast.Name) and not is_param(v.fi, e.id):
            d = local_defs(v.fi, e.id)
            if len(d) != 1 or d[0][1] is None:
                return None
            val, idx = strip_cast(d[0][1]), d[0][2]
            if idx is None:
                e = val
            elif isinstance(val, (ast.Tuple, ast.List)) and idx < len(val.elts) and not any(isinstance(x, ast.Starred) for x in val.elts):
                e = val.elts[idx]           # `a, b = (x, y)`
            elif key is None:
                key, e = idx, val
            else:
                return None
        else:
            break
    return (e, key) if isinstance(e, ast.Call) else None


def _unverified_return_consts(kv: _View, verified_local) -> dict | None:
    """
    For a helper some of whose normal exits are not preceded by a successful verification: which constants mark those exits.
    {None: consts} for the whole return value, {i: consts} for element i of returned tuple displays; None if the helper has no
    verified exit or an unverified exit returns something else than None / False (the caller cannot tell the outcomes apart).
    """
    cfg = kv.cfg
    rets = [r for r in walk_no_nested(kv.fi.node) if isinstance(r, ast.Return)]
    bad = [r for r in rets if not verified_local(kv, cfg.nodes_for(r))]
    if len(bad) == len(rets):
        return None
    falls_off = cfg.exit in cfg.reach(cut_nodes=[n for r in rets for n in cfg.nodes_for(r)])
    whole: set = {None} if falls_off else set()
    whole_ok = True
    tuples = []
    for r in bad:
        val = strip_cast(r.value) if r.value is not None else None
        te = _ret_elts(kv, val)
        if val is None:
            whole.add(None)
        elif te is not None:
            tuples.append(te)
            whole_ok = False
        elif const_value(val) is None or const_value(val) is False:
            whole.add(const_value(val))
        else:
            whole_ok = False
    out: dict = {}
    if whole_ok and whole:
        out[None] = whole
    if tuples and len(tuples) == len(bad) and not falls_off and len({len(t[0]) for t in tuples}) == 1 and len({tuple(t[1] or ()) for t in tuples}) == 1:
        for i in range(len(tuples[0][0])):
            cs = {const_value(strip_cast(t[0][i])) for t in tuples}
            if all(c is None or c is False for c in cs):
                out[i] = cs
                if tuples[0][1]:
                    out[tuples[0][1][i]] = cs
    return out or None


def _deferred_call(v: _View, c: ast.Call) -> ast.Call | None:
    """
    ``loop.run_in_executor(executor, f, *args)`` / ``asyncio.to_thread(f, *args)`` / ``partial(f, *args)`` run (or stand for)
    ``f(*args)``: that call, built from the original argument nodes and hung below c so that it has c's place in the CFG.
    """
    f = strip_cast(c.func)
    name = f.attr if isinstance(f, ast.Attribute) else f.id if isinstance(f, ast.Name) else None
    skip = {"run_in_executor": 1, "to_thread": 0, "partial": 0}.get(name)
    if skip is None or c.keywords and name != "partial" or len(c.args) <= skip or any(isinstance(a, ast.Starred) for a in c.args):
        return None
    ref = strip_cast(c.args[skip])
    if isinstance(ref, ast.Call):
        inner = _deferred_call(v, ref)          # run_in_executor(None, partial(f, a, b))
        return inner if inner is not None and len(c.args) == skip + 1 else None
    if not isinstance(ref, (ast.Attribute, ast.Name)):
        return None
    syn = ast.Call(func=ref, args=list(c.args[skip + 1:]), keywords=list(c.keywords) if name == "partial" else [])
    ast.copy_location(syn, c)
    syn._parent = c
    return syn


def _verify_calls(v: _View) -> list[ast.Call]:
    """calls of verify_and_generate_shared_secret in view v, also when handed to an executor / thread / partial with their arguments"""
    cached = v.__dict__.get("_verify_calls")
    if cached is None:
        cached = [c for c in calls(v.fi) if call_name(c) == VERIFY]
        prebound: dict = {}      # id(partial(..) call) -> the calls ``n(..)`` of the single-assignment local n it was bound to
        for c in calls(v.fi):
            f = strip_cast(c.func)
            sd = single_def(v.fi, f.id) if isinstance(f, ast.Name) else None
            if sd is not None and sd[1] is None and isinstance(strip_cast(sd[0]), ast.Call):
                prebound.setdefault(id(strip_cast(sd[0])), []).append(c)
        for c in calls(v.fi):
            if id(c) in prebound:
                # ``verify = partial(f, a)`` ... ``verify(b, c)``: f runs where the local is called, with the arguments of both places
                for use in prebound[id(c)]:
                    syn = _partial_applied(v.fi.module, c, use, share=True)
                    if syn is not None and isinstance(syn.func, (ast.Attribute, ast.Name)) and call_name(syn) == VERIFY:
                        ast.copy_location(syn, use)
                        syn._parent = use
                        cached.append(syn)
                if all(_partial_applied(v.fi.module, c, use, share=True) is not None for use in prebound[id(c)]):
                    continue
            d = _deferred_call(v, c)
            if d is not None and call_name(d) == VERIFY:
                cached.append(d)
        v.__dict__["_verify_calls"] = cached
    return cached


def _verified_at(v: _View, nodes: list, *, local: bool = False, depth: int = 3) -> bool:
    """
    Every path to `nodes` has seen verify_and_generate_shared_secret return normally: directly, inside a new helper all of
    whose normal exits follow the verification, or inside a new decision helper whose unverified exits return None / False
    (possibly as an element of a tuple / record) while a dominating fact on the result excludes that constant.
    """
    return _always(v, nodes, _verify_calls, local=local, depth=depth)


def _result_excludes(v: _View, c: ast.Call, consts: dict, node) -> bool:
    """A fact dominating `node` says that the result of call c (or the tuple element bound from it) is not one of the constants."""
    def which(e: ast.AST):
        comp = _component(v, e)
        return (comp[1], True) if comp is not None and comp[0] is c else (None, False)

    for f in facts_at(v.cfg, node):
        idx, hit = which(f.left)
        if not hit or idx not in consts:
            continue
        cs = consts[idx]
        if f.op == "truthy" and f.pos:
            return True
        if f.op in ("is", "eq") and f.right is not None:
            rv = const_value(f.right)
            if f.pos and rv is True:
                return True
            if not f.pos and (rv is None or rv is False) and cs <= {rv}:
                return True
    return False


def _key_values(v: _View, e: ast.AST, depth: int = 3) -> list[ast.AST]:
    """Expanded values `e` can have; the result of a new helper stands for its non-constant return values (the caller excluded the constants)."""
    comp = _component(v, e)
    kv = v.helper_of(comp[0]) if comp is not None else None
    if kv is None or depth <= 0:
        return [v.expand(e)]
    idx = comp[1]
    out = []
    for ret in [x for x in walk_no_nested(kv.fi.node) if isinstance(x, ast.Return)]:
        val = strip_cast(ret.value) if ret.value is not None else None
        if idx is not None:
            te = _ret_elts(kv, val)
            i = idx if isinstance(idx, int) else (te[1].index(idx) if te is not None and te[1] and idx in te[1] else None)
            if te is None or i is None or i >= len(te[0]):
                out.append(v.expand(e))
                continue
            val = te[0][i]
        if val is None or const_value(strip_cast(val)) is None or const_value(strip_cast(val)) is False:
            continue
        out += _key_values(kv, val, depth - 1)
    return out or [v.expand(e)]


# ---- reachability under an assumption about the pending attempt (three-valued evaluation of conditions)
class _Assume:
    """
    What is assumed about the RetryRequestCache of the circuit an answer names:
      absent - there is none (request_cache.get(..) is None, has(..) is False): no handshake is pending for the circuit
      stale  - there is one, but its packet_identifier differs from the identifier of the answer (another / an earlier attempt)
      match  - there is one and its packet_identifier equals the identifier of the answer (the awaited answer)
    """

    def __init__(self, payload: str, mode: str) -> None:
        self.mode = mode
        self.get = f"self.request_cache.get(RetryRequestCache, {payload}.circuit_id)"
        self.has = f"self.request_cache.has(RetryRequestCache, {payload}.circuit_id)"
        self.ident = f"{payload}.identifier"
        self.pair = {f"{self.get}.packet_identifier", self.ident}


def _a_value(e: ast.AST, A: _Assume, mod=None, depth: int = 12):
    """the expression (already in the outermost function's terms) simplified under assumption A"""
    e = strip_cast(e)
    if depth <= 0:
        return e
    n = norm(e)
    if n == A.get:
        return ast.Constant(value=None) if A.mode == "absent" else e
    if n == A.has:
        return ast.Constant(value=A.mode != "absent")
    if isinstance(e, ast.NamedExpr):
        return _a_value(e.value, A, mod, depth - 1)
    if isinstance(e, ast.IfExp):
        t = _a_truth(e.test, A, mod, depth - 1)
        return e if t is None else _a_value(e.body if t else e.orelse, A, mod, depth - 1)
    if isinstance(e, ast.BoolOp):
        for x in e.values[:-1]:
            t = _a_truth(x, A, mod, depth - 1)
            if t is None:
                return e
            if t is isinstance(e.op, ast.Or):
                return _a_value(x, A, mod, depth - 1)       # `a or b` with a truthy is a; `a and b` with a falsy is a
        return _a_value(e.values[-1], A, mod, depth - 1)
    if isinstance(e, ast.Attribute):
        b = _a_value(e.value, A, mod, depth - 1)
        return e if b is strip_cast(e.value) else ast.Attribute(value=b, attr=e.attr, ctx=ast.Load())
    if isinstance(e, ast.Call) and isinstance(e.func, ast.Name) and e.func.id == "getattr" and len(e.args) in (2, 3) and not e.keywords \
            and isinstance(const_value(e.args[1]), str):
        b = _a_value(e.args[0], A, mod, depth - 1)
        if isinstance(b, ast.Constant) and b.value is None and len(e.args) == 3:
            return _a_value(e.args[2], A, mod, depth - 1)       # None has no such attribute: the default
        if norm(b) == A.get and A.mode != "absent":
            return ast.Attribute(value=b, attr=const_value(e.args[1]), ctx=ast.Load())
    return e


def _a_not_none(e: ast.AST, A: _Assume) -> bool:
    if isinstance(e, ast.Constant):
        return e.value is not None
    n = norm(e)
    # packet_identifier is an int (checked: secrets.randbelow), the identifier of an answer is an unpacked 16 bit wire field
    return A.mode != "absent" and n == A.get or n == f"{A.get}.packet_identifier" or n == A.ident


def _a_truth(e: ast.AST, A: _Assume, mod=None, depth: int = 12):
    """True / False if the truth value of e is determined by assumption A, else None"""
    e = strip_cast(e)
    if depth <= 0:
        return None
    if isinstance(e, ast.UnaryOp) and isinstance(e.op, ast.Not):
        t = _a_truth(e.operand, A, mod, depth - 1)
        return None if t is None else not t
    if isinstance(e, ast.BoolOp):
        ts = [_a_truth(x, A, mod, depth - 1) for x in e.values]
        dom = isinstance(e.op, ast.Or)
        if any(t is dom for t in ts):
            return dom
        return (not dom) if all(t is (not dom) for t in ts) else None
    if isinstance(e, ast.Call) and len(e.args) == 1 and not e.keywords and (_is_builtin(mod, e.func, "bool") or _imported_as(mod, e.func, "operator", ("truth",))):
        return _a_truth(e.args[0], A, mod, depth - 1)
    if isinstance(e, ast.Call) and len(e.args) == 1 and not e.keywords and _imported_as(mod, e.func, "operator", ("not_",)):
        t = _a_truth(e.args[0], A, mod, depth - 1)
        return None if t is None else not t
    cmp = None
    if isinstance(e, ast.Compare) and len(e.ops) == 1:
        cmp = (type(e.ops[0]), e.left, e.comparators[0])
    elif isinstance(e, ast.Call) and len(e.args) == 2 and not e.keywords:
        for names, op in ((("eq",), ast.Eq), (("ne",), ast.NotEq), (("is_",), ast.Is), (("is_not",), ast.IsNot)):
            if _imported_as(mod, e.func, "operator", names):
                cmp = (op, e.args[0], e.args[1])
    if cmp is not None:
        op, l, r = cmp[0], _a_value(cmp[1], A, mod, depth - 1), _a_value(cmp[2], A, mod, depth - 1)
        l, r = (ast.Constant(value=const_value(x)) if not isinstance(x, ast.Constant) and const_value(x) is not NOCONST and not isinstance(x, ast.Tuple) else x
                for x in (l, r))
        if op in (ast.Is, ast.IsNot, ast.Eq, ast.NotEq):
            pos = op in (ast.Is, ast.Eq)
            res = None
            wire = [x for x in (l, r) if norm(x) in A.pair]          # a 16 bit identifier: an int in [0, 65535]
            other = [x for x in (l, r) if isinstance(x, ast.Constant)]
            if len(wire) == 1 and len(other) == 1 and not (isinstance(other[0].value, int) and not isinstance(other[0].value, bool) and 0 <= other[0].value <= 65535):
                res = False         # a sentinel (None, -1, ..) never equals / is an identifier
            elif isinstance(l, ast.Constant) and isinstance(r, ast.Constant):
                res = (l.value is r.value) if op in (ast.Is, ast.IsNot) or l.value is None or r.value is None else (l.value == r.value)
            elif any(isinstance(x, ast.Constant) and x.value is None for x in (l, r)) and any(_a_not_none(x, A) for x in (l, r)):
                res = False
            elif op in (ast.Eq, ast.NotEq) and A.mode != "absent" and {norm(l), norm(r)} == A.pair:
                res = A.mode == "match"
            return None if res is None else res is pos
        return None
    v = _a_value(e, A, mod, depth - 1)
    if isinstance(v, ast.Constant):
        return bool(v.value)
    if A.mode != "absent" and norm(v) == A.get:
        return True         # a NumberCache object: truthy
    return None


def _a_atom_truth(v: _View, atom: ast.AST, A: _Assume, depth: int = 2, env: dict | None = None):
    """
    truth of a condition atom of view v under A; the result of a new decision helper (or a component of the tuple / record it
    returns) is the common outcome of its returns that are reachable under A
    """
    t = _a_truth(v.expand(atom, env=env), A, v.fi.module)
    if t is not None or depth <= 0:
        return t
    e = strip_cast(atom)
    neg = False
    while isinstance(e, ast.UnaryOp) and isinstance(e.op, ast.Not):
        e, neg = strip_cast(e.operand), not neg
    want = None        # (positive, constant) of a comparison `<result> is / == constant`
    if isinstance(e, ast.Compare):
        if len(e.ops) != 1 or not isinstance(e.ops[0], (ast.Is, ast.IsNot, ast.Eq, ast.NotEq)):
            return None
        for side, other in ((e.left, e.comparators[0]), (e.comparators[0], e.left)):
            k = _cv(v, other)
            comp = _component(v, side)
            if comp is not None and v.helper_of(comp[0]) is not None and k is not NOCONST:
                want, e = (isinstance(e.ops[0], (ast.Is, ast.Eq)), k), side
                break
        if want is None:
            return None
    comp = _component(v, e)
    kv = v.helper_of(comp[0]) if comp is not None else None
    if kv is None:
        return None
    key = comp[1]
    cut = _a_cut(kv, A, depth - 1)
    r = kv.cfg.reach(cut_edge=cut)
    outs = set()
    rets = [x for x in walk_no_nested(kv.fi.node) if isinstance(x, ast.Return)]
    if kv.cfg.exit in kv.cfg.reach(cut_nodes=[n for x in rets for n in kv.cfg.nodes_for(x)], cut_edge=cut):
        outs.add(_a_outcome(None, want) if key is None else None)        # falls off the end: returns None
    for x in rets:
        if not any(n in r for n in kv.cfg.nodes_for(x)):
            continue
        val = x.value
        if key is not None:
            te = _ret_elts(kv, val)
            i = key if isinstance(key, int) else (te[1].index(key) if te is not None and te[1] and key in te[1] else None)
            if te is None or i is None or i >= len(te[0]):
                return None
            val = te[0][i]
        if want is None:
            outs.add(False if val is None else _a_atom_truth(kv, val, A, depth - 1))
        else:
            outs.add(_a_outcome(_cv(kv, val) if val is not None else None, want))
    if len(outs) != 1 or None in outs:
        return None
    t = outs.pop()
    return (not t) if neg else t


def _a_outcome(c, want):
    """truth of `<returned constant c> is/== k` (want = (positive, k)); None if c is not a known constant"""
    if want is None:
        return None if c is NOCONST else bool(c)
    if c is NOCONST:
        return None
    pos, k = want
    same = c is k if c is None or k is None or isinstance(c, bool) or isinstance(k, bool) else c == k
    return same is pos


def _bound_by(n) -> set[str]:
    """local names (re)bound when CFG node n executes"""
    a = n.ast
    if a is None:
        return set()
    roots: list = []
    if n.kind == "loop" and isinstance(a, (ast.For, ast.AsyncFor)):
        roots = [a.target]
    elif n.kind == "handler" and isinstance(a, ast.ExceptHandler):
        return {a.name} if a.name else set()
    elif isinstance(a, (ast.With, ast.AsyncWith)):
        roots = [i.optional_vars for i in a.items if i.optional_vars is not None] + [i.context_expr for i in a.items]
    elif isinstance(a, (ast.FunctionDef, ast.AsyncFunctionDef, ast.ClassDef)):
        return {a.name}
    elif isinstance(a, (ast.Import, ast.ImportFrom)):
        return {(x.asname or x.name).split(".")[0] for x in a.names}
    elif isinstance(a, (ast.While, ast.If, ast.Try, ast.Match)):
        return set()
    else:
        roots = [a]
    return {x.id for r in roots for x in walk_no_nested(r) if isinstance(x, ast.Name) and isinstance(x.ctx, (ast.Store, ast.Del))}


_A_CAP = 4


def _a_truths(v: _View, A: _Assume, depth: int = 2) -> dict:
    """
    id(condition node) -> truth under A (True / False / None) for view v.  Locals with several definitions (a decision written
    as ``x = ..`` in the branches of an if, as inlining leaves it) are followed along the control flow: each node gets the set of
    values such a local can hold there, given that condition outcomes contradicting A are not taken.
    """
    memo = v.__dict__.setdefault("_a_truths_memo", {})
    key = (A.mode, A.get, depth)
    if key in memo:
        return memo[key]
    cfg = v.cfg
    conds = [n for n in cfg.nodes if n.kind == "cond" and n.ast is not None]
    tracked = {nm for nm in {x.id for x in ast.walk(v.fi.node) if isinstance(x, ast.Name)}
               if len(local_defs(v.fi, nm)) > 1 or (is_param(v.fi, nm) and local_defs(v.fi, nm))}
    used = {id(n): {x.id for x in ast.walk(n.ast) if isinstance(x, ast.Name)} & tracked for n in conds}
    if not any(used.values()):
        memo[key] = {id(n): _a_atom_truth(v, n.ast, A, depth) for n in conds}
        return memo[key]

    def choices(names: set, st: dict):
        """environments name -> value for the tracked names an expression mentions (None: some value is unknown / too many)"""
        envs = [{}]
        for nm in sorted(names):
            vals = st.get(nm)
            if not vals or len(envs) * len(vals) > 2 * _A_CAP:
                return None
            envs = [dict(e, **{nm: x}) for e in envs for x in vals]
        return envs

    def truth(n, st: dict):
        envs = choices(used[id(n)], st)
        if envs is None:
            return _a_atom_truth(v, n.ast, A, depth)
        ts = {_a_atom_truth(v, n.ast, A, depth, env) for env in envs}
        return ts.pop() if len(ts) == 1 else None

    def assign(st: dict, target: ast.AST, value: ast.AST | None) -> None:
        if isinstance(target, ast.Name):
            if target.id not in tracked:
                return
            envs = choices({x.id for x in ast.walk(value) if isinstance(x, ast.Name)} & tracked, st) if value is not None else None
            if envs is None:
                st.pop(target.id, None)
                return
            vals: dict = {}
            for env in envs:
                x = v.expand(value, env=env)
                vals.setdefault(norm(x), x)
            if len(vals) > _A_CAP:
                st.pop(target.id, None)
            else:
                st[target.id] = tuple(vals.values())
        elif isinstance(target, (ast.Tuple, ast.List)):
            te = _ret_elts(v, value) if value is not None else None
            if te is None and isinstance(strip_cast(value), ast.List) and not any(isinstance(x, ast.Starred) for x in strip_cast(value).elts):
                te = (list(strip_cast(value).elts), None)
            if te is not None and len(te[0]) == len(target.elts) and not any(isinstance(x, ast.Starred) for x in target.elts):
                old = dict(st)          # the right-hand side is evaluated before any target is bound
                for t, x in zip(target.elts, te[0]):
                    tmp = dict(old)
                    assign(tmp, t, x)
                    for nm in {y.id for y in ast.walk(t) if isinstance(y, ast.Name)}:
                        if nm in tmp:
                            st[nm] = tmp[nm]
                        else:
                            st.pop(nm, None)
            else:
                for nm in {y.id for y in ast.walk(target) if isinstance(y, ast.Name) and isinstance(y.ctx, ast.Store)}:
                    st.pop(nm, None)

    def transfer(n, st: dict) -> dict:
        bound = _bound_by(n) & tracked
        if not bound:
            return st
        out = dict(st)
        a = n.ast
        if n.kind == "stmt" and isinstance(a, ast.Assign) and not any(isinstance(x, ast.NamedExpr) for x in ast.walk(a)):
            for t in a.targets:
                assign(out, t, a.value)
        elif n.kind == "stmt" and isinstance(a, ast.AnnAssign) and a.value is not None and not any(isinstance(x, ast.NamedExpr) for x in ast.walk(a)):
            assign(out, a.target, a.value)
        else:
            for nm in bound:
                out.pop(nm, None)
        return out

    def join(a: dict, b: dict) -> dict:
        out = {}
        for nm in a.keys() & b.keys():
            vals = {norm(x): x for x in a[nm]}
            for x in b[nm]:
                vals.setdefault(norm(x), x)
            if len(vals) <= _A_CAP:
                out[nm] = tuple(vals.values())
        return out

    def same(a: dict, b: dict) -> bool:
        return a.keys() == b.keys() and all({norm(x) for x in a[k]} == {norm(x) for x in b[k]} for k in a)

    init = {}
    for nm in tracked:
        if is_param(v.fi, nm):
            init[nm] = (clone(v.bind[nm]) if nm in v.bind else ast.Name(id=nm, ctx=ast.Load()),)
    state: dict = {cfg.entry: init}
    todo = [cfg.entry]
    steps = 0
    while todo and steps < 4000:
        steps += 1
        n = todo.pop()
        st = state[n]
        out = transfer(n, st)
        t = truth(n, st) if n.kind == "cond" and n.ast is not None else None
        for w, lab in n.succ:
            if t is not None and lab in (True, False) and lab is not t:
                continue
            nxt = st if lab == "exc" else out
            if w not in state:
                state[w] = dict(nxt)
                todo.append(w)
            else:
                j = join(state[w], nxt)
                if not same(j, state[w]):
                    state[w] = j
                    todo.append(w)
    res = {}
    for n in conds:
        res[id(n)] = truth(n, state[n]) if n in state and not todo else (_a_atom_truth(v, n.ast, A, depth) if todo else None)
    memo[key] = res
    return res


def _a_cut(v: _View, A: _Assume, depth: int = 2):
    truths = _a_truths(v, A, depth)

    def cut(u, w, lab) -> bool:
        if u.kind != "cond" or lab not in (True, False) or u.ast is None:
            return False
        t = truths.get(id(u))
        return t is not None and t is not lab
    return cut


def _a_reach(v: _View, A: _Assume, depth: int = 2) -> set:
    """CFG nodes of view v that can be reached when A holds (condition outcomes that contradict A are not taken)"""
    return v.cfg.reach(cut_edge=_a_cut(v, A, depth))


def _a_refuted(v: _View, nodes: list, A: _Assume) -> bool:
    """`nodes` of view v cannot be reached when A holds: not inside v, or v's call site cannot be reached in its caller"""
    r = _a_reach(v, A)
    if nodes and all(n not in r for n in nodes):
        return True
    return v.up is not None and _a_refuted(v.up, v.up.cfg.nodes_for(v.site), A)


def _answer_effect_sites(views: list[_View]) -> list[tuple[_View, ast.AST]]:
    """what processing an answer does: verification, acceptance of keys / the hop, tear-down, the next extend, consuming the retry cache"""
    out = [(v, s) for v, s, _k in _accept_sites(views)]
    for v in views:
        out += [(v, c) for c in _verify_calls(v)]
        for c in calls(v.fi):
            if call_name(c) in ("remove_circuit", "send_extend", "send_initial_create") \
                    or isinstance(_callee(c), ast.Attribute) and _callee(c).attr in ("pop", "add") and v.xn(_callee(c).value) == "self.request_cache":
                out.append((v, c))
    return out


_MUTATORS = frozenset({"pop", "popitem", "clear", "update", "setdefault", "__setitem__", "__delitem__", "append", "extend", "insert", "remove", "add",
                        "discard", "appendleft", "popleft"})


def _effects_of(v: _View, node_ast: ast.AST, cls) -> list[tuple[ast.AST, str]]:
    """
    What a statement / condition does beyond reading and logging, as far as it is evident: calls of reviewed methods of the
    community itself (they send, tear down, schedule ..), changes of the request cache, stores into / mutating methods on the
    community's attributes.  Calls that cannot be resolved are left alone (not evident).
    """
    out = []
    for x in walk_no_nested(node_ast):
        if isinstance(x, ast.Call):
            c = chain(_callee(x)) or ""
            if c.startswith(("self.logger.", "logger.", "logging.", "self._logger.")):
                continue
            f = _callee(x)
            if isinstance(f, ast.Attribute) and f.attr in _MUTATORS and (v.xn(f.value) or "").startswith("self."):
                out.append((x, f"`{norm(x)[:70]}` changes {v.xn(f.value)}"))
                continue
            if isinstance(f, ast.Attribute) and v.xn(f.value) == "self" and cls is not None:
                try:
                    targets = v.ctx.repo.resolve_call(v.fi, x)       # all overriding definitions
                except Exception:  # noqa: BLE001
                    targets = []
                hit = [k for k in targets if not _is_new(k) and k.cls is not None and (k.cls is cls or cls.is_subclass_of(k.cls.name) or k.cls.is_subclass_of(cls.name))]
                if hit:
                    out.append((x, f"`{norm(x)[:70]}` runs {hit[0].qualname}"))
        elif isinstance(x, (ast.Attribute, ast.Subscript)) and isinstance(x.ctx, (ast.Store, ast.Del)):
            base = x.value
            while isinstance(base, (ast.Attribute, ast.Subscript)):
                base = base.value
            if (v.xn(base) or "").split(".")[0].split("[")[0] == "self":
                out.append((x, f"`{norm(enclosing_stmt(x))[:70]}` changes {norm(x)}"))
    return out


def _rejection_nodes(v: _View, A: _Assume, memo: dict) -> set:
    """
    CFG nodes of view v that run for an answer that is not the awaited one (A: no attempt pending / another identifier) but
    never for the awaited one: reachable when A holds, not reachable when the pending attempt matches the answer.  A new
    helper called from such a node is such code as a whole.
    """
    key = (id(v), A.mode)
    if key in memo:
        return memo[key]
    memo[key] = set()
    r1 = v.cfg.reach(cut_edge=_a_cut(v, A))
    payload = A.ident.rsplit(".", 1)[0]
    rm = v.cfg.reach(cut_edge=_a_cut(v, _Assume(payload, "match")))
    out = {n for n in r1 if n not in rm}
    if v.up is not None:
        site = set(v.up.cfg.nodes_for(v.site))
        if site and site <= _rejection_nodes(v.up, A, memo):
            out = set(r1)
    memo[key] = out
    return out


# ---- after the hop was appended, the retry of that hop is released before anything the answer carries can abort the handler
_MATCHED_FIELDS = ("circuit_id", "identifier")      # compared with the pending attempt before the acceptance: not the sender's choice any more


def _answer_data(v: _View, e: ast.AST | None, payload: str, tainted: set) -> bool:
    """
    e is computed from data the answer carries: a field of the payload other than circuit_id / identifier (those were matched
    against the pending attempt), the payload as a whole, or a local derived from such a value.
    """
    if e is None or not isinstance(e, ast.AST):
        return False
    e = strip_cast(e)
    if isinstance(e, ast.Attribute) and isinstance(strip_cast(e.value), ast.Name):
        b = strip_cast(e.value)
        if _is_answer(v, b.id, payload):
            return e.attr not in _MATCHED_FIELDS
        return b.id in tainted
    if isinstance(e, ast.Name):
        return e.id in tainted or _is_answer(v, e.id, payload)
    if isinstance(e, (ast.Lambda, ast.FunctionDef, ast.AsyncFunctionDef, ast.ClassDef)):
        return False
    return any(_answer_data(v, x, payload, tainted) for x in ast.iter_child_nodes(e))


def _is_answer(v: _View, name: str, payload: str) -> bool:
    """the local / parameter `name` of view v holds the payload object of the answer"""
    memo = v.__dict__.setdefault("_is_answer_memo", {})
    if name not in memo:
        memo[name] = False
        if v.up is None and name == payload and is_param(v.fi, name) and not local_defs(v.fi, name):
            memo[name] = True
        elif v.up is None and name == payload and v.wrapped is not None and local_defs(v.fi, name):
            memo[name] = _payload_intact(v, payload)        # wrapper(self, *args): `payload = args[1]`
        elif name in v.bind and not local_defs(v.fi, name):
            memo[name] = norm(v.bind[name]) == payload
        elif not is_param(v.fi, name):
            d = v.one_def(name)
            memo[name] = d is not None and d[1] is None and isinstance(strip_cast(d[0]), ast.Name) and _is_answer(v, strip_cast(d[0]).id, payload)
    return memo[name]


def _answer_locals(v: _View, payload: str) -> set:
    """locals / parameters of view v that hold data derived from the answer (flow-insensitive: any definition counts)"""
    memo = v.__dict__.get("_answer_locals")
    if memo is not None:
        return memo
    tainted: set = set()
    v.__dict__["_answer_locals"] = tainted
    up = _answer_locals(v.up, payload) if v.up is not None else set()
    for p_, b in v.bind.items():
        # a parameter bound to an argument that is answer data in the caller (the binding is in the outermost function's terms:
        # a payload field, or a name that is tainted in some caller)
        if not _is_answer(v, p_, payload) and (_answer_data(_root(v), b, payload, set()) or any(isinstance(x, ast.Name) and x.id in up for x in ast.walk(b))):
            tainted.add(p_)
    names = {x.id for x in ast.walk(v.fi.node) if isinstance(x, ast.Name) and isinstance(x.ctx, ast.Store)}
    changed = True
    while changed:
        changed = False
        for nm in names - tainted:
            for st, val, _i in local_defs(v.fi, nm):
                src = val if val is not None else getattr(st, "iter", None) or getattr(st, "value", None)
                if src is not None and _answer_data(v, src, payload, tainted):
                    tainted.add(nm)
                    changed = True
                    break
    return tainted


def _node_exprs(n) -> list[ast.AST]:
    a = n.ast
    if a is None or n.kind not in ("stmt", "cond"):
        return []
    if isinstance(a, (ast.With, ast.AsyncWith)):
        return [i.context_expr for i in a.items]
    if isinstance(a, (ast.FunctionDef, ast.AsyncFunctionDef, ast.ClassDef, ast.Try, ast.If, ast.While, ast.For, ast.AsyncFor, ast.Match)):
        return []
    return [a]


_TOTAL_BUILTINS = frozenset({"range", "enumerate", "zip", "iter", "reversed", "len", "list", "tuple", "set", "frozenset", "dict", "bool", "isinstance", "cast", "repr", "id", "type"})


def _loop_index(v: _View, e: ast.AST) -> bool:
    """e is built from constants and the targets of for-loops over range(..) / enumerate(..) with + and - only (a running index)"""
    e = strip_cast(e)
    names = [x for x in ast.walk(e) if isinstance(x, ast.Name)]
    if not names or any(not isinstance(x, (ast.Name, ast.Constant, ast.BinOp, ast.Add, ast.Sub, ast.Load, ast.UnaryOp, ast.USub)) for x in ast.walk(e)):
        return False
    for nm in names:
        d = local_defs(v.fi, nm.id)
        if is_param(v.fi, nm.id) or not d:
            return False
        for st, _val, _i in d:
            it = strip_cast(st.iter) if isinstance(st, (ast.For, ast.AsyncFor)) else None
            if not (isinstance(it, ast.Call) and isinstance(it.func, ast.Name) and it.func.id in ("range", "enumerate")):
                return False
    return True


_PURE_READS = frozenset({"get", "keys", "values", "items", "copy", "count", "index", "startswith", "endswith", "hex"})


class _PostAccept:
    """
    What can happen between the acceptance of a hop (``circuit.add_hop``) and the release of the retry of that hop
    (``request_cache.pop(RetryRequestCache, <circuit id>)`` attempted, or ``remove_circuit(<circuit id>)``): the statements that
    run in between ('unreleased'), and among them the ones that can raise on what the answer carries.  An exception of such a
    statement is followed along the exceptional edges (through except clauses, out of helpers into their callers) to see
    whether it can end the handler - by leaving it, or by being swallowed up to a return - while the retry is still registered.
    """

    def __init__(self, ctx: Ctx, payload: str, circ: str) -> None:
        self.ctx, self.payload, self.circ = ctx, payload, circ
        self.findings: list = []          # (view, origin ast, how)
        self.examined: list = []          # (view, origin ast, released: bool) answer-consuming raising constructs seen after the acceptance
        self.exits: set = set()           # (function, 'return') ends reached in unreleased state by ordinary control flow
        self.region: set = set()          # (function, node id) statements / conditions that run between the acceptance and the release
        self.raisers: set = set()         # ... of which have an exceptional edge (were examined for answer-consuming constructs)
        self._done: set = set()

    # -- release
    def release_calls(self, x: _View) -> list[ast.AST]:
        ids = (f"{self.payload}.circuit_id", f"{self.circ}.circuit_id")
        out = []
        for p in calls(x.fi):
            f = _callee(p)
            if not isinstance(f, ast.Attribute):
                continue
            if f.attr == "pop" and x.xn(f.value) == "self.request_cache" and len(p.args) + len(p.keywords) == 2 \
                    and chain(arg(p, 0, "prefix")) == "RetryRequestCache" and x.xn(arg(p, 1, "number")) in ids:
                out.append(p)
            elif f.attr == "remove_circuit" and x.xn(f.value) == "self" and arg(p, 0, "circuit_id") is not None and x.xn(arg(p, 0, "circuit_id")) in ids:
                out.append(p)
        return out

    def cuts(self, v: _View) -> tuple[list, list]:
        """(nodes that release when entered - the release call is the whole statement -, nodes that release when they complete normally)"""
        memo = v.__dict__.get("_release_cuts")
        if memo is None:
            attempted, completed = [], []
            for p in self.release_calls(v):
                st = enclosing_stmt(p)
                val = strip_cast(st.value) if isinstance(st, (ast.Expr, ast.Assign, ast.AnnAssign)) and getattr(st, "value", None) is not None else None
                (attempted if val is p else completed).extend(v.cfg.nodes_for(p))
            for c, kvs, complete in v.helper_calls():
                if complete and kvs and all(_always(kv, [kv.cfg.exit], self.release_calls, local=True) for kv in kvs):
                    completed += v.cfg.nodes_for(c)
            memo = v.__dict__["_release_cuts"] = (attempted, completed)
        return memo

    def reach(self, v: _View, starts) -> set:
        attempted, completed = self.cuts(v)
        return v.cfg.reach([s for s in starts if s not in attempted], cut_nodes=attempted, cut_out_normal=completed)

    # -- raising on answer data
    def raising(self, v: _View, n) -> list[tuple[_View, ast.AST]]:
        """constructs evaluated by node n whose exception (on data of the answer) can leave n by its exceptional edge"""
        if not any(lab == "exc" for _w, lab in n.succ):
            return []
        attempted, completed = self.cuts(v)
        if n in attempted:
            return []
        tainted = _answer_locals(v, self.payload)
        released = {id(p) for p in self.release_calls(v)}
        out = []
        for root in _node_exprs(n):
            for x in walk_no_nested(root):
                if isinstance(x, ast.Call) and id(x) not in released:
                    kvs = v.views_of(x)
                    if kvs:
                        if len(kvs) == len(v.call_targets(x)):
                            for kv in kvs:
                                out += self.escapes(kv)
                            continue
                    c = chain(_callee(x)) or ""
                    from ..cfg import call_may_raise
                    if not call_may_raise(x) or c.startswith(("self.logger.", "logger.")) or c in _TOTAL_BUILTINS and c not in v.fi.module.imports:
                        continue
                    f = _callee(x)
                    recv = f.value if isinstance(f, ast.Attribute) else None
                    operands = list(x.args) + [k.value for k in x.keywords] + ([recv] if recv is not None else [])
                    if isinstance(f, ast.Attribute) and f.attr in _PURE_READS and not any(_answer_data(v, a, self.payload, tainted) for a in list(x.args) + [k.value for k in x.keywords]):
                        continue
                    if any(_answer_data(v, a, self.payload, tainted) for a in operands):
                        out.append((v, x))
                elif isinstance(x, ast.Subscript) and isinstance(x.ctx, ast.Load) and not isinstance(x.slice, ast.Slice) \
                        and (_answer_data(v, x.value, self.payload, tainted) or _answer_data(v, x.slice, self.payload, tainted)) \
                        and not _loop_index(v, x.slice):
                    out.append((v, x))      # an index / key taken from, or applied to, answer data (not the running index of a loop over its length)
                elif isinstance(x, ast.Await) and _answer_data(v, x.value, self.payload, tainted):
                    out.append((v, x))
        return out

    def escapes(self, kv: _View) -> list[tuple[_View, ast.AST]]:
        """answer-consuming constructs inside helper view kv (run from its entry) whose exception leaves kv while nothing was released"""
        memo = kv.__dict__.get("_pa_escapes")
        if memo is None:
            kv.__dict__["_pa_escapes"] = memo = []
            esc, _after = self.scan(kv, [kv.cfg.entry], [])
            memo.extend(esc)
        return memo

    # -- the walk
    def scan(self, v: _View, starts: list, pending: list) -> tuple[list, list]:
        """
        starts: nodes of v where execution continues after the acceptance, nothing released yet.
        pending: (origin, nodes) - nodes of v where execution continues after `origin` raised, nothing released yet.
        Returns (origins whose exception leaves v unreleased, origins after which v returns normally unreleased).
        """
        cfg = v.cfg
        unreleased = self.reach(v, starts)
        work = list(pending)
        seen_nodes = set(unreleased)
        todo = list(unreleased)
        escaped, swallowed = [], []
        handled: set = set()
        while todo or work:
            while todo:
                n = todo.pop()
                if n.kind in ("stmt", "cond") and n.ast is not None:
                    self.region.add((v.fi.qualname, n.id))
                    if any(lab == "exc" for _w, lab in n.succ):
                        self.raisers.add((v.fi.qualname, n.id))
                for kvv, origin in self.raising(v, n):
                    key = (id(origin), id(n))
                    if key not in handled:
                        handled.add(key)
                        work.append(((kvv, origin), [w for w, lab in n.succ if lab == "exc"]))
            if work:
                origin, nodes = work.pop()
                r = self.reach(v, nodes)
                bad = False
                if cfg.raise_exit in r:
                    escaped.append(origin)
                    bad = True
                if cfg.exit in r:
                    swallowed.append(origin)
                    bad = True
                self.examined.append((origin[0], origin[1], not bad, v))
                for n in r:
                    if n not in seen_nodes:
                        seen_nodes.add(n)
                        todo.append(n)
        if cfg.exit in unreleased:
            self.exits.add((v.fi.qualname, "return"))
        return escaped, swallowed

    def run_from(self, v: _View, starts: list, pending: list) -> None:
        key = (id(v), tuple(sorted(n.id for n in starts)), tuple(sorted((id(o[1]), tuple(sorted(n.id for n in ns))) for o, ns in pending)))
        if key in self._done:
            return
        self._done.add(key)
        escaped, swallowed = self.scan(v, starts, pending)
        normal_out = v.cfg.exit in self.reach(v, starts) if starts else False
        if v.up is None:
            for o in escaped:
                self.findings.append((o, "leaves", v))
            for o in swallowed:
                self.findings.append((o, "swallowed", v))
            return
        site = v.up.cfg.nodes_for(v.site)
        nxt_pending = [(o, [w for n in site for w, lab in n.succ if lab == "exc"]) for o in escaped] \
            + [(o, [w for n in site for w, lab in n.succ if lab != "exc"]) for o in swallowed]
        nxt_starts = [w for n in site for w, lab in n.succ if lab != "exc"] if normal_out else []
        if any(not ns for _o, ns in nxt_pending):
            raise AnalysisError(f"undecided: the call of {v.fi.qualname} in {v.up.fi.qualname} has no exceptional edge although the callee can raise")
        if nxt_starts or nxt_pending:
            self.run_from(v.up, nxt_starts, nxt_pending)


def rule_release_after_accept(ctx: Ctx) -> None:
    """
    Once ``circuit.add_hop(hop)`` has run, the RetryRequestCache of the hop that just answered must not be able to fire any more.
    Everything the answer still carries (the encrypted candidate list ..) is chosen by whoever produced or touched the cell: a
    statement that consumes it can be made to raise.  If that can end the handler while the cache is registered, the cache times
    out and runs its retry function (send_initial_create / send_extend with the OLD candidates) for a hop position that is
    already filled: a peer the originator never reached through the preceding hops is appended to the hop list.
    """
    acc = [(r, c, w) for r, c, w, _sel in _acceptances(ctx) if w is not None]
    if not acc:
        raise AnalysisError("undecided: no call of _ours_on_created_extended from on_created / on_extended whose arguments can be bound")
    n_sites = 0
    for r, c, w in acc:
        payload, circ, _hop = _circuit_terms(r)
        pa = _PostAccept(ctx, payload, circ)
        accepts = [(v, s) for v, s, kind in _accept_sites(w.closure()) if kind == "add_hop"]
        n_sites += len(accepts)
        for v, s in accepts:
            nodes = v.cfg.nodes_for(s)
            pa.run_from(v, [x for n in nodes for x, lab in n.succ if lab != "exc"], [])
        reported: set = set()
        for (ov, origin), how, endv in pa.findings:
            if id(origin) in reported:
                continue
            reported.add(id(origin))
            end = "its exception leaves" if how == "leaves" else "its exception is caught and the handler returns from"
            ctx.violation("release-after-accept", ov.fi, origin,
                          f"after circuit.add_hop(..) `{norm(origin)[:70]}` in {ov.fi.qualname} consumes data of the answer (sender-controlled: a bit flip in "
                          f"the candidate list is enough) and can raise; {end} {endv.fi.qualname} on a path on which neither "
                          "request_cache.pop(RetryRequestCache, <circuit id>) nor remove_circuit(<circuit id>) has run. The RetryRequestCache of the hop "
                          "that was just appended stays registered, times out and re-runs its retry function for a hop position that is already "
                          "filled: an alternative peer is contacted directly and appended behind the accepted hop although it was never reached through it")
        ok_origins = {id(o) for (ov, o, ok, _ev) in pa.examined if ok} - reported
        for (ov, o, ok, _ev) in pa.examined:
            if id(o) in ok_origins:
                ok_origins.discard(id(o))
                ctx.instance("release-after-accept", ov.fi.where, f"`{norm(o)[:60]}` raising before the release is caught and leads to a release", line=getattr(o, "lineno", 0))
        ctx.instance("release-after-accept", w.fi.where,
                     f"{_root(r).fi.qualname}: {len(accepts)} add_hop site(s); {len(pa.region)} statements / conditions can run between add_hop and the "
                     f"release of the retry cache, {len(pa.raisers)} of them can raise; "
                     f"{len({id(o) for _v, o, _ok, _e in pa.examined})} of these consume data of the answer; "
                     f"unreleased ordinary ends: {sorted(pa.exits) or 'none'}")
    ctx.floor("release-after-accept", n_sites, 2)


def rule_identifier(ctx: Ctx) -> None:
    repo = ctx.repo
    n = 0
    # the acceptance function is only ever *called*, by name, from the two answer handlers
    accs = _acceptances(ctx)
    for m, fi, a in repo.attribute_uses("_ours_on_created_extended"):
        par = parent(a)
        if id(a) in ctx._c08_accept_refs and not (isinstance(par, ast.Call) and par.func is a):
            n += 1          # one alternative of a dispatched call in an answer handler: analysed below under its selecting facts
        elif not (isinstance(par, ast.Call) and par.func is a):
            raise AnalysisError(f"undecided: _ours_on_created_extended is referenced without being called in {fi.qualname if fi else m.relpath} "
                                "(stored in a table / passed on): its callers cannot be enumerated")
    members = _handler_members(ctx)
    for m, fi, c in repo.callers_of_name("_ours_on_created_extended"):
        if fi is None:
            continue
        n += 1
        ok_who = fi in members
        ctx.check(ok_who, "identifier-match", fi, c, f"_ours_on_created_extended called from {fi.qualname}",
                  "keys can be accepted through a caller other than on_created/on_extended")
    for r, c, w, sel in accs:
        fi = r.fi
        payload, circ, _ = _circuit_terms(r)
        xf = _xfacts(r, c, extra=sel)
        gets = set()
        for op, pos, l, rt in xf:
            live = op == "truthy" and pos or op == "is" and not pos and rt is not None and const_value(rt) is None
            if live and isinstance(l, ast.Call) and chain(l.func) == "self.request_cache.get" and chain(arg(l, 0)) == "RetryRequestCache" \
                    and _snorm(arg(l, 1)) == f"{payload}.circuit_id" and len(l.args) + len(l.keywords) == 2:
                gets.add(norm(l))
        keys = {_tkey(t) for t in xf}
        ident_ok = any(_fkey("eq", True, f"{g}.packet_identifier", f"{payload}.identifier") in keys for g in gets)
        # the circuit whose pending hop is keyed / appended is the circuit of that retry cache
        args_ok = False
        if w is not None:
            views = w.closure()
            touched = [v.xn(_callee(x).value, obj=True) for v, x, kind in _accept_sites(views) if kind == "add_hop" and isinstance(_callee(x), ast.Attribute)]
            touched += [v.xn(getattr(_store_target(x, "unverified_hop"), "value", None), obj=True) for v, x, kind in _accept_sites(views) if kind == "pending"]
            args_ok = bool(touched) and all(t == circ for t in touched) and _payload_intact(_root(r), payload)
        guard_ok = bool(gets) and ident_ok
        if not guard_ok:
            # the test may be spelled differently or sit in the callee: whatever processing an answer does must be out of
            # reach both when no attempt is pending for the circuit and when the pending attempt has another identifier
            sites = _answer_effect_sites(w.closure()) if w is not None else [(r, c)]
            guard_ok = bool(sites) and all(_a_refuted(v, v.cfg.nodes_for(s), A) for v, s in sites
                                           for A in (_Assume(payload, "absent"), _Assume(payload, "stale")))
        ctx.check(guard_ok and args_ok, "identifier-match", fi, c,
                  "answer accepted only if a RetryRequestCache for payload.circuit_id exists and its packet_identifier == payload.identifier",
                  "a created/extended answer with a wrong identifier, for another circuit, or after the attempt was abandoned is processed",
                  [f"{op}{'' if pos else '-not'}: {norm(l)}{' / ' + norm(rt) if rt is not None else ''}" for op, pos, l, rt in xf])
    # ---- an answer that is not the awaited one has no effect: whatever runs only because no attempt is pending / the identifier
    # differs may log, nothing else (a CREATED / EXTENDED that is unauthenticated at this point must not drive state changes)
    memo: dict = {}
    seen_views: set = set()
    for r, c, w, sel in accs:
        payload = _circuit_terms(r)[0]
        root = _root(r)
        for v in root.closure() + (w.closure() if w is not None else []):
            if id(v) in seen_views:
                continue
            seen_views.add(id(v))
            reported: set = set()
            for A in (_Assume(payload, "absent"), _Assume(payload, "stale")):
                for nd in _rejection_nodes(v, A, memo):
                    a = nd.ast
                    if a is None or nd.kind not in ("stmt", "cond") or isinstance(a, (ast.With, ast.AsyncWith, ast.FunctionDef, ast.AsyncFunctionDef, ast.ClassDef)):
                        continue
                    for x, what in _effects_of(v, a, root.fi.cls):
                        if id(x) not in reported:
                            reported.add(id(x))
                            ctx.violation("identifier-match", v.fi, x,
                                          f"{root.fi.qualname} reacts to an answer that does not belong to the pending attempt (no RetryRequestCache for the "
                                          f"circuit, or another packet_identifier: duplicate, replay, forged or late answer) with more than a log line: {what}. "
                                          "Such an answer must have no effect; here anyone who can send a created/extended cell for the circuit id "
                                          "drives this code against a circuit whose hops are established")
            ctx.instance("identifier-match", v.fi.where, f"code of {v.fi.qualname} that runs only for an unexpected answer has no effect besides logging")
    ctx.floor("identifier-match", n, 2)
    # ---- a new attempt is started from the acceptance only after the retry cache of the hop just accepted was consumed
    for r, c, w, sel in accs:
        if w is None:
            continue
        payload, circ, _hop = _circuit_terms(r)

        def retry_pops(x: _View) -> list[ast.AST]:
            return [p for p in calls(x.fi) if isinstance(_callee(p), ast.Attribute) and _callee(p).attr == "pop" and x.xn(_callee(p).value) == "self.request_cache"
                    and len(p.args) + len(p.keywords) == 2 and chain(arg(p, 0, "prefix")) == "RetryRequestCache"
                    and x.xn(arg(p, 1, "number")) in (f"{payload}.circuit_id", f"{circ}.circuit_id")]

        for v in w.closure():
            for x in calls(v.fi):
                if call_name(x) in ("send_extend", "send_initial_create") and isinstance(_callee(x), ast.Attribute) and v.xn(_callee(x).value) == "self":
                    ctx.check(_always(v, v.cfg.nodes_for(x), retry_pops), "identifier-match", v.fi, x,
                              f"`{norm(x)[:50]}` runs only after request_cache.pop(RetryRequestCache, <circuit id>) completed",
                              f"{v.fi.qualname} starts the next attempt with `{norm(x)[:60]}` while the RetryRequestCache of the hop that was just accepted can "
                              "still be registered (it is only looked up, or popped on some paths only): the callee replaces it only if it gets that far "
                              "(it can raise on a malformed candidate first). The stale cache then times out and re-runs its retry function for a hop "
                              "position that is already filled - a peer is contacted and appended that is not the next hop of the circuit")
    # packet_identifier: random, assigned once
    init = repo.method("RetryRequestCache", "__init__", CA)
    sts = [s for s, t in stores(init, "self.packet_identifier")]
    ok = len(sts) == 1 and isinstance(sts[0], (ast.Assign, ast.AnnAssign)) and sts[0].value is not None
    if ok:
        v = resolve(init, sts[0].value)
        ok = _is_random_16_bit(repo, init, v)
    ctx.check(ok, "identifier-match", init, init.node, "packet_identifier = secrets.randbelow(2**16) per attempt",
              "the per-attempt identifier is not a fresh 16-bit random value")
    for m, fi, a in repo.attribute_uses("packet_identifier"):
        if isinstance(a.ctx, ast.Store):
            ctx.check(fi is not None and fi.qualname == "RetryRequestCache.__init__", "identifier-match", fi or m.relpath, enclosing_stmt(a),
                      "packet_identifier written only at construction", "packet_identifier is rewritten after construction")
    # each attempt constructs a new cache and sends *its* identifier
    for meth, pl in (("send_initial_create", "CreatePayload"), ("send_extend", "ExtendPayload")):
        fi = repo.method("TunnelCommunity", meth, TC)
        views = _entry(ctx, fi).closure()
        ctors = [(v, c) for v in views for c in calls(v.fi, "RetryRequestCache")]
        pls = [(v, c) for v in views for c in calls(v.fi, pl)]
        ok = len(ctors) == 1 and len(pls) == 1
        if ok:
            # the identifier sent is the one of the cache constructed (once) and registered here, whatever locals carry it
            (cv_, ctor), (pv, pcall) = ctors[0], pls[0]
            ct = cv_.xn(ctor)
            pa = _pargs(pcall, ["circuit_id", "identifier", "node_public_key", "key", "node_addr"][:5 if pl == "ExtendPayload" else 4], pv.fi)
            ident = pv.expand(pa[1]) if pa and pa[1] is not None else None
            if isinstance(ident, ast.Attribute) and isinstance(ident.value, ast.Call) and chain(ident.value.func) == "self.request_cache.add" \
                    and len(ident.value.args) == 1 and not ident.value.keywords:
                ident = ast.Attribute(value=ident.value.args[0], attr=ident.attr, ctx=ast.Load())      # add() hands back the cache it registered
            ok = isinstance(ident, ast.Attribute) and ident.attr == "packet_identifier" and norm(ident.value) == ct \
                and pv.xn(pa[0]) == "circuit.circuit_id" and is_param(fi, "circuit") and not local_defs(fi, "circuit") \
                and any(chain(a.func) == "self.request_cache.add" and v.xn(arg(a, 0)) == ct for v in views for a in calls(v.fi))
            # old attempt's cache is popped first (so an answer to the old attempt finds the new identifier): on every path
            # to the construction of the new cache the old one was popped or there was none (CFG, not line order)
            ok = ok and _old_retry_cache_dropped(cv_, cv_.cfg.nodes_for(ctor))
        ctx.check(ok, "identifier-match", fi, fi.node, f"{meth}: pops the old retry cache, registers a new one and sends its identifier",
                  f"{meth} does not bind the request to a fresh retry cache identifier")


def _suspension_before(v: _View, nodes: list, skip: ast.AST | None = None, coroutine: bool = False) -> str | None:
    """
    A point where the event loop can run other handlers lies on some path from the entry of the outermost function to `nodes`
    of view v: an await / async with / async for in v before the nodes, a coroutine callee that is not awaited on the spot
    (it is scheduled, so it starts later), or the same in a caller before the call.  Returns a description, None if there is none.
    skip: an Await expression that does not count (the await of the callee under analysis: it suspends only where the callee does).
    """
    for n in v.cfg.nodes:
        if not _node_awaits(n):
            continue
        if skip is not None and isinstance(n.ast, ast.AST) and not isinstance(n.ast, (ast.AsyncWith, ast.AsyncFor)) \
                and all(x is skip for x in walk_no_nested(n.ast) if isinstance(x, ast.Await)):
            continue
        if any(x in v.cfg.reach([n]) for x in nodes):
            return f"`{head(n.ast)[:70]}` in {v.fi.qualname}"
    if v.up is None:
        return None
    awaited = parent(v.site) if isinstance(parent(v.site), ast.Await) else None
    if (v.fi.is_async or coroutine) and awaited is None and v.up.wrapped is not None and not v.up.fi.is_async and isinstance(parent(v.site), ast.Return):
        # the synchronous wrapper of a decorator returns the coroutine to its own caller: awaited on the spot iff the wrapper's call is
        return _suspension_before(v.up, v.up.cfg.nodes_for(v.site), None, True)
    if (v.fi.is_async or coroutine) and awaited is None:
        return f"{v.fi.qualname} is a coroutine that `{norm(enclosing_stmt(v.site))[:70]}` in {v.up.fi.qualname} does not await on the spot (it runs later)"
    return _suspension_before(v.up, v.up.cfg.nodes_for(v.site), awaited)


def rule_verify_before_accept(ctx: Ctx) -> None:
    repo = ctx.repo
    fi = _ours(ctx)
    acc = [(r, c, w) for r, c, w, _sel in _acceptances(ctx) if w is not None]
    if not acc:
        raise AnalysisError("undecided: no call of _ours_on_created_extended from on_created / on_extended whose arguments can be bound")
    n_sites = 0
    for r, c0, w in acc:
        payload, circ, hop = _circuit_terms(r)
        views = w.closure()
        vcalls = [(v, c) for v in views for c in _verify_calls(v)]
        ctx.anchor(vcalls, "verify call")
        vnorms = {v.xn(c) for v, c in vcalls}
        sites = _accept_sites(views)
        n_sites = max(n_sites, len(sites))
        # accepted state changes
        for v, s, kind in sites:
            ctx.check(_verified_at(v, v.cfg.nodes_for(s)), "verify-before-accept", v.fi, s,
                      f"`{norm(s)[:60]}` reachable only after verify_and_generate_shared_secret returned normally",
                      "session keys / the new hop are accepted on a path on which the authenticated DH verification did not succeed")
        # from the identifier check to the point where the pending hop is cleared and appended nothing else may run: a
        # suspension point in between lets a second copy of the same answer pass the same checks against the same pending hop
        for v, s, kind in sites:
            susp = _suspension_before(v, v.cfg.nodes_for(s))
            ctx.check(susp is None, "verify-before-accept", v.fi, s,
                      f"`{norm(s)[:60]}` is reached without a suspension point since the answer handler was entered",
                      f"the acceptance of an answer is not atomic: {susp} suspends between the identifier check / the read of the pending hop and "
                      f"`{norm(s)[:50]}`; two copies of the same valid created/extended answer (UDP duplicate, replay) that are both dispatched "
                      "before the first has finished both verify against the same pending hop and both append it - the hop list names the peer twice")
        # keys derive from the verified secret and are installed on the pending hop of this circuit
        for v, st, kind in sites:
            if kind != "keys":
                continue
            vals = _key_values(v, st.value) if isinstance(st, (ast.Assign, ast.AnnAssign)) and st.value is not None else []
            ok = bool(vals) and all(isinstance(x, ast.Call) and call_name(x) == "generate_session_keys" and len(x.args) == 1 and not x.keywords
                                    and norm(x.args[0]) in vnorms for x in vals)
            ctx.check(ok, "verify-before-accept", v.fi, st, "hop.keys = generate_session_keys(<verified shared secret>)",
                      "the accepted session keys are not derived from the verified shared secret")
            tgt = _store_target(st, "keys")
            ctx.check(tgt is not None and v.xn(tgt.value, obj=True) == hop, "verify-before-accept", v.fi, st,
                      "the session keys are installed on the circuit's pending hop",
                      "the accepted session keys are installed on something other than the pending hop of the answered circuit")
        # the pending hop is cleared before the hop is appended: nothing that can raise lies between acceptance and the reset,
        # otherwise a duplicate of the same answer verifies again and appends the same peer twice

        def resets(x: _View) -> list[ast.AST]:
            return [s_ for s_, t in stores(x.fi, lambda c: c.endswith(".unverified_hop"))
                    if isinstance(s_, (ast.Assign, ast.AnnAssign)) and _stored_value(s_, t) is not None and const_value(strip_cast(_stored_value(s_, t))) is None
                    and x.xn(t.value, obj=True) == circ]

        for v, c, kind in sites:
            if kind != "add_hop":
                continue
            ctx.check(_always(v, v.cfg.nodes_for(c), resets), "verify-before-accept", v.fi, c, "circuit.unverified_hop is cleared before add_hop on every path",
                      "the accepted hop stays registered as the pending hop on some path after add_hop: a duplicated answer is verified again and the same peer is appended twice")
            # the hop that is added is the unverified hop of this circuit
            ok = isinstance(_callee(c), ast.Attribute) and v.xn(_callee(c).value, obj=True) == circ and len(c.args) == 1 and not c.keywords and v.xn(c.args[0]) == hop
            ctx.check(ok, "verify-before-accept", v.fi, c,
                      "circuit.add_hop(hop) with hop = circuit.unverified_hop of self.circuits[circuit_id]",
                      "the hop appended is not the circuit's own unverified hop")
        # ---- selected-peer-key
        for v, c in vcalls:
            pa = _pargs(c, ["dh_secret", "dh_received", "auth", "b"], v.fi)
            a = [v.xn(x) for x in pa] if pa else []
            ok = a == [f"{hop}.dh_secret", f"{payload}.key", f"{payload}.auth", f"{hop}.peer.public_key.get_crypt_pk()"]
            ctx.check(ok, "selected-peer-key", v.fi, c, "verify(hop.dh_secret, payload.key, payload.auth, hop.peer.public_key.get_crypt_pk())",
                      "the DH verification is not bound to the static key of the peer the originator selected for this hop")
    ctx.floor("verify-before-accept", n_sites, 3)
    # the session keys are derived from the WHOLE shared secret (ephemeral and static half)
    gk = repo.method("TunnelCrypto", "generate_session_keys", CR)
    ks = [c for c in calls(gk, "_generate_session_keys")]
    ok = len(ks) == 1 and len(ks[0].args) == 1 and not ks[0].keywords and _rnorm(gk, ks[0].args[0]) == gk.params()[0] and not local_defs(gk, gk.params()[0])
    imp = gk.module.imports.get("_generate_session_keys")
    ok = ok and imp is not None and imp[0] == "ipv8_rust_tunnels"
    ctx.check(ok, "selected-peer-key", gk, gk.node, "session keys = KDF(whole shared secret)",
              "the KDF is not fed the complete shared secret: the half that binds the keys to the selected peer's static key is dropped, so whoever answers with an own ephemeral key shares the accepted keys")
    # ---- inside the verification
    vf = repo.method("TunnelCrypto", VERIFY, CR)
    vv = _body_view(ctx, vf)
    p = vf.params()
    rets = [r for r in walk_no_nested(vf.node) if isinstance(r, ast.Return)]
    ctx.anchor(rets, "return in verify_and_generate_shared_secret")
    for r in rets:
        xf = _xfacts(vv, r)
        secret = vv.expand(r.value) if r.value is not None else None
        ok = False
        for op, pos, l, rt in xf:
            passed = op == "truthy" and pos or op in ("is", "eq") and not pos and rt is not None and const_value(rt) is False   # a bool primitive: `is not False` is True
            if passed and isinstance(l, ast.Call) and chain(l.func) == "crypto_auth_verify" and len(l.args) == 3 and not l.keywords:
                mac = _prefix32(l.args[1], vf.module, repo)
                if secret is not None and mac is not None and norm(mac) == norm(secret) and _snorm(l.args[0]) == p[2] and _snorm(l.args[2]) == p[1]:
                    ok = True
        ctx.check(ok, "verify-before-accept", vf, r, "shared secret returned only under truthy crypto_auth_verify(auth, secret[:32], dh_received)",
                  "verify_and_generate_shared_secret can return a secret without a successful authenticator check",
                  [f"{op}{'' if pos else '-not'}: {norm(l)}" for op, pos, l, rt in xf])
        parts = [norm(x) for x in _concat_parts(secret, vf.module)] if secret is not None else []
        ok2 = parts == [f"{p[0]}.diffie_hellman({p[1]})", f"{p[0]}.diffie_hellman({p[3]})"]
        ctx.check(ok2, "selected-peer-key", vf, r, "secret = DH(secret, received ephemeral) + DH(secret, static key b)",
                  "the shared secret does not combine the ephemeral and the selected peer's static key in (ephemeral, static) order")
    for name in p:
        ctx.check(not local_defs(vf, name), "selected-peer-key", vf, vf.node, f"parameter {name} not rebound", f"parameter {name} is rebound")
    imp = vf.module.imports.get("crypto_auth_verify")
    ctx.check(imp is not None and imp[0] == "ipv8_rust_tunnels", "verify-before-accept", vf, "crypto_auth_verify",
              "crypto_auth_verify is the ipv8_rust_tunnels primitive", "crypto_auth_verify is shadowed by a local definition")
    # responder side mirrors the order
    gf = repo.method("TunnelCrypto", "generate_diffie_shared_secret", CR)
    gv = _body_view(ctx, gf)
    keep = frozenset({"tmp_key"})       # the ephemeral key object keeps its name: identity matters, not its constructor text
    rets = [(r, gv.expand(r.value, keep=keep)) for r in walk_no_nested(gf.node) if isinstance(r, ast.Return) and r.value is not None]
    rets = [(r, t) for r, t in rets if isinstance(t, ast.Tuple)]
    ctx.anchor(rets, "return in generate_diffie_shared_secret")
    for r, t in rets:
        recv, keyp = gf.params()[1], gf.params()[2]
        parts = _concat_parts(t.elts[0], gf.module) if len(t.elts) == 3 else []
        ok = len(parts) == 2 and not local_defs(gf, recv)
        if ok:
            eph, sta = parts
            ok = norm(eph) == f"tmp_key.diffie_hellman({recv})" and isinstance(sta, ast.Call) and call_name(sta) == "diffie_hellman" \
                and len(sta.args) == 1 and not sta.keywords and norm(sta.args[0]) == recv \
                and _is_responder_static_key(gf, sta.func.value, keyp)
        tk = single_def(gf, "tmp_key")
        ok = ok and tk is not None  # one ephemeral key object: the one in the DH is the one whose public half is authenticated
        au = t.elts[2] if ok else None
        ok_au = isinstance(au, ast.Call) and chain(au.func) == "crypto_auth" and len(au.args) == 2 and not au.keywords \
            and _prefix32(au.args[0], gf.module, repo) is not None and norm(_prefix32(au.args[0], gf.module, repo)) == norm(t.elts[0]) \
            and norm(au.args[1]) == "tmp_key.get_crypt_pk()" and norm(t.elts[1]) == "tmp_key.get_crypt_pk()"
        ctx.check(ok and ok_au, "selected-peer-key", gf, r, "responder: secret = DH(ephemeral, X) + DH(static, X); auth over secret[:32] and its ephemeral key",
                  "responder side of the handshake does not mirror the originator's (ephemeral, static) construction")


def _extend_key_source(v: _View, val: ast.AST) -> ast.AST | None:
    """B if `val` is ``Hop(Peer(<crypto>.key_from_public_bin(B)), ..)`` - as written (through single-assignment locals), else after expansion"""
    def path(step):
        h = step(val)
        pe = step(arg(h, 0, "peer")) if isinstance(h, ast.Call) and chain(h.func) == "Hop" and arg(h, 0, "peer") is not None else None
        k = step(arg(pe, 0, "key")) if isinstance(pe, ast.Call) and chain(pe.func) == "Peer" and arg(pe, 0, "key") is not None else None
        return arg(k, 0) if isinstance(k, ast.Call) and call_name(k) == "key_from_public_bin" and len(k.args) + len(k.keywords) == 1 else None

    b = path(lambda e: resolve(v.fi, e))
    if b is not None:
        return b
    keep = frozenset(n for n in {x.id for x in ast.walk(v.fi.node) if isinstance(x, ast.Name)} if len(local_defs(v.fi, n)) > 1)
    h = v.expand(val, keep=keep)
    return path(lambda e: strip_cast(e) if e is not h else h)


def rule_unverified_hop_writers(ctx: Ctx) -> None:
    repo = ctx.repo
    ours = _ours(ctx)
    sic = repo.method("TunnelCommunity", "send_initial_create", TC)
    se = repo.method("TunnelCommunity", "send_extend", TC)
    cinit = repo.method("Circuit", "__init__", TU)
    # the closed set of writers: the four reviewed functions plus new helpers only they reach (analysed with bound parameters)
    owner: dict[FuncInfo, tuple[FuncInfo, _View]] = {}
    for root in (cinit, ours, sic, se):
        views = _entry(ctx, root).closure()
        members = _closure_functions(views)
        for v in views:
            if v.fi is not root and any(f is None or f not in members for _, f, _c in repo.callers_of_name(v.fi.name)):
                continue        # also reachable from elsewhere: not a private part of this writer
            owner.setdefault(v.fi, (root, v))
    n = 0
    for m in repo.modules.values():
        for node in ast.walk(m.tree):
            if isinstance(node, ast.Attribute) and node.attr == "unverified_hop" and isinstance(node.ctx, ast.Store):
                fi = repo.function_of(node)
                st = enclosing_stmt(node)
                n += 1
                root, v = owner.get(fi, (None, None)) if fi is not None else (None, None)
                q = root.qualname if root else (fi.qualname if fi else "?")
                val = st.value if isinstance(st, (ast.Assign, ast.AnnAssign)) else None
                if val is not None and isinstance(st, ast.Assign) and isinstance(st.value, ast.Tuple):
                    # element-wise tuple assignment: the element stored into this target
                    for t in st.targets:
                        if isinstance(t, (ast.Tuple, ast.List)) and len(t.elts) == len(st.value.elts) and node in t.elts:
                            val = st.value.elts[t.elts.index(node)]
                ok = False
                if root is None or val is None:
                    ok = False
                elif root is cinit or root is ours:
                    ok = const_value(strip_cast(val)) is None
                elif root is sic:
                    h = v.expand(val)
                    cand = root.params()[2]
                    ok = isinstance(h, ast.Call) and chain(h.func) == "Hop" and _snorm(arg(h, 0, "peer")) == f"{cand}[0]" \
                        and not local_defs(root, cand)
                elif root is se:
                    # Hop(Peer(key_from_public_bin(<B>))): B is the key of the node chosen to extend to (its pairing with the
                    # address that is named is checked below)
                    b = _extend_key_source(v, val)
                    ok = b is not None and const_value(strip_cast(b)) is NOCONST
                ctx.check(ok, "selected-peer-key", fi or m.relpath, st, f"unverified_hop written in {q} from the chosen candidate",
                          "the hop awaiting verification is set from something other than the candidate the originator selected")
    ctx.floor("selected-peer-key.writers", n, 4)
    # the extend request names the same key that will be verified
    for c in calls(se, "ExtendPayload"):
        pa = _pargs(c, ["circuit_id", "identifier", "node_public_key", "key", "node_addr"], se) or [None] * 5
        a2, a3 = (strip_cast(x) if x is not None else None for x in pa[2:4])
        ok = isinstance(a2, ast.Attribute) and a2.attr == "public_key_bin" and _is_pending_hop(ctx, se, a2.value, c) \
            and isinstance(a3, ast.Attribute) and a3.attr == "dh_first_part" and _is_pending_hop(ctx, se, a3.value, c)
        ctx.check(ok, "selected-peer-key", se, c, "extend request carries unverified_hop's key and DH part",
                  "the extend request names a different node than the one whose key will be verified")
    sv = _body_view(ctx, sic)
    for c in calls(sic, "CreatePayload"):
        pa = _pargs(c, ["circuit_id", "identifier", "node_public_key", "key"], sic) or [None] * 4
        a3 = strip_cast(pa[3]) if pa[3] is not None else None
        ok = isinstance(a3, ast.Attribute) and a3.attr == "dh_first_part" and _is_pending_hop(ctx, sic, a3.value, c)
        ctx.check(ok, "selected-peer-key", sic, c, "create request carries unverified_hop's DH part", "create carries another DH part")
        # the create goes to the address of the selected first hop: the candidate itself, or the peer of the pending hop
        snd = [s for s in calls(sic, "self.send_cell") if any(x is c for x in ast.walk(s))] or calls(sic, "self.send_cell")
        ok = False
        if snd:
            dest = sv.expand(arg(snd[0], 0))
            raw = resolve(sic, arg(snd[0], 0))
            ok = norm(dest) == f"{sic.params()[2]}[0].address" and not local_defs(sic, sic.params()[2])
            if not ok and isinstance(raw, ast.Attribute) and raw.attr == "address":
                b = strip_cast(raw.value)
                if isinstance(b, ast.Attribute) and b.attr == "peer":
                    b = b.value                      # Hop.address is Hop.peer.address
                ok = _is_pending_hop(ctx, sic, b, snd[0])
        ctx.check(ok, "selected-peer-key", sic, c,
                  "create is sent to the selected first hop", "create is sent to a peer other than the selected first hop")
    _extend_names_one_node(ctx, se)
    # dh_secret generated per attempt
    for fi in (sic, se):
        g = [c for v in _entry(ctx, fi).closure() for c in calls(v.fi) if call_name(c) == "generate_diffie_secret"]
        ctx.check(len(g) == 1, "selected-peer-key", fi, fi.node, f"{fi.name}: fresh DH secret per attempt", "DH secret is not generated per attempt")
    _fresh_dh_secret(ctx)


def _dh_component(v: _View, e: ast.AST | None, idx: int | None) -> int | None:
    """i if e (or element idx of e, when e is unpacked) is element i of the result of a generate_diffie_secret() call made in this function; else None"""
    e = strip_cast(e) if e is not None else None
    if idx is not None and isinstance(e, (ast.Tuple, ast.List)) and idx < len(e.elts) and not any(isinstance(x, ast.Starred) for x in e.elts):
        e, idx = e.elts[idx], None
    comp = _component(v, e)
    if comp is None or not (isinstance(_callee(comp[0]), (ast.Attribute, ast.Name)) and call_name(comp[0]) == "generate_diffie_secret") \
            or comp[0].args or comp[0].keywords:
        # through a new helper that returns the pair (followed by expand)
        x = v.expand(e) if e is not None else None
        if idx is None and isinstance(x, ast.Subscript) and isinstance(const_value(x.slice), int) and not isinstance(const_value(x.slice), bool):
            idx, x = const_value(x.slice), strip_cast(x.value)
        if isinstance(x, ast.Call) and isinstance(x.func, (ast.Attribute, ast.Name)) and call_name(x) == "generate_diffie_secret" and not x.args and not x.keywords:
            return idx
        return None
    key = comp[1]
    if key is None:
        return idx
    return key if idx is None and isinstance(key, int) else None


def _fresh_dh_secret(ctx: Ctx) -> None:
    """
    The originator's ephemeral DH key is what ties an answer to ONE attempt: the authenticator only covers DH(ephemeral, ephemeral), and the
    16-bit identifier is seen by every relay on the path.  Every value stored as a hop's ``dh_secret`` (attribute store or Hop(..) argument) is
    therefore element 0 of a generate_diffie_secret() call of its own (or None), and ``dh_first_part`` element 1.
    """
    repo = ctx.repo
    want = {"dh_secret": 0, "dh_first_part": 1}
    sites: list = []      # (function, statement / call, field, value expression, element index when the value is unpacked)
    for m in repo.modules.values():
        if not m.relpath.startswith("ipv8/messaging/anonymization/"):
            continue
        for node in ast.walk(m.tree):
            if isinstance(node, ast.Attribute) and node.attr in want and isinstance(node.ctx, ast.Store):
                fi, st = repo.function_of(node), enclosing_stmt(node)
                val = idx = None
                if isinstance(st, ast.AnnAssign):
                    val = st.value if st.target is node else None
                elif isinstance(st, ast.Assign):
                    for t in st.targets:
                        if t is node:
                            val = st.value
                        elif isinstance(t, (ast.Tuple, ast.List)) and any(x is node for x in t.elts) and not any(isinstance(x, ast.Starred) for x in t.elts):
                            val, idx = st.value, [x is node for x in t.elts].index(True)
                sites.append((fi, st, node.attr, val, idx))
            elif isinstance(node, ast.Call) and isinstance(_callee(node), (ast.Name, ast.Attribute)) and call_name(node) == "Hop":
                pa = _pargs(node, ["peer", "keys", "flags", "dh_first_part", "dh_secret"])
                fi = repo.function_of(node)
                if pa is None:
                    if any(isinstance(a, ast.Starred) for a in node.args) or any(k.arg is None for k in node.keywords):
                        raise AnalysisError(f"undecided: Hop(..) built from spread arguments in {fi.qualname if fi else m.relpath}")
                    continue
                for f, i in ((n, 3 + k) for k, n in enumerate(("dh_first_part", "dh_secret"))):
                    if pa[i] is not None:
                        sites.append((fi, node, f, pa[i], None))
    n = 0
    for fi, st, field, val, idx in sites:
        if val is not None and idx is None and const_value(strip_cast(val)) is None:
            continue        # reset
        n += field == "dh_secret"
        ok = False
        if fi is not None and val is not None:
            ok = _dh_component(_View(ctx, fi), val, idx) == want[field]
        ctx.check(ok, "fresh-dh-secret", fi or "?", st, f"hop.{field} is element {want[field]} of a generate_diffie_secret() call made for this hop",
                  f"`{norm(st)[:80]}` in {fi.qualname if fi else '?'} sets a hop's {field} from something other than a fresh generate_diffie_secret() result: "
                  "the originator's ephemeral key is the only thing besides the 16-bit identifier (which every relay on the path sees) that ties a "
                  "created/extended answer to one attempt (the authenticator covers only the ephemeral-ephemeral term); with a key that is reused, "
                  "carried over or supplied from elsewhere an answer produced for an earlier attempt towards another candidate verifies for this hop, "
                  "and the hop list names a peer the keys were not negotiated with")
    ctx.floor("fresh-dh-secret", n, 2)


def _closed_members(ctx: Ctx, root: FuncInfo) -> set[FuncInfo]:
    """root and the new helpers that only root (transitively) calls"""
    members = _closure_functions(_entry(ctx, root).closure())
    changed = True
    while changed:
        changed = False
        for f in list(members):
            if f is not root and any(g is None or g not in members for _, g, _c in ctx.repo.callers_of_name(f.name)):
                members.discard(f)
                changed = True
    return members


_DICT_ADD = ("update", "setdefault", "__setitem__", "__ior__")
_DICT_DEL = ("pop", "popitem", "clear", "__delitem__")


def rule_responder_keying(ctx: Ctx) -> None:
    """
    The answering side of a hop: the exit socket of a circuit id carries the session keys negotiated with whoever sent the
    CREATE.  It is installed only by join_circuit, only for a circuit id that is in no table (checked after the last suspension
    point, so that no second CREATE for the id slipped in between), and removed only by remove_exit_socket - a CREATE, which is
    unauthenticated plaintext, can never re-key or take over an established hop.
    """
    repo = ctx.repo
    jc = repo.method("TunnelCommunity", "join_circuit", TC)
    rex = repo.method("TunnelCommunity", "remove_exit_socket", TC)
    may_install, may_remove = _closed_members(ctx, jc), _closed_members(ctx, rex)
    n = 0
    for m, fi, a in repo.attribute_uses("exit_sockets"):
        par = parent(a)
        st = enclosing_stmt(a)
        kind = None
        if isinstance(a.ctx, ast.Store):
            kind = "bind"
        elif isinstance(par, ast.Subscript) and par.value is a and isinstance(par.ctx, ast.Store):
            kind = "install"
        elif isinstance(par, ast.Subscript) and par.value is a and isinstance(par.ctx, ast.Del):
            kind = "remove"
        elif isinstance(par, ast.Attribute) and isinstance(parent(par), ast.Call) and parent(par).func is par:
            kind = "install" if par.attr in _DICT_ADD else "remove" if par.attr in _DICT_DEL else None
        elif isinstance(par, ast.AugAssign) and par.target is a:
            kind = "install"
        if kind is None:
            continue
        n += 1
        if kind == "bind":
            ctx.check(fi is not None and fi.name == "__init__", "responder-keying", fi or m.relpath, st, "exit_sockets bound at construction only",
                      "the table of exit sockets (answering ends of hops and their keys) is replaced after construction")
        elif kind == "install":
            ctx.check(fi is not None and fi in may_install, "responder-keying", fi or m.relpath, st, "exit socket installed by join_circuit only",
                      "an exit socket (the answering end of a hop with its session keys) is installed outside join_circuit: "
                      "a hop can be keyed without the create handshake and its in-use check")
        else:
            ctx.check(fi is not None and fi in may_remove, "responder-keying", fi or m.relpath, st, "exit socket removed by remove_exit_socket only",
                      f"{fi.qualname if fi else m.relpath} removes an exit socket itself: once the established answering end of a hop is gone the "
                      "in-use check of join_circuit passes again, so an (unauthenticated) CREATE for that circuit id re-keys the hop with whoever sent it")
    ctx.floor("responder-keying", n, 4)
    need = {"self.exit_sockets", "self.relay_from_to", "self.circuits"}

    def unused_id_known(views: list[_View]) -> tuple[bool, int]:
        ok, cnt = True, 0
        for v in views:
            for st, k, val in _route_installs(v, "self.exit_sockets"):
                cnt += 1
                have = {norm(rt) for op, pos, l, rt in _xfacts(v, st, fresh=True) if op == "in" and not pos and rt is not None and norm(l) == norm(k)}
                ok = ok and need <= have
        return ok, cnt

    root = _entry(ctx, jc)
    ok, cnt = unused_id_known(root.closure())
    ctx.anchor(cnt, "exit socket installation in join_circuit")
    if not ok:
        # the check may live in the callers instead - then in every caller, after its last suspension point
        callers = [(g, c) for _, g, c in repo.callers_of_name("join_circuit") if g is not None and g not in may_install]
        ok = bool(callers)
        for g, c in callers:
            w = _body_view(ctx, g).bind_call(jc, c)
            ok = ok and w is not None and unused_id_known(w.closure())[0]
    sites = [st for v in root.closure() for st, k, val in _route_installs(v, "self.exit_sockets")]
    ctx.check(ok, "responder-keying", jc, sites[0],
              "exit socket installed only for a circuit id that is not in circuits / relay_from_to / exit_sockets, tested after the last await",
              "join_circuit installs self.exit_sockets[circuit_id] (new session keys for the hop towards the sender of the CREATE) without a "
              "dominating in-use test of that id made after the last suspension point: a second CREATE for the same circuit id "
              "(duplicate in flight, or forged - CREATE is plaintext) re-keys an established hop, and the originator's keys match nobody")


def _reaching_defs(v: _View, e: ast.AST) -> list[tuple[ast.AST | None, ast.AST | None, int | None]]:
    e = strip_cast(e)
    if isinstance(e, ast.Name) and not is_param(v.fi, e.id) and local_defs(v.fi, e.id):
        return list(local_defs(v.fi, e.id))
    return [(None, e, None)]


def _jointly_reach(v: _View, sb, sa, kb: list, ka: list, site_nodes: list) -> bool:
    """
    Some path reaches the site on which the last definition of the key local is statement sb and the last definition of the
    address local is statement sa (None: the expression is not a local with definitions).  kb / ka: all defining statements.
    """
    cfg = v.cfg

    def nodes(stmts, *, but=()):
        return [n for s in stmts if not any(s is x for x in but) for n in cfg.nodes_for(s)]

    nb = cfg.nodes_for(sb) if sb is not None else []
    na = cfg.nodes_for(sa) if sa is not None else []
    later = nodes(kb, but=(sb,)) + nodes(ka, but=(sa,))          # any of these after both definitions replaces one of them
    later = [n for n in later if n not in nb and n not in na and n not in site_nodes]
    if sb is None and sa is None:
        return True
    if sb is None or sa is None or sb is sa:
        first = nb or na
        return any(n in cfg.reach(first, cut_nodes=[x for x in later if x not in first]) for n in site_nodes)
    b_kills_a, a_kills_b = any(sb is s for s in ka), any(sa is s for s in kb)
    # sb first, then sa: nothing may redefine the key in between (sa itself must not), afterwards nothing may redefine either
    if not a_kills_b:
        mid = [n for n in nodes(kb, but=(sb,)) if n not in nb and n not in site_nodes]
        if any(n in cfg.reach(nb, cut_nodes=mid) for n in na) and any(n in cfg.reach(na, cut_nodes=[x for x in later + nb if x not in na]) for n in site_nodes):
            return True
    if not b_kills_a:
        mid = [n for n in nodes(ka, but=(sa,)) if n not in na and n not in site_nodes]
        if any(n in cfg.reach(na, cut_nodes=mid) for n in nb) and any(n in cfg.reach(nb, cut_nodes=[x for x in later + na if x not in nb]) for n in site_nodes):
            return True
    return False


def _target_pairs(v: _View, eb: ast.AST, ea: ast.AST, site, depth: int = 3) -> list[tuple[_View, ast.AST, ast.AST]]:
    """(view, key expression, address expression) for every pair of definitions that can be current together at the site"""
    if const_value(strip_cast(ea)) == ("0.0.0.0", 0):
        return [(v, eb, ea)]        # no address is named: nothing to pair the key with, however it is bound
    cb, ca = _component(v, eb), _component(v, ea)
    if cb is not None and ca is not None and cb[0] is ca[0] and cb[1] is not None and ca[1] is not None and depth > 0 and v.helper_of(cb[0]) is not None:
        # both are components of the result of one call of a new helper: each of its returns gives a pair
        kv = v.helper_of(cb[0])
        out = []
        for r in [x for x in walk_no_nested(kv.fi.node) if isinstance(x, ast.Return)]:
            te = _ret_elts(kv, r.value)
            if te is None:
                raise AnalysisError(f"undecided: {kv.fi.qualname} does not return a tuple / record display at `{norm(r)[:60]}`")
            idx = [k if isinstance(k, int) else (te[1].index(k) if te[1] and k in te[1] else None) for k in (cb[1], ca[1])]
            if any(i is None or i >= len(te[0]) for i in idx):
                raise AnalysisError(f"undecided: component of the result of {kv.fi.qualname} at `{norm(r)[:60]}`")
            out += _target_pairs(kv, te[0][idx[0]], te[0][idx[1]], r, depth - 1)
        return out
    rb, ra = _reaching_defs(v, eb), _reaching_defs(v, ea)
    kb, ka = [s for s, _v, _i in rb if s is not None], [s for s, _v, _i in ra if s is not None]
    rb, ra = [d for d in rb if d[0] is not site], [d for d in ra if d[0] is not site]     # the site's own definitions come after it
    site_nodes = v.cfg.nodes_for(site) if isinstance(site, ast.AST) else [site]
    out = []
    for sb, vb, ib in rb:
        for sa, va, ia in ra:
            if not _jointly_reach(v, sb, sa, kb, ka, site_nodes):
                continue
            if ib is None and ia is None and vb is not None and va is not None:
                # a definition that merely keeps the current value (`x, y = x, other`, left by inlining) stands for the definitions before it
                keep_b = isinstance(strip_cast(vb), ast.Name) and isinstance(strip_cast(eb), ast.Name) and strip_cast(vb).id == strip_cast(eb).id
                keep_a = isinstance(strip_cast(va), ast.Name) and isinstance(strip_cast(ea), ast.Name) and strip_cast(va).id == strip_cast(ea).id
                if keep_b or keep_a:
                    sub = _target_pairs(v, eb if keep_b else vb, ea if keep_a else va, sb if keep_b else sa, depth - 1) if depth > 0 else []
                    if not sub:
                        raise AnalysisError(f"undecided: definitions of the node to extend to in {v.fi.qualname} (`{norm(sb)[:80]}`)")
                    out += sub
                    continue
                out.append((v, vb, va))
                continue
            call = strip_cast(vb) if vb is not None else None
            kv = v.helper_of(call) if sb is sa and vb is va and isinstance(call, ast.Call) else None
            if kv is None or depth <= 0 or ib is None or ia is None:
                raise AnalysisError(f"undecided: key and address of the node to extend to are bound in {v.fi.qualname} in a way that is not followed "
                                    f"(`{norm(sb or sa)[:80]}`)")
            for r in [x for x in walk_no_nested(kv.fi.node) if isinstance(x, ast.Return)]:
                te = _ret_elts(kv, r.value)
                if te is None or max(ib, ia) >= len(te[0]):
                    raise AnalysisError(f"undecided: {kv.fi.qualname} does not return a tuple display at `{norm(r)[:60]}`")
                out += _target_pairs(kv, te[0][ib], te[0][ia], r, depth - 1)
    return out


def _same_peer(v: _View, key: ast.AST, addr: ast.AST) -> bool:
    """key is X.public_key.key_to_bin() and addr is X.address for one peer object X (a call-free expression over stable names)"""
    key, addr = strip_cast(key), strip_cast(addr)
    if not (isinstance(addr, ast.Attribute) and addr.attr == "address"):
        return False
    if not (isinstance(key, ast.Call) and not key.args and not key.keywords and isinstance(key.func, ast.Attribute) and key.func.attr == "key_to_bin"
            and isinstance(key.func.value, ast.Attribute) and key.func.value.attr == "public_key"):
        return False
    x, y = strip_cast(addr.value), strip_cast(key.func.value.value)
    if norm(x) != norm(y) or any(isinstance(n, (ast.Call, ast.Await, ast.NamedExpr)) for n in ast.walk(x)):
        return False
    for nm in {n.id for n in ast.walk(x) if isinstance(n, ast.Name)}:
        if not is_param(v.fi, nm) and nm != "self" and len(local_defs(v.fi, nm)) != 1:
            return False
        if is_param(v.fi, nm) and local_defs(v.fi, nm):
            return False
    return True


def _extend_names_one_node(ctx: Ctx, se: FuncInfo) -> None:
    """
    The extend request names the next node by key and, where the relay cannot know it, by address.  Both must belong to the
    same peer: the relay connects to the address, the originator verifies (and lists) the key.
    """
    v = _body_view(ctx, se)
    for c in calls(se, "ExtendPayload"):
        pa = _pargs(c, ["circuit_id", "identifier", "node_public_key", "key", "node_addr"], se)
        if pa is None or pa[4] is None:
            continue
        # the key that is named: the one the pending hop was built from (checked by the writer rule): key_from_public_bin(<B>)
        keys = []
        for st, t in stores(se, "circuit.unverified_hop"):
            b = _extend_key_source(v, st.value) if isinstance(st, (ast.Assign, ast.AnnAssign)) and st.value is not None else None
            if b is not None:
                keys.append(b)
        if len(keys) != 1:
            continue        # reported by the writer rule
        bad = []
        for pv, kb, ka in _target_pairs(v, keys[0], pa[4], c):
            null_addr = const_value(strip_cast(ka)) == ("0.0.0.0", 0)
            no_key = const_value(strip_cast(kb)) is not NOCONST and not const_value(strip_cast(kb))
            if not (null_addr or no_key or _same_peer(pv, kb, ka)):
                bad.append(f"key `{norm(kb)[:50]}` with address `{norm(ka)[:50]}`")
        ctx.check(not bad, "selected-peer-key", se, c, "extend request: key and address of the next node belong to one peer (or no address is given)",
                  "send_extend names the next node by the key of one peer and the address of another (" + "; ".join(bad) + "): the relay "
                  "sends the create to that address, a node other than the selected peer joins, and the originator lists - and derives keys for - "
                  "a peer that is not in the circuit")


def _is_hops(e: ast.AST) -> bool:
    return _snorm(e) == "self._hops"


def _copies_hops(e: ast.AST) -> bool:
    """e evaluates to a new sequence with exactly the elements of self._hops in order"""
    e = strip_cast(e)
    if _is_hops(e):
        return True
    if isinstance(e, (ast.List, ast.Tuple)) and len(e.elts) == 1 and isinstance(e.elts[0], ast.Starred):
        return _copies_hops(e.elts[0].value)
    if isinstance(e, ast.Call) and isinstance(e.func, ast.Name) and e.func.id in ("list", "tuple") and len(e.args) == 1 and not e.keywords:
        return _copies_hops(e.args[0])
    if isinstance(e, ast.Call) and isinstance(e.func, ast.Attribute) and e.func.attr == "copy" and not e.args and not e.keywords:
        return _is_hops(e.func.value)
    if isinstance(e, ast.Subscript) and isinstance(e.slice, ast.Slice) and e.slice.lower is None and e.slice.upper is None and e.slice.step is None:
        return _is_hops(e.value)
    if isinstance(e, (ast.GeneratorExp, ast.ListComp)) and len(e.generators) == 1:
        g = e.generators[0]
        return not g.ifs and not g.is_async and isinstance(g.target, ast.Name) and isinstance(e.elt, ast.Name) and e.elt.id == g.target.id \
            and _copies_hops(g.iter)
    return False


def _is_tuple_copy_of_hops(e: ast.AST) -> bool:
    e = strip_cast(e)
    if isinstance(e, ast.Call) and isinstance(e.func, ast.Name) and e.func.id == "tuple" and len(e.args) == 1 and not e.keywords:
        return _copies_hops(e.args[0])
    return isinstance(e, ast.Tuple) and len(e.elts) == 1 and isinstance(e.elts[0], ast.Starred) and _copies_hops(e.elts[0].value)


def _appends_only(fi: FuncInfo, st: ast.stmt) -> bool:
    """st rebinds / extends self._hops to `old elements + new ones` (the established prefix is kept in place)"""
    if isinstance(st, ast.AugAssign):
        return isinstance(st.op, ast.Add) and _is_hops(st.target) and isinstance(strip_cast(st.value), (ast.List, ast.Tuple))
    if isinstance(st, ast.Assign) and len(st.targets) == 1 and _is_hops(st.targets[0]):
        v = resolve(fi, st.value)
        if isinstance(v, ast.BinOp) and isinstance(v.op, ast.Add):
            return _copies_hops(v.left) and isinstance(strip_cast(v.right), (ast.List, ast.Tuple)) and not isinstance(strip_cast(v.left), ast.Tuple)
        if isinstance(v, ast.List) and v.elts and isinstance(v.elts[0], ast.Starred):
            return _copies_hops(v.elts[0].value) and not any(isinstance(x, ast.Starred) for x in v.elts[1:])
    return False


def rule_append_only(ctx: Ctx) -> None:
    repo = ctx.repo
    circ = repo.cls("Circuit", TU)
    n = 0
    for m in repo.modules.values():
        for node in ast.walk(m.tree):
            if isinstance(node, ast.Attribute) and node.attr == "_hops":
                fi = repo.function_of(node)
                n += 1
                inside = fi is not None and fi.cls is circ
                ctx.check(inside, "hops-append-only", fi or m.relpath, enclosing_stmt(node), "_hops touched only inside Circuit",
                          "Circuit._hops is accessed from outside the Circuit class")
                if not inside:
                    continue
                par = getattr(node, "_parent", None)
                if isinstance(node.ctx, ast.Store):
                    st = enclosing_stmt(node)
                    ctx.check(fi.name == "__init__" or fi.name == "add_hop" and _appends_only(fi, st), "hops-append-only", fi, st,
                              "_hops assigned only in __init__ (add_hop may extend it in place)",
                              "the hop list of a circuit is replaced after construction")
                elif isinstance(par, ast.Attribute) and isinstance(getattr(par, "_parent", None), ast.Call):
                    call = par._parent
                    grows = par.attr == "append" or \
                        par.attr == "extend" and len(call.args) == 1 and not call.keywords and isinstance(strip_cast(call.args[0]), (ast.List, ast.Tuple)) or \
                        par.attr == "insert" and len(call.args) == 2 and not call.keywords and _snorm(call.args[0]) == "len(self._hops)"
                    reads = par.attr in ("copy", "index", "count") or par.attr.startswith("__") and par.attr in ("__len__", "__iter__", "__getitem__", "__contains__")
                    ctx.check(reads or grows and fi.name == "add_hop", "hops-append-only", fi, enclosing_stmt(node),
                              f"_hops.{par.attr} in {fi.name}", f"the hop list is mutated with `{par.attr}` (established hops can change)")
                elif isinstance(par, ast.Subscript) and isinstance(par.ctx, (ast.Store, ast.Del)):
                    ctx.check(False, "hops-append-only", fi, enclosing_stmt(node), "no element assignment", "an established hop is overwritten")
    ctx.floor("hops-append-only", n, 4)
    hp = circ.methods.get("hops")
    rets = [r for r in walk_no_nested(hp.node) if isinstance(r, ast.Return)]
    ok = bool(rets) and all(r.value is not None and (_is_tuple_copy_of_hops(resolve(hp, r.value)) or const_value(r.value) == ()) for r in rets)
    ctx.check(ok, "hops-append-only", hp, hp.node, "Circuit.hops returns a tuple copy", "Circuit.hops hands out the mutable hop list")
    allowed = _closure_functions(_entry(ctx, _ours(ctx)).closure())
    for m, fi, c in repo.callers_of_name("add_hop"):
        if fi is None:
            continue
        ctx.check(fi in allowed, "hops-append-only", fi, c,
                  f"add_hop called from {fi.qualname}", "hops are appended outside the verified create/extend completion")
    # hop.keys of established hops: stores to `.keys` on hops only in _ours_on_created_extended
    for m in repo.modules.values():
        if not m.relpath.startswith("ipv8/messaging/anonymization/"):
            continue
        for node in ast.walk(m.tree):
            if isinstance(node, ast.Attribute) and node.attr == "keys" and isinstance(node.ctx, ast.Store):
                fi = repo.function_of(node)
                ctx.check(fi is not None and fi in allowed, "hops-append-only", fi or m.relpath,
                          enclosing_stmt(node), "hop.keys assigned only on verified completion", "session keys of a hop are assigned elsewhere")


def _ctor_field_param(repo, clsname: str, relpath: str, attr: str) -> int | None:
    """index (among the call arguments) of the constructor parameter that `self.<attr>` is initialised from, if it is a plain copy"""
    init = repo.method(clsname, "__init__", relpath)
    sts = [s for s, t in stores(init, f"self.{attr}")]
    if len(sts) != 1 or not isinstance(sts[0], (ast.Assign, ast.AnnAssign)) or sts[0].value is None:
        return None
    v = strip_cast(sts[0].value)
    ps = init.params()
    if isinstance(v, ast.Name) and v.id in ps and not local_defs(init, v.id):
        return ps.index(v.id) - 1
    return None


def _row_items(v: _View, it: ast.AST) -> list[list[ast.AST]] | None:
    """
    The rows of an evident finite iterable of tuples: a display of tuples (directly or in a single-assignment local),
    ``zip(<a, b>, <c, d>)`` and ``{k: v, ..}.items()``.  None: not evident.
    """
    it = resolve(v.fi, it)
    mod = v.fi.module
    if isinstance(it, ast.Call) and not it.keywords and not any(isinstance(a, ast.Starred) for a in it.args):
        if _is_builtin(mod, it.func, "zip") and it.args:
            cols = [_seq_items(resolve(v.fi, a), mod) for a in it.args]
            if any(c is None for c in cols) or len({len(c) for c in cols}) != 1:
                return None
            return [list(r) for r in zip(*cols)]
        if isinstance(it.func, ast.Attribute) and it.func.attr == "items" and not it.args:
            d = resolve(v.fi, it.func.value)
            if isinstance(d, ast.Dict) and all(k is not None for k in d.keys):
                return [[k, val] for k, val in zip(d.keys, d.values)]
            return None
        if len(it.args) == 1 and any(_is_builtin(mod, it.func, n) for n in ("list", "tuple", "iter")):
            return _row_items(v, it.args[0])
    its = _seq_items(it, mod)
    if its is None:
        return None
    rows = []
    for x in its:
        x = resolve(v.fi, x)
        if not isinstance(x, (ast.Tuple, ast.List)) or any(isinstance(y, ast.Starred) for y in x.elts):
            return None
        rows.append(list(x.elts))
    return rows


def _mapping_rows(v: _View, e: ast.AST) -> list[list[ast.AST]] | None:
    """(key, value) rows of an evident mapping argument: a dict display, ``dict(<pairs>)``, or a sequence of pairs"""
    d = resolve(v.fi, e)
    if isinstance(d, ast.Dict):
        return [[k, val] for k, val in zip(d.keys, d.values)] if all(k is not None for k in d.keys) else None
    if isinstance(d, ast.Call) and _is_builtin(v.fi.module, d.func, "dict") and len(d.args) == 1 and not d.keywords:
        return _mapping_rows(v, d.args[0])
    rows = _row_items(v, d)
    return rows if rows is not None and all(len(r) == 2 for r in rows) else None


def _route_installs(v: _View, table: str = "self.relay_from_to") -> list[tuple[ast.AST, ast.AST | None, ast.AST | None]]:
    """(statement, key, value) - expanded - for every way view v puts an entry into the dict `table` (self.relay_from_to)"""
    out = []

    def alternatives(k: ast.AST, val: ast.AST | None):
        # a key / value taken from a for-loop over an evident sequence of tuples stands for each of its elements
        names = {x.id for e in (k, val) if e is not None for x in ast.walk(e) if isinstance(x, ast.Name)}
        for nm in names:
            d = local_defs(v.fi, nm)
            if len(d) == 1 and isinstance(d[0][0], (ast.For, ast.AsyncFor)):
                loop = d[0][0]
                tg = loop.target
                rows = _row_items(v, loop.iter)
                if rows and isinstance(tg, (ast.Tuple, ast.List)) and all(isinstance(x, ast.Name) for x in tg.elts) \
                        and all(len(row) == len(tg.elts) for row in rows):
                    return [{t.id: v.expand(x) for t, x in zip(tg.elts, row)} for row in rows]
        return [{}]

    def add(st, k, val):
        for env in alternatives(k, val):
            out.append((st, v.expand(k, env=env), v.expand(val, env=env) if val is not None else None))

    for st in walk_no_nested(v.fi.node):
        targets = st.targets if isinstance(st, (ast.Assign, ast.Delete)) else [st.target] if isinstance(st, (ast.AugAssign, ast.AnnAssign)) else []
        for t in targets:
            elts = t.elts if isinstance(t, (ast.Tuple, ast.List)) else [t]
            for i, e in enumerate(elts):
                if isinstance(e, ast.Subscript) and v.xn(e.value) == table and not isinstance(st, ast.Delete):
                    val = None
                    if isinstance(st, ast.Assign):
                        if e is t:
                            val = st.value
                        elif isinstance(strip_cast(st.value), (ast.Tuple, ast.List)) and len(strip_cast(st.value).elts) == len(elts):
                            val = strip_cast(st.value).elts[i]
                    elif isinstance(st, ast.AnnAssign):
                        val = st.value
                    add(st, e.slice, val)
    for c in calls(v.fi):
        cf = _callee(c)
        if not isinstance(cf, ast.Attribute) or v.xn(cf.value) != table:
            continue
        st = enclosing_stmt(c)
        if cf.attr == "__setitem__" and len(c.args) == 2 and not c.keywords:
            add(st, c.args[0], c.args[1])
        elif cf.attr == "setdefault" and len(c.args) == 2 and not c.keywords:
            add(st, c.args[0], c.args[1])
        elif cf.attr == "update":
            rows = _mapping_rows(v, c.args[0]) if len(c.args) == 1 and not c.keywords else None
            if rows is None:
                raise AnalysisError(f"undecided: {table}.update(..) in {v.fi.qualname} with something other than an evident mapping / sequence of pairs")
            for k, val in rows:
                add(st, k, val)
    for st in walk_no_nested(v.fi.node):
        if isinstance(st, ast.AugAssign) and isinstance(st.op, ast.BitOr) and v.xn(st.target) == table:
            rows = _mapping_rows(v, st.value)
            if rows is None:
                raise AnalysisError(f"undecided: `{table} |= ..` in {v.fi.qualname} with something other than an evident mapping")
            for k, val in rows:
                add(st, k, val)
    return out


def _keyerror_handled(v: _View, call: ast.Call) -> bool:
    """an exception raised by the statement of `call` goes to an ``except`` clause that catches KeyError (it never leaves the function)"""
    nodes = v.cfg.nodes_for(call)
    if not nodes:
        return False
    for n in nodes:
        exc = [w for w, lab in n.succ if lab == "exc"]
        if not exc:
            return False
        for d in exc:
            if d.kind != "dispatch" or not isinstance(d.ast, ast.Try):
                return False
            caught = False
            for h in d.ast.handlers:
                types = [] if h.type is None else (h.type.elts if isinstance(h.type, ast.Tuple) else [h.type])
                if h.type is None or any(chain(t) in ("KeyError", "LookupError", "Exception", "BaseException") for t in types):
                    caught = True
            if not caught:
                return False
    return True


def rule_relay_pairing(ctx: Ctx) -> None:
    repo = ctx.repo
    oe = repo.method("TunnelCommunity", "on_extend", TC)
    ev = _entry(ctx, oe)
    pe = oe.params()[2]
    ctors = ctx.anchor([(v, c) for v in ev.closure() for c in calls(v.fi, "CreateRequestCache")], "CreateRequestCache in on_extend")
    v0, c = ctors[0]
    pa = _pargs(c, ["community", "identifier", "to_circuit_id", "from_circuit_id", "peer", "to_peer"], v0.fi) or [None] * 6
    new_ids = [x for v in ev.closure() for x in calls(v.fi, "self._generate_circuit_id")]
    ok = len(ctors) == 1 and len(new_ids) == 1 and [v0.xn(x) for x in pa[:4]] == ["self", f"{pe}.identifier", "self._generate_circuit_id()", f"{pe}.circuit_id"] \
        and not local_defs(oe, pe)
    ct = v0.xn(c)
    cps = [(v, x) for v in ev.closure() for x in calls(v.fi, "CreatePayload")]
    if ok and len(cps) == 1:
        v1, cp = cps[0]
        qa = _pargs(cp, ["circuit_id", "identifier", "node_public_key", "key"], v1.fi) or [None] * 4
        to_field = _ctor_field_param(repo, "CreateRequestCache", CA, "to_circuit_id")
        # the forwarded create runs under the circuit id the relay just generated (the local, or the field the cache copied it to)
        ok = (v1.xn(qa[0]) == "self._generate_circuit_id()" or v1.xn(qa[0]) == f"{ct}.to_circuit_id" and to_field == 2) \
            and v1.xn(qa[1]) == f"{ct}.number" and v1.xn(qa[3]) == f"{pe}.key"
    else:
        ok = False
    ctx.check(ok, "relay-pairing", oe, c, "on_extend: cache(extend id, new to_circuit_id, from circuit) and create(to_circuit_id, cache.number, .., payload.key)",
              "the relay does not pair the forwarded create with the pending extend (identifier / circuit ids / key material)")
    oc = repo.method("TunnelCommunity", "on_created", TC)
    ov = _entry(ctx, oc)
    views = ov.closure()
    pl = oc.params()[2]
    pops = [(v, p) for v in views for p in calls(v.fi) if isinstance(_callee(p), ast.Attribute) and _callee(p).attr == "pop"
            and v.xn(_callee(p).value) == "self.request_cache" and chain(arg(p, 0)) == "CreateRequestCache"]
    ctx.anchor(pops, "CreateRequestCache pop in on_created")
    for v, p in pops:
        xf = _xfacts(v, p)
        key = v.xn(arg(p, 1))
        # the pending extend exists: has() / a live get() for the same key dominates, or the KeyError of pop() is handled
        exists = _keyerror_handled(v, p)
        for op, pos, l, rt in xf:
            live = op == "truthy" and pos or op == "is" and not pos and rt is not None and const_value(rt) is None
            if live and norm(l) in (f"self.request_cache.has(CreateRequestCache, {key})", f"self.request_cache.get(CreateRequestCache, {key})"):
                exists = True
        ok = key == f"{pl}.identifier" and not local_defs(oc, pl) and len(p.args) == 2 and not p.keywords and exists
        ctx.check(ok, "relay-pairing", v.fi, p, "created consumed by payload.identifier only when such a cache exists (has before pop)",
                  "a created answer is paired with a pending extend without checking the cache exists / by another key",
                  [f"{op}{'' if pos else '-not'}: {norm(l)}" for op, pos, l, rt in xf])
    # ---- the routes installed for the new hop are those of the pending extend *as the relay stored it*
    one_pop = len(pops) == 1
    # the popped CreateRequestCache, in on_created's terms: the result of the pop, or of a get() with the same arguments
    # (the same object: nothing runs between the two in this non-suspending handler)
    reqs = {pops[0][0].xn(pops[0][1]), f"self.request_cache.get(CreateRequestCache, {pops[0][0].xn(arg(pops[0][1], 1))})"}
    req = pops[0][0].xn(pops[0][1])

    def popped(x: _View) -> list[ast.AST]:
        return [p for w, p in pops if w is x]

    def req_attr(e: ast.AST | None) -> str | None:
        """attribute name if the (expanded) e is <popped request>.<attr>"""
        e = strip_cast(e) if e is not None else None
        return e.attr if one_pop and isinstance(e, ast.Attribute) and norm(e.value) in reqs else None

    def from_exit_socket_keys(e: ast.AST | None) -> bool:
        """e is self.exit_sockets[<request>.from_circuit_id].hop.keys (the keys negotiated with the circuit owner's side)"""
        e = strip_cast(e) if e is not None else None
        if not (isinstance(e, ast.Attribute) and e.attr == "keys" and isinstance(e.value, ast.Attribute) and e.value.attr == "hop"):
            return False
        sock = strip_cast(e.value.value)
        if isinstance(sock, ast.Subscript):
            return chain(sock.value) == "self.exit_sockets" and req_attr(sock.slice) == "from_circuit_id"
        return isinstance(sock, ast.Call) and chain(sock.func) == "self.exit_sockets.get" and req_attr(arg(sock, 0)) == "from_circuit_id"

    def still_exit_socket(t: tuple) -> bool:
        """dominating fact: the origin circuit id of the pending extend is (still) an exit socket of this relay"""
        op, pos, l, rt = t
        if op == "in" and pos:
            return req_attr(l) == "from_circuit_id" and chain(rt) == "self.exit_sockets"
        if op == "truthy" and pos or op == "is" and not pos and rt is not None and const_value(rt) is None:
            return isinstance(l, ast.Call) and chain(l.func) == "self.exit_sockets.get" and req_attr(arg(l, 0)) == "from_circuit_id" \
                and (len(l.args) == 1 or const_value(l.args[1]) is None) and not l.keywords
        return False

    def socket_lookups(x: _View) -> list[ast.AST]:
        """statements that evaluate self.exit_sockets[<request>.from_circuit_id]: completing one normally means the key is present"""
        return [s for s in walk_no_nested(x.fi.node) if isinstance(s, ast.Subscript) and isinstance(s.ctx, ast.Load)
                and x.xn(s.value) == "self.exit_sockets" and req_attr(x.expand(s.slice)) == "from_circuit_id"]

    expect = {"to_circuit_id": ("from_circuit_id", "peer", "BACKWARD"), "from_circuit_id": ("to_circuit_id", "to_peer", "FORWARD")}
    seen = []
    for v in views:
        for st, k, val in _route_installs(v):
            xf = _xfacts(v, st)
            ka = req_attr(k)
            ok = ka in expect and isinstance(val, ast.Call) and chain(val.func) == "RelayRoute"
            if ok:
                seen.append(ka)
                other, peer, direction = expect[ka]
                hp = strip_cast(arg(val, 1, "hop"))
                ok = req_attr(arg(val, 0, "circuit_id")) == other and isinstance(hp, ast.Call) and chain(hp.func) == "Hop" \
                    and req_attr(arg(hp, 0, "peer")) == peer and from_exit_socket_keys(arg(hp, 1, "keys")) \
                    and _snorm(arg(val, 2, "direction")) == direction
            ok = ok and (any(still_exit_socket(t) for t in xf) or _always(v, v.cfg.nodes_for(st), socket_lookups))
            ok = ok and _always(v, v.cfg.nodes_for(st), popped)        # the pending extend was consumed: it cannot be answered twice
            ctx.check(ok, "relay-pairing", v.fi, st,
                      "relay route registered under the pending extend's own to/from circuit id (from the popped CreateRequestCache), "
                      "keyed from the origin's exit socket, only while the origin circuit still is an exit socket here",
                      "on_created installs relay_from_to[...] under a circuit id taken from the answer (or not from the relay's own "
                      "CreateRequestCache), or while the origin circuit is no longer an exit socket: a created answer carrying a foreign "
                      "circuit id, or one that answers an earlier abandoned extend attempt, rewires an already established hop of a circuit "
                      "whose originator is keyed with (and lists) another peer",
                      [f"{op}{'' if pos else '-not'}: {norm(l)}{' / ' + norm(rt) if rt is not None else ''}" for op, pos, l, rt in xf])
    ctx.check(sorted(seen) == sorted(expect), "relay-pairing", oc, oc.node,
              "on_created registers exactly the backward route under to_circuit_id and the forward route under from_circuit_id",
              "on_created does not register exactly one backward and one forward route for the pending extend")
    for v in views:
        for e in calls(v.fi, "ExtendedPayload"):
            pa = _pargs(e, ["circuit_id", "identifier", "key", "auth", "candidates_enc"], v.fi)
            ok = pa is not None and all(x is not None for x in pa)
            if ok:
                a0 = v.expand(pa[0])
                # the origin circuit: the request's from_circuit_id, or the circuit id of a RelayRoute constructed with it (the backward route)
                origin_ok = req_attr(a0) == "from_circuit_id" or (
                    isinstance(a0, ast.Attribute) and a0.attr == "circuit_id" and isinstance(strip_cast(a0.value), ast.Call)
                    and chain(strip_cast(a0.value).func) == "RelayRoute" and req_attr(arg(strip_cast(a0.value), 0, "circuit_id")) == "from_circuit_id")
                ok = origin_ok and req_attr(v.expand(pa[1])) == "extend_identifier" and not local_defs(oc, pl) \
                    and [v.xn(x) for x in pa[2:]] == [f"{pl}.key", f"{pl}.auth", f"{pl}.candidates_enc"]
            ctx.check(ok, "relay-pairing", v.fi, e, "extended answer = (origin circuit, extend identifier, key, auth, candidates) forwarded unchanged",
                      "the relay alters identifier or key material when forwarding created as extended")


def run(ctx: Ctx) -> None:
    rule_identifier(ctx)
    rule_verify_before_accept(ctx)
    rule_release_after_accept(ctx)
    rule_unverified_hop_writers(ctx)
    rule_append_only(ctx)
    rule_relay_pairing(ctx)
    rule_responder_keying(ctx)
    ctx.assume("X25519 / crypto_auth / HKDF in ipv8_rust_tunnels and OpenSSL keys are sound: equal inputs give equal session keys, crypto_auth_verify is a MAC check (trusted)")
    ctx.assume("replay of an old answer is excluded only through the fresh packet_identifier of each attempt (checked), not by exploring schedules")


WITNESSES = [
    {"name": "retry of an unanswered extend reuses the pending hop's ephemeral DH key", "file": TC, "rule": "fresh-dh-secret",
     "old": "            hop.dh_secret, hop.dh_first_part = self.crypto.generate_diffie_secret()\n            circuit.unverified_hop = hop",
     "new": "            pending = circuit.unverified_hop\n            hop.dh_secret, hop.dh_first_part = (pending.dh_secret, pending.dh_first_part) "
            "if pending and pending.dh_secret else self.crypto.generate_diffie_secret()\n            circuit.unverified_hop = hop"},
    {"name": "created accepted without identifier match", "file": TC, "rule": "identifier-match",
     "old": "        if cache and cache.packet_identifier == payload.identifier:\n            self._ours_on_created_extended(circuit_id, payload)",
     "new": "        if cache:\n            self._ours_on_created_extended(circuit_id, payload)"},
    {"name": "extended accepted with stale identifier", "file": TC, "rule": "identifier-match",
     "old": "        if not cache or cache.packet_identifier != payload.identifier:\n            self.logger.warning(\"Received unexpected extended for circuit %s\", circuit_id)\n            return\n",
     "new": "        if not cache:\n            self.logger.warning(\"Received unexpected extended for circuit %s\", circuit_id)\n            return\n"},
    {"name": "identifier reused across attempts", "file": CA, "rule": "identifier-match",
     "old": "self.packet_identifier = secrets.randbelow(2**16)", "new": "self.packet_identifier = circuit.circuit_id % 2**16"},
    {"name": "keys accepted when verification raises", "file": TC, "rule": "verify-before-accept",
     "old": """        try:
            shared_secret = self.crypto.verify_and_generate_shared_secret(hop.dh_secret, payload.key, payload.auth,
                                                                          hop.peer.public_key.get_crypt_pk())
            session_keys = self.crypto.generate_session_keys(shared_secret)
            hop.keys = session_keys

        except ValueError:
            self.remove_circuit(circuit.circuit_id, "error while verifying shared secret")
            return
""",
     "new": """        try:
            shared_secret = self.crypto.verify_and_generate_shared_secret(hop.dh_secret, payload.key, payload.auth,
                                                                          hop.peer.public_key.get_crypt_pk())
            session_keys = self.crypto.generate_session_keys(shared_secret)
            hop.keys = session_keys

        except Exception:
            self.logger.warning("error while verifying shared secret")
            session_keys = None
"""},
    {"name": "verification failure swallowed by contextlib.suppress", "rule": "verify-before-accept", "edits": [
        {"file": TC, "old": "from collections import Counter, defaultdict\n", "new": "from collections import Counter, defaultdict\nfrom contextlib import suppress\n"},
        {"file": TC,
         "old": """        try:
            shared_secret = self.crypto.verify_and_generate_shared_secret(hop.dh_secret, payload.key, payload.auth,
                                                                          hop.peer.public_key.get_crypt_pk())
            session_keys = self.crypto.generate_session_keys(shared_secret)
            hop.keys = session_keys

        except ValueError:
            self.remove_circuit(circuit.circuit_id, "error while verifying shared secret")
            return
""",
         "new": """        session_keys = None
        with suppress(ValueError):
            shared_secret = self.crypto.verify_and_generate_shared_secret(hop.dh_secret, payload.key, payload.auth,
                                                                          hop.peer.public_key.get_crypt_pk())
            session_keys = self.crypto.generate_session_keys(shared_secret)
            hop.keys = session_keys
"""}]},
    {"name": "auth check result ignored", "file": CR, "rule": "verify-before-accept",
     "old": "        if not crypto_auth_verify(auth, shared_secret[:32], dh_received):\n            raise CryptoException\n",
     "new": "        crypto_auth_verify(auth, shared_secret[:32], dh_received)\n"},
    {"name": "verify against key from the answer", "file": TC, "rule": "selected-peer-key",
     "old": "                                                                          hop.peer.public_key.get_crypt_pk())",
     "new": "                                                                          payload.key)"},
    {"name": "static part dropped from secret", "file": CR, "rule": "selected-peer-key",
     "old": "        s2 = dh_secret.diffie_hellman(b)\n", "new": "        s2 = dh_secret.diffie_hellman(dh_received)\n"},
    {"name": "hop list replaced", "file": TU, "rule": "hops-append-only",
     "old": "        self._hops.append(hop)\n", "new": "        self._hops = [*self._hops[:-1], hop] if self.unverified_hop is None and self._hops else [*self._hops, hop]\n"},
    {"name": "hops property leaks list", "file": TU, "rule": "hops-append-only",
     "old": "        return tuple(self._hops)", "new": "        return self._hops"},
    {"name": "unverified hop rewritten by answer", "file": TC, "rule": "selected-peer-key",
     "old": "        if cache and cache.packet_identifier == payload.identifier:\n            self._ours_on_created_extended(circuit_id, payload)",
     "new": "        if cache and cache.packet_identifier == payload.identifier:\n            self.circuits[circuit_id].unverified_hop = Hop(Peer(payload.key, source_address))\n            self._ours_on_created_extended(circuit_id, payload)"},
    {"name": "relay pairs created by circuit id", "file": TC, "rule": "relay-pairing",
     "old": "        if self.request_cache.has(CreateRequestCache, payload.identifier):\n            request = self.request_cache.pop(CreateRequestCache, payload.identifier)",
     "new": "        if self.request_cache.has(CreateRequestCache, payload.identifier):\n            request = self.request_cache.pop(CreateRequestCache, payload.identifier % 65536)"},
    {"name": "relay route registered under the circuit id of the answer", "file": TC, "rule": "relay-pairing",
     "old": "            self.relay_from_to[request.to_circuit_id] = bw_relay\n",
     "new": "            self.relay_from_to[circuit_id] = bw_relay\n"},
    {"name": "established relay rewired by a late created", "file": TC, "rule": "relay-pairing",
     "old": "            if request.from_circuit_id not in self.exit_sockets:\n                self.logger.info(\"Created for unknown exit socket %s\", request.from_circuit_id)\n                return\n            session_keys = self.exit_sockets[request.from_circuit_id].hop.keys\n",
     "new": "            if request.from_circuit_id not in self.exit_sockets and request.from_circuit_id not in self.relay_from_to:\n                self.logger.info(\"Created for unknown exit socket %s\", request.from_circuit_id)\n                return\n            session_keys = (self.exit_sockets.get(request.from_circuit_id) or self.relay_from_to[request.from_circuit_id]).hop.keys\n"},
    {"name": "presence test against a sentinel that is not the default of the lookup (never fails)", "file": TC, "rule": "relay-pairing",
     "old": "            if request.from_circuit_id not in self.exit_sockets:\n                self.logger.info(\"Created for unknown exit socket %s\", request.from_circuit_id)\n                return\n            session_keys = self.exit_sockets[request.from_circuit_id].hop.keys\n",
     "new": "            missing = object()\n            if (exit_socket := self.exit_sockets.get(request.from_circuit_id)) is missing:\n                self.logger.info(\"Created for unknown exit socket %s\", request.from_circuit_id)\n                return\n            session_keys = exit_socket.hop.keys\n"},
    {"name": "set-algebra presence test inverted (route installed when the origin is no exit socket)", "file": TC, "rule": "relay-pairing",
     "old": "            if request.from_circuit_id not in self.exit_sockets:\n                self.logger.info(\"Created for unknown exit socket %s\", request.from_circuit_id)\n                return\n            session_keys = self.exit_sockets[request.from_circuit_id].hop.keys\n",
     "new": "            if not self.exit_sockets.keys().isdisjoint({request.from_circuit_id}):\n                self.logger.info(\"Created for unknown exit socket %s\", request.from_circuit_id)\n                return\n            session_keys = self.exit_sockets.get(request.from_circuit_id).hop.keys\n"},
    {"name": "create carries the DH part of a hop that is not (always) the pending hop", "rule": "selected-peer-key", "edits": [
        {"file": TC,
         "old": "        circuit.unverified_hop = Hop(first_hop, flags=self.candidates.get(first_hop))\n        circuit.unverified_hop.dh_secret, circuit.unverified_hop.dh_first_part = self.crypto.generate_diffie_secret()\n",
         "new": "        new_hop = Hop(first_hop, flags=self.candidates.get(first_hop))\n        new_hop.dh_secret, new_hop.dh_first_part = self.crypto.generate_diffie_secret()\n        if circuit.unverified_hop is None:\n            circuit.unverified_hop = new_hop\n"},
        {"file": TC,
         "old": "                                                        circuit.unverified_hop.dh_first_part))",
         "new": "                                                        new_hop.dh_first_part))"}]},
    {"name": "old retry cache not popped on every path before the new attempt", "file": TC, "rule": "identifier-match",
     "old": "        if self.request_cache.has(RetryRequestCache, circuit.circuit_id):\n            self.request_cache.pop(RetryRequestCache, circuit.circuit_id)\n            self.logger.info(\"Retrying first hop",
     "new": "        if self.request_cache.has(RetryRequestCache, circuit.circuit_id) and max_tries > 1:\n            self.request_cache.pop(RetryRequestCache, circuit.circuit_id)\n            self.logger.info(\"Retrying first hop"},
    {"name": "relay substitutes key material", "file": TC, "rule": "relay-pairing",
     "old": "                           ExtendedPayload(bw_relay.circuit_id, request.extend_identifier,\n                                           payload.key, payload.auth, payload.candidates_enc))",
     "new": "                           ExtendedPayload(bw_relay.circuit_id, payload.identifier,\n                                           payload.key, payload.auth, payload.candidates_enc))"},
    {"name": "join_circuit keys a hop for a circuit id that already has an exit socket", "file": TC, "rule": "responder-keying",
     "old": "        if circuit_id in self.circuits or circuit_id in self.relay_from_to or circuit_id in self.exit_sockets:\n            self.logger.warning(\"Refusing to join",
     "new": "        if circuit_id in self.circuits or circuit_id in self.relay_from_to:\n            self.logger.warning(\"Refusing to join"},
    {"name": "in-use test of the circuit id made before the await of the join policy", "rule": "responder-keying", "edits": [
        {"file": TC,
         "old": "        if circuit_id in self.circuits or circuit_id in self.relay_from_to or circuit_id in self.exit_sockets:\n            self.logger.warning(\"Refusing to join circuit %d: circuit id is already in use\", circuit_id)\n            return\n\n",
         "new": ""},
        {"file": TC,
         "old": "        result = await self.should_join_circuit(payload, source_address)\n",
         "new": "        if (payload.circuit_id in self.circuits or payload.circuit_id in self.relay_from_to\n                or payload.circuit_id in self.exit_sockets):\n            return\n        result = await self.should_join_circuit(payload, source_address)\n"}]},
    {"name": "in-use test of the circuit id made by the caller after the await (still atomic with the installation)", "kind": "twin",
     "rule": "responder-keying", "at": "join_circuit", "edits": [
        {"file": TC,
         "old": "        if circuit_id in self.circuits or circuit_id in self.relay_from_to or circuit_id in self.exit_sockets:\n            self.logger.warning(\"Refusing to join circuit %d: circuit id is already in use\", circuit_id)\n            return\n\n",
         "new": ""},
        {"file": TC,
         "old": "        if result:\n            self.join_circuit(payload, source_address)\n",
         "new": "        if result:\n            if (payload.circuit_id in self.circuits or payload.circuit_id in self.relay_from_to\n                    or payload.circuit_id in self.exit_sockets):\n                return\n            self.join_circuit(payload, source_address)\n"}]},
    {"name": "a repeated create drops the established exit socket", "file": TC, "rule": "responder-keying",
     "old": "        result = await self.should_join_circuit(payload, source_address)\n",
     "new": "        self.exit_sockets.pop(payload.circuit_id, None)\n        result = await self.should_join_circuit(payload, source_address)\n"},
    {"name": "extend names the key of one peer and the address of another", "file": TC, "rule": "selected-peer-key",
     "old": "                    extend_hop_addr = peer.address\n", "new": "                    extend_hop_addr = choices[0].address\n"},
    {"name": "an unexpected created answer tears the circuit down", "file": TC, "rule": "identifier-match",
     "old": "        else:\n            self.logger.warning(\"Received unexpected created for circuit %d\", circuit_id)\n",
     "new": "        else:\n            self.logger.warning(\"Received unexpected created for circuit %d\", circuit_id)\n            self.remove_circuit(circuit_id, \"unexpected created\")\n"},
    {"name": "an unexpected extended answer drops the pending retry cache", "file": TC, "rule": "identifier-match",
     "old": "            self.logger.warning(\"Received unexpected extended for circuit %s\", circuit_id)\n            return\n",
     "new": "            self.logger.warning(\"Received unexpected extended for circuit %s\", circuit_id)\n            if cache:\n                self.request_cache.pop(RetryRequestCache, circuit_id)\n            return\n"},
    {"name": "retry cache of the accepted hop only looked up before the next extend", "file": TC, "rule": "identifier-match",
     "old": "            cache = self.request_cache.pop(RetryRequestCache, circuit.circuit_id)\n            try:\n",
     "new": "            cache = self.request_cache.get(RetryRequestCache, circuit.circuit_id)\n            try:\n"},
    {"name": "suspension point between verification and clearing the pending hop", "rule": "verify-before-accept", "edits": [
        {"file": TC,
         "old": "    def _ours_on_created_extended(self, circuit_id: int, payload: CreatedPayload | ExtendedPayload) -> None:\n",
         "new": "    async def _ours_on_created_extended(self, circuit_id: int, payload: CreatedPayload | ExtendedPayload) -> None:\n"},
        {"file": TC,
         "old": "        circuit.unverified_hop = None\n        circuit.add_hop(hop)\n",
         "new": "        await sleep(0)\n        circuit.unverified_hop = None\n        circuit.add_hop(hop)\n"},
        {"file": TC,
         "old": "        if cache and cache.packet_identifier == payload.identifier:\n            self._ours_on_created_extended(circuit_id, payload)",
         "new": "        if cache and cache.packet_identifier == payload.identifier:\n            ensure_future(self._ours_on_created_extended(circuit_id, payload))"},
        {"file": TC,
         "old": "            return\n\n        self._ours_on_created_extended(circuit_id, payload)\n",
         "new": "            return\n\n        ensure_future(self._ours_on_created_extended(circuit_id, payload))\n"}]},
    {"name": "acceptance scheduled as a task instead of running inside the handler", "rule": "verify-before-accept", "edits": [
        {"file": TC,
         "old": "    def _ours_on_created_extended(self, circuit_id: int, payload: CreatedPayload | ExtendedPayload) -> None:\n",
         "new": "    async def _ours_on_created_extended(self, circuit_id: int, payload: CreatedPayload | ExtendedPayload) -> None:\n"},
        {"file": TC,
         "old": "        if cache and cache.packet_identifier == payload.identifier:\n            self._ours_on_created_extended(circuit_id, payload)",
         "new": "        if cache and cache.packet_identifier == payload.identifier:\n            ensure_future(self._ours_on_created_extended(circuit_id, payload))"},
        {"file": TC,
         "old": "            return\n\n        self._ours_on_created_extended(circuit_id, payload)\n",
         "new": "            return\n\n        ensure_future(self._ours_on_created_extended(circuit_id, payload))\n"}]},
    {"name": "retry cache of the accepted hop released only after the candidate list of the answer was decrypted and unpacked (pre-fix shape)",
     "rule": "release-after-accept", "edits": [
        {"file": TC, "old": '            # The retry of the hop that just answered must not fire anymore, also if the candidates turn out to be garbage.\n            cache = self.request_cache.pop(RetryRequestCache, circuit.circuit_id)\n            try:\n                candidates_enc = payload.candidates_enc\n                candidates_bin = session_keys.decrypt_str(candidates_enc, FORWARD)\n                candidates, _ = self.serializer.unpack("varlenH-list", candidates_bin)\n            except Exception:\n                self.remove_circuit(circuit.circuit_id, "error while decrypting candidates")\n                return\n',
         "new": '            candidates_enc = payload.candidates_enc\n            candidates_bin = session_keys.decrypt_str(candidates_enc, FORWARD)\n            candidates, _ = self.serializer.unpack("varlenH-list", candidates_bin)\n'},
        {"file": TC, "old": '            self.send_extend(circuit, cast("list[bytes]", candidates), cache.max_tries if cache else 1)\n',
         "new": '            cache = self.request_cache.pop(RetryRequestCache, circuit.circuit_id)\n            self.send_extend(circuit, cast("list[bytes]", candidates), cache.max_tries if cache else 1)\n'}]},
    {"name": "garbage candidates swallowed with a log line while the retry cache is still registered", "rule": "release-after-accept", "edits": [
        {"file": TC, "old": '            # The retry of the hop that just answered must not fire anymore, also if the candidates turn out to be garbage.\n            cache = self.request_cache.pop(RetryRequestCache, circuit.circuit_id)\n            try:\n                candidates_enc = payload.candidates_enc\n                candidates_bin = session_keys.decrypt_str(candidates_enc, FORWARD)\n                candidates, _ = self.serializer.unpack("varlenH-list", candidates_bin)\n            except Exception:\n                self.remove_circuit(circuit.circuit_id, "error while decrypting candidates")\n                return\n',
         "new": '            try:\n                candidates_enc = payload.candidates_enc\n                candidates_bin = session_keys.decrypt_str(candidates_enc, FORWARD)\n                candidates, _ = self.serializer.unpack("varlenH-list", candidates_bin)\n            except Exception:\n                self.logger.warning("error while decrypting candidates")\n                return\n'},
        {"file": TC, "old": '            self.send_extend(circuit, cast("list[bytes]", candidates), cache.max_tries if cache else 1)\n',
         "new": '            cache = self.request_cache.pop(RetryRequestCache, circuit.circuit_id)\n            self.send_extend(circuit, cast("list[bytes]", candidates), cache.max_tries if cache else 1)\n'}]},
    {"name": "retry cache released first, decoding of the candidates not guarded (the exception only aborts this handler)", "kind": "twin",
     "rule": "release-after-accept", "at": "_ours_on_created_extended", "edits": [
        {"file": TC, "old": '            # The retry of the hop that just answered must not fire anymore, also if the candidates turn out to be garbage.\n            cache = self.request_cache.pop(RetryRequestCache, circuit.circuit_id)\n            try:\n                candidates_enc = payload.candidates_enc\n                candidates_bin = session_keys.decrypt_str(candidates_enc, FORWARD)\n                candidates, _ = self.serializer.unpack("varlenH-list", candidates_bin)\n            except Exception:\n                self.remove_circuit(circuit.circuit_id, "error while decrypting candidates")\n                return\n',
         "new": '            cache = self.request_cache.pop(RetryRequestCache, circuit.circuit_id)\n            candidates_enc = payload.candidates_enc\n            candidates_bin = session_keys.decrypt_str(candidates_enc, FORWARD)\n            candidates, _ = self.serializer.unpack("varlenH-list", candidates_bin)\n'}]},
    {"name": "verification moved into a decision helper whose failure result is ignored", "rule": "verify-before-accept", "edits": [
        {"file": TC,
         "old": "            shared_secret = self.crypto.verify_and_generate_shared_secret(hop.dh_secret, payload.key, payload.auth,\n                                                                          hop.peer.public_key.get_crypt_pk())\n            session_keys = self.crypto.generate_session_keys(shared_secret)\n            hop.keys = session_keys\n",
         "new": "            session_keys = self._c08_witness_keys(hop, payload)\n            hop.keys = session_keys\n"},
        {"file": TC,
         "old": "    def _ours_on_created_extended(self, circuit_id: int, payload: CreatedPayload | ExtendedPayload) -> None:\n",
         "new": "    def _c08_witness_keys(self, hop: Hop, payload: CreatedPayload | ExtendedPayload) -> SessionKeys | None:\n        try:\n            secret = self.crypto.verify_and_generate_shared_secret(hop.dh_secret, payload.key, payload.auth,\n                                                                   hop.peer.public_key.get_crypt_pk())\n            return self.crypto.generate_session_keys(secret)\n        except CryptoException:\n            return None\n\n    def _ours_on_created_extended(self, circuit_id: int, payload: CreatedPayload | ExtendedPayload) -> None:\n"}]},
]
