"""C18 - Attribute proofs accept the true value and reject others (field-arithmetic clause as a proof + codec shape)."""
from __future__ import annotations

import ast
import itertools

from ..core import Ctx
from ..match import Fact, _atoms_with_polarity, call_name, calls, fact_of, local_defs, names_in, resolve
from ..model import AnalysisError, FuncInfo, chain, const_value, enclosing_stmt, norm, strip_cast, walk_no_nested
from ..poly import Poly, eval_expr

LEVEL = "proof"
EXPLANATION = (
    "Proof of the field-arithmetic clause: the bodies of FP2Value.__add__/__sub__/__mul__/__floordiv__/inverse/normalize "
    "are executed symbolically (every return path, local aliases substituted, conditional fast paths checked under the "
    "equalities their guard establishes), read as integer polynomials in the twelve coefficient symbols and compared, by "
    "exact polynomial subtraction, with the reference arithmetic of fractions N/D over Z[x]/(x^2+x+1) (c*x^2 -> -c*x - c; "
    "N1/D1 +- N2/D2 = (N1*D2 +- N2*D1)/(D1*D2); products and quotients likewise). Identities over Z hold for all operands "
    "and all moduli. Derived laws (commutativity, x-y = x+(0-y) up to the common denominator, (x//y)*y ~ x) are checked on "
    "the implementation's own polynomials; intpow is checked to maintain the square-and-multiply invariant "
    "acc * sq^n = self^|power| (abstract execution of the loop body for odd and even n); equality is checked by decision "
    "table to be 'normalised quotient has numerator == denominator'; codec arity and integer layout of keys/attestations "
    "are checked on the flattened byte concatenations and slice offsets (as polynomials). Structural necessary conditions "
    "of the protocol clauses: the range verifier checks every Peng-Bao verification equation (as exponent vectors over the "
    "commitments), a challenge response is consumed together with its pending-challenge entry, the range certainty needs a "
    "verified response, an attestation is matched to the request it echoes. Soundness/completeness of the zero-knowledge "
    "proofs and the Boneh scheme rest on number theory over run-time keys and randomness and are NOT decided."
)

VP = "ipv8/attestation/wallet/primitives/value.py"
PS = "ipv8/attestation/wallet/primitives/structs.py"
SYMS = ("a", "b", "c", "aC", "bC", "cC")
DEFAULTS = {"a": 0, "b": 0, "c": 0, "aC": 1, "bC": 0, "cC": 0}


def sym(e: ast.AST) -> str | None:
    if isinstance(e, ast.Attribute) and isinstance(e.value, ast.Name) and e.value.id in ("self", "other") and e.attr in SYMS:
        return ("s" if e.value.id == "self" else "o") + "_" + e.attr
    return None


def V(side: str, name: str) -> Poly:
    return Poly.var(f"{side}_{name}")


def reduce3(a: Poly, b: Poly, c: Poly) -> tuple[Poly, Poly]:
    """a + b x + c x^2  (mod x^2 + x + 1)  ->  (a - c) + (b - c) x"""
    return a - c, b - c


def mul2(u: tuple[Poly, Poly], v: tuple[Poly, Poly]) -> tuple[Poly, Poly]:
    u0, u1 = u
    v0, v1 = v
    return reduce3(u0 * v0, u0 * v1 + u1 * v0, u1 * v1)


def operands():
    n1 = reduce3(V("s", "a"), V("s", "b"), V("s", "c"))
    d1 = reduce3(V("s", "aC"), V("s", "bC"), V("s", "cC"))
    n2 = reduce3(V("o", "a"), V("o", "b"), V("o", "c"))
    d2 = reduce3(V("o", "aC"), V("o", "bC"), V("o", "cC"))
    return n1, d1, n2, d2


# ------------------------------------------------------------------------------------------------------------------
# Symbolic path execution of small functions.
#
# A function body is executed on expressions: every local is replaced by the expression it was assigned (so `m = self.mod`,
# `neg = power < 0`, a hoisted sub-expression or a value returned through a local all disappear), every `if` / conditional
# expression forks the path unless the path condition already decides it (same atom, negation, de Morgan, flipped
# comparison - decided through match.fact_of), loops are summarised by a hook (default: everything the loop may write
# becomes opaque).  The result is, per return path, (path condition, returned expression).  Rules below judge the
# returned expressions, never the spelling of the statements that produced them.
# ------------------------------------------------------------------------------------------------------------------
_COMPS = (ast.ListComp, ast.SetComp, ast.GeneratorExp, ast.DictComp)


def _lambda_params(n: ast.Lambda) -> set[str]:
    a = n.args
    out = {x.arg for x in a.posonlyargs + a.args + a.kwonlyargs}
    if a.vararg:
        out.add(a.vararg.arg)
    if a.kwarg:
        out.add(a.kwarg.arg)
    return out


def _subst(n, env: dict, shadow: frozenset = frozenset()):
    """Copy of n (fields only: no parent links) with loads of names in env replaced by their expression; cast() is transparent."""
    if isinstance(n, list):
        return [_subst(x, env, shadow) for x in n]
    if not isinstance(n, ast.AST):
        return n
    if isinstance(n, ast.Name):
        if isinstance(n.ctx, ast.Load) and n.id in env and n.id not in shadow:
            return env[n.id]                        # env expressions are never mutated, sharing is safe
        return ast.Name(id=n.id, ctx=n.ctx)
    if isinstance(n, ast.Call) and isinstance(n.func, ast.Name) and n.func.id == "cast" and len(n.args) == 2 and not n.keywords:
        return _subst(n.args[1], env, shadow)
    if isinstance(n, _COMPS):
        bound: set[str] = set()
        for g in n.generators:
            bound |= names_in(g.target)
        shadow = shadow | bound
    elif isinstance(n, ast.Lambda):
        shadow = shadow | _lambda_params(n)
    new = n.__class__()
    for f in n._fields:
        if hasattr(n, f):
            setattr(new, f, _subst(getattr(n, f), env, shadow))
    return new


def _raw_names(e: ast.AST) -> set[str]:
    return {x.id for x in ast.walk(e) if isinstance(x, ast.Name)}


def _replace(e, target, repl):
    """Copy of e with the node `target` (identity) replaced by repl."""
    if e is target:
        return repl
    if isinstance(e, list):
        return [_replace(x, target, repl) for x in e]
    if not isinstance(e, ast.AST):
        return e
    new = e.__class__()
    for f in e._fields:
        if hasattr(e, f):
            setattr(new, f, _replace(getattr(e, f), target, repl))
    return new


def _first_ifexp(e: ast.AST):
    stack = [e]
    while stack:
        n = stack.pop(0)
        if isinstance(n, ast.IfExp):
            return n
        if isinstance(n, (ast.Lambda, *_COMPS)):
            continue
        stack.extend(ast.iter_child_nodes(n))
    return None


def _fkey(f: Fact):
    le = norm(f.left)
    ri = norm(f.right) if f.right is not None else None
    if f.op in ("eq", "is") and ri is not None and ri < le:
        le, ri = ri, le
    return f.op, le, ri


def _facts(conds) -> list[Fact]:
    out = []
    for e, pol in conds:
        out.extend(_atoms_with_polarity(e, pol))
    return out


def _known(conds) -> dict:
    return {_fkey(f): f.pos for f in _facts(conds)}


def _decide(test: ast.AST, known: dict):
    """Three-valued truth of `test` given the atoms known on this path (None = not decided)."""
    if isinstance(test, ast.Constant):
        return bool(test.value)
    if isinstance(test, ast.UnaryOp) and isinstance(test.op, ast.Not):
        v = _decide(test.operand, known)
        return None if v is None else not v
    if isinstance(test, ast.BoolOp):
        vals = [_decide(v, known) for v in test.values]
        if isinstance(test.op, ast.And):
            return False if any(v is False for v in vals) else True if all(v is True for v in vals) else None
        return True if any(v is True for v in vals) else False if all(v is False for v in vals) else None
    if isinstance(test, ast.Compare) and len(test.ops) > 1:
        left = test.left
        vals = []
        for op, right in zip(test.ops, test.comparators):
            vals.append(_decide(ast.Compare(left=left, ops=[op], comparators=[right]), known))
            left = right
        return False if any(v is False for v in vals) else True if all(v is True for v in vals) else None
    f = fact_of(test, True)
    k = _fkey(f)
    if k in known:
        return known[k] == f.pos
    if f.op == "lt" and known.get(("lt", k[2], k[1])) is True:      # b < a holds, so a < b does not
        return not f.pos
    return None


class _St:
    __slots__ = ("env", "conds")

    def __init__(self, env=None, conds=None) -> None:
        self.env: dict[str, ast.AST] = dict(env or {})
        self.conds: list[tuple[ast.AST, bool]] = list(conds or [])

    def fork(self, cond=None) -> "_St":
        s = _St(self.env, self.conds)
        if cond is not None:
            s.conds.append(cond)
        return s

    def invalidate(self, name: str) -> None:
        """`name` gets a new value: expressions recorded earlier that mention the OLD value by its bare name become opaque."""
        for k, v in list(self.env.items()):
            if k != name and name in _raw_names(v):
                self.env[k] = ast.Name(id=f"__stale_{k.lstrip('@').replace('.', '_')}__", ctx=ast.Load())
        self.conds = [(e, p) for e, p in self.conds if name not in _raw_names(e)]

    def set(self, name: str, value: ast.AST) -> None:
        self.invalidate(name)
        self.env[name] = value

    def havoc(self, name: str) -> None:
        self.invalidate(name)
        self.env.pop(name, None)


def _written_names(stmts) -> set[str]:
    """Names a statement list may rebind or mutate through a method call / item store."""
    out: set[str] = set()
    for s in stmts:
        for n in ast.walk(s):
            if isinstance(n, ast.Name) and isinstance(n.ctx, (ast.Store, ast.Del)):
                out.add(n.id)
            elif isinstance(n, ast.Call) and isinstance(n.func, ast.Attribute):
                b = n.func.value
                while isinstance(b, (ast.Attribute, ast.Subscript)):
                    b = b.value
                if isinstance(b, ast.Name):
                    out.add(b.id)
            elif isinstance(n, (ast.Attribute, ast.Subscript)) and isinstance(n.ctx, (ast.Store, ast.Del)):
                b = n.value
                while isinstance(b, (ast.Attribute, ast.Subscript)):
                    b = b.value
                if isinstance(b, ast.Name):
                    out.add(b.id)
    return out


class _Exec:
    """run() -> [(state, returned expression)] for every path that returns (falling off the end returns None)."""

    def __init__(self, fi: FuncInfo, loop_hook=None) -> None:
        self.fi = fi
        self.loop_hook = loop_hook
        self.done: list[tuple[_St, ast.AST]] = []

    def run(self):
        for st in self._block(self.fi.node.body, _St()):
            self.done.append((st, ast.Constant(value=None)))
        return self.done

    def _block(self, stmts, st: _St) -> list[_St]:
        cur = [st]
        for s in stmts:
            nxt: list[_St] = []
            for x in cur:
                nxt.extend(self._stmt(s, x))
            cur = nxt
            if not cur:
                break
        return cur

    def _expand(self, e: ast.AST, st: _St):
        ife = _first_ifexp(e)
        if ife is None:
            return [(e, st)]
        v = _decide(ife.test, _known(st.conds))
        out = []
        for pol in ((v,) if v is not None else (True, False)):
            st2 = st if v is not None else st.fork((ife.test, pol))
            out.extend(self._expand(_replace(e, ife, ife.body if pol else ife.orelse), st2))
        return out

    def _bind(self, t: ast.AST, value: ast.AST, st: _St) -> None:
        if isinstance(t, ast.Name):
            st.set(t.id, value)
        elif isinstance(t, (ast.Tuple, ast.List)):
            if any(isinstance(e, ast.Starred) for e in t.elts):
                raise AnalysisError(f"undecided: {self.fi.qualname}: starred assignment target")
            if isinstance(value, (ast.Tuple, ast.List)) and len(value.elts) == len(t.elts) and not any(isinstance(e, ast.Starred) for e in value.elts):
                for e, v in zip(t.elts, value.elts):
                    self._bind(e, v, st)
            else:
                for i, e in enumerate(t.elts):
                    self._bind(e, ast.Subscript(value=value, slice=ast.Constant(value=i), ctx=ast.Load()), st)
        elif isinstance(t, ast.Attribute) and chain(t) is not None:
            st.env["@" + chain(t)] = value
        else:
            b = t
            while isinstance(b, (ast.Attribute, ast.Subscript)):
                b = b.value
            if isinstance(b, ast.Name):
                st.havoc(b.id)

    def _stmt(self, s: ast.stmt, st: _St) -> list[_St]:  # noqa: C901, PLR0911, PLR0912
        if isinstance(s, (ast.Pass, ast.Import, ast.ImportFrom, ast.FunctionDef, ast.AsyncFunctionDef, ast.ClassDef, ast.Global, ast.Nonlocal)):
            return [st]
        if isinstance(s, ast.Expr):
            if isinstance(s.value, ast.Call):
                for n in _written_names([s]):
                    st.havoc(n)
            return [st]
        if isinstance(s, (ast.Assign, ast.AnnAssign)):
            if s.value is None:
                return [st]
            out = []
            targets = s.targets if isinstance(s, ast.Assign) else [s.target]
            for v, st2 in self._expand(_subst(s.value, st.env), st):
                st3 = st2.fork() if st2 is st else st2
                for t in targets:
                    self._bind(t, v, st3)
                out.append(st3)
            return out
        if isinstance(s, ast.AugAssign):
            if not isinstance(s.target, ast.Name):
                for n in _written_names([s]):
                    st.havoc(n)
                return [st]
            out = []
            cur = st.env.get(s.target.id, ast.Name(id=s.target.id, ctx=ast.Load()))
            for v, st2 in self._expand(_subst(s.value, st.env), st):
                st3 = st2.fork() if st2 is st else st2
                st3.set(s.target.id, ast.BinOp(left=cur, op=s.op, right=v))
                out.append(st3)
            return out
        if isinstance(s, ast.Return):
            val = _subst(s.value, st.env) if s.value is not None else ast.Constant(value=None)
            for v, st2 in self._expand(val, st):
                self.done.append((st2, v))
            return []
        if isinstance(s, ast.Raise):
            return []
        if isinstance(s, ast.Assert):
            test = _subst(s.test, st.env)
            v = _decide(test, _known(st.conds))
            return [] if v is False else [st if v is True else st.fork((test, True))]
        if isinstance(s, ast.If):
            test = _subst(s.test, st.env)
            v = _decide(test, _known(st.conds))
            out = []
            if v is not False:
                out.extend(self._block(s.body, st.fork(None if v is True else (test, True))))
            if v is not True:
                out.extend(self._block(s.orelse, st.fork(None if v is False else (test, False))))
            return out
        if isinstance(s, (ast.While, ast.For)):
            if self.loop_hook is not None:
                r = self.loop_hook(self, s, st)
                if r is not None:
                    return r
            for n in _written_names([s]):
                st.havoc(n)
            return [st]
        if isinstance(s, ast.Delete):
            for n in _written_names([s]):
                st.havoc(n)
            return [st]
        raise AnalysisError(f"undecided: {self.fi.qualname}: statement `{norm(s)[:60]}` is outside the symbolic executor")


def _paths(fi: FuncInfo, loop_hook=None):
    return _Exec(fi, loop_hook).run()


def _simp(n):
    """Fold constant subscripts of list/tuple literals and of comprehensions over literal tuples: [f(t) for t in (x, y)][1] -> f(y)."""
    if isinstance(n, list):
        return [_simp(x) for x in n]
    if not isinstance(n, ast.AST):
        return n
    new = n.__class__()
    for f in n._fields:
        if hasattr(n, f):
            setattr(new, f, _simp(getattr(n, f)))
    if isinstance(new, ast.Subscript) and isinstance(new.slice, ast.Constant) and isinstance(new.slice.value, int) and not isinstance(new.slice.value, bool):
        elts = _literal_elements(new.value)
        if elts is not None and -len(elts) <= new.slice.value < len(elts):
            return elts[new.slice.value]
    return new


def _literal_elements(e: ast.AST):
    """Elements of a list/tuple literal, or of a comprehension (one generator, no filter) over such a literal; None otherwise."""
    if isinstance(e, (ast.List, ast.Tuple)) and not any(isinstance(x, ast.Starred) for x in e.elts):
        return list(e.elts)
    if isinstance(e, (ast.ListComp, ast.GeneratorExp)) and len(e.generators) == 1:
        g = e.generators[0]
        src = _literal_elements(g.iter)
        if src is not None and not g.ifs and not g.is_async and isinstance(g.target, ast.Name):
            return [_simp(_subst(e.elt, {g.target.id: x})) for x in src]
    if isinstance(e, ast.Call) and isinstance(e.func, ast.Name) and e.func.id in ("list", "tuple") and len(e.args) == 1 and not e.keywords:
        return _literal_elements(e.args[0])
    return None


def _and_parts(e: ast.AST) -> list[ast.AST]:
    """Conjuncts of `a and b`, `a & b`, all([a, b]); constant True disappears."""
    if isinstance(e, ast.BoolOp) and isinstance(e.op, ast.And):
        return [p for v in e.values for p in _and_parts(v)]
    if isinstance(e, ast.BinOp) and isinstance(e.op, ast.BitAnd):
        return _and_parts(e.left) + _and_parts(e.right)
    if isinstance(e, ast.Call) and isinstance(e.func, ast.Name) and e.func.id == "all" and len(e.args) == 1 and not e.keywords:
        elts = _literal_elements(e.args[0])
        if elts is not None:
            return [p for v in elts for p in _and_parts(v)]
    if isinstance(e, ast.Constant) and e.value is True:
        return []
    return [e]


def _sign_of(conds, is_target):
    """
    What the path condition says about `t > 0` for the non-negative integer expression t selected by is_target:
    (True | False | None, t).  `t > 0`, `0 < t`, `t >= 1`, `t != 0` and plain truthiness of t are the same test on t >= 0.
    """
    for f in _facts(conds):
        le, ri = f.left, f.right
        if f.op == "truthy" and is_target(le):
            return f.pos, le
        if f.op == "eq" and ri is not None:
            if is_target(le) and const_value(ri) == 0:
                return (not f.pos), le
            if is_target(ri) and const_value(le) == 0:
                return (not f.pos), ri
        if f.op == "lt" and ri is not None:
            if is_target(ri) and const_value(le) == 0:          # 0 < t
                return f.pos, ri
            if is_target(le) and const_value(ri) == 1:          # t < 1
                return (not f.pos), le
            if is_target(le) and const_value(ri) == 0 and f.pos:  # t < 0: impossible, treated as "not positive"
                return False, le
    return None, None


def _describe(conds) -> str:
    return " and ".join(("" if p else "not ") + "(" + norm(e) + ")" for e, p in conds) or "always"


# ------------------------------------------------------------------------------------------------------------------
# ring laws
# ------------------------------------------------------------------------------------------------------------------
def _fp2_coeffs(fi: FuncInfo, call: ast.AST, symbol_of, *, ignore_mod: str | None = None, moduli=("self.mod",)) -> dict[str, Poly]:
    if not (isinstance(call, ast.Call) and chain(call.func) == "FP2Value" and call.args):
        raise AnalysisError(f"{fi.qualname}: returns `{norm(call)[:60]}`, not `FP2Value(...)`")
    if norm(call.args[0]) not in moduli:
        raise AnalysisError(f"{fi.qualname}: result modulus is not self.mod")
    if any(isinstance(a, ast.Starred) for a in call.args) or len(call.args) > 7:
        raise AnalysisError(f"{fi.qualname}: unsupported constructor call `{norm(call)[:60]}`")
    out = {k: Poly.const(v) for k, v in DEFAULTS.items()}
    for i, a in enumerate(call.args[1:]):
        out[SYMS[i]] = eval_expr(_simp(a), {}, symbol_of, ignore_mod=ignore_mod)
    for k in call.keywords:
        if k.arg not in out:
            raise AnalysisError(f"{fi.qualname}: unknown keyword {k.arg}")
        out[k.arg] = eval_expr(_simp(k.value), {}, symbol_of, ignore_mod=ignore_mod)
    return out


def _single_var(p: Poly) -> str | None:
    if len(p.t) == 1:
        (mon, co), = p.t.items()
        if co == 1 and len(mon) == 1:
            return mon[0]
    return None


def _restriction(conds) -> tuple[dict[str, Poly], bool]:
    """
    Equalities between coefficient symbols / constants that hold on a path, as a substitution; second value: the path
    condition contains something that is neither such an equality nor a generic (open) condition, so a failing identity
    cannot be blamed on the code.  Disequalities and `x is non-zero` hold generically and do not restrict an identity.
    """
    mapping: dict[str, Poly] = {}
    opaque = False

    def ev(e):
        try:
            return eval_expr(_simp(e), {}, sym)
        except AnalysisError:
            return None
    for e, pol in conds:
        if pol and norm(e) in ("self.mod == other.mod", "other.mod == self.mod"):
            continue
        facts = _atoms_with_polarity(e, pol)
        if not facts:
            opaque = True
        for f in facts:
            if f.op == "eq":
                le, ri = ev(f.left), ev(f.right)
                if le is None or ri is None:
                    opaque = True
                elif f.pos:
                    le, ri = le.subst(mapping), ri.subst(mapping)
                    if _single_var(le):
                        mapping[_single_var(le)] = ri
                    elif _single_var(ri):
                        mapping[_single_var(ri)] = le
                    elif not (le - ri).is_zero():
                        opaque = True
            elif f.op == "truthy":
                le = ev(f.left)
                if le is None:
                    opaque = True
                elif not f.pos:
                    le = le.subst(mapping)
                    if _single_var(le):
                        mapping[_single_var(le)] = Poly.const(0)
                    elif not le.is_zero():
                        opaque = True
            else:
                opaque = True
    return mapping, opaque


def _apply(p: Poly, mapping: dict[str, Poly]) -> Poly:
    for _ in range(len(mapping) + 1):
        q = p.subst(mapping)
        if q == p:
            break
        p = q
    return p


def method_results(ctx: Ctx, fi: FuncInfo) -> list[tuple[dict[str, Poly], list, dict[str, Poly], bool]]:
    """Every return path of an operator method: (six coefficient polynomials, path condition, substitution, opaque)."""
    out = []
    for st, ret in _paths(fi):
        mapping, opaque = _restriction(st.conds)
        conds = [(e, p) for e, p in st.conds if not (p and norm(e) in ("self.mod == other.mod", "other.mod == self.mod"))]
        out.append((_fp2_coeffs(fi, ret, sym), conds, mapping, opaque))
    if not out:
        raise AnalysisError(f"{fi.qualname}: no `return FP2Value(...)`")
    return out


def method_result(ctx: Ctx, fi: FuncInfo) -> dict[str, Poly]:
    """Polynomials of the six coefficients of the FP2Value returned on the general (unrestricted) path of an operator method."""
    gen = [r for r, _, mapping, _ in method_results(ctx, fi) if not mapping]
    if not gen:
        raise AnalysisError(f"undecided: {fi.qualname}: no unrestricted return path")
    return gen[0]


def oblige(ctx: Ctx, fi: FuncInfo, what: str, got: Poly, want: Poly) -> None:
    diff = got - want
    ok = diff.is_zero()
    ctx.oblige(ok)
    ctx.check(ok, "ring-laws", fi, f"{fi.name}: {what}", f"{fi.name}: {what} equals the reference polynomial",
              f"{fi.name}: coefficient `{what}` differs from the field arithmetic of Z[x]/(x^2+x+1): implementation - reference = {diff}")


_COEFF_LABELS = (("a", "a (numerator, x^0)"), ("b", "b (numerator, x^1)"), ("c", "c (numerator, x^2)"),
                 ("aC", "aC (denominator, x^0)"), ("bC", "bC (denominator, x^1)"), ("cC", "cC (denominator, x^2)"))


def _oblige_operator(ctx: Ctx, fi: FuncInfo, num, den) -> dict[str, Poly]:
    """All return paths of one operator against the reference fraction num/den; returns the general path's polynomials."""
    want = {"a": num[0], "b": num[1], "c": Poly.const(0), "aC": den[0], "bC": den[1], "cC": Poly.const(0)}
    general = None
    for r, conds, mapping, opaque in method_results(ctx, fi):
        if not mapping:
            # general path (possibly the fall-through of a guard: a condition that is not an equality holds generically)
            if general is None:
                general = r
            suffix = "" if not conds else f" [path: {_describe(conds)}]"
            for k, lab in _COEFF_LABELS:
                if conds and opaque and not (r[k] - want[k]).is_zero():
                    raise AnalysisError(f"undecided: {fi.qualname}: coefficient {k} differs from the reference on the path `{_describe(conds)}`, "
                                        "whose condition is not understood")
                oblige(ctx, fi, lab + suffix, r[k], want[k])
            continue
        # restricted path (fast path): the identity has to hold under the equalities its guard establishes - coefficient by
        # coefficient, or at least as the same fraction (cross-multiplied in Z[x]/(x^2+x+1))
        got = {k: _apply(p, mapping) for k, p in r.items()}
        ref = {k: _apply(p, mapping) for k, p in want.items()}
        same = all((got[k] - ref[k]).is_zero() for k in SYMS)
        if not same:
            gn, gd = reduce3(got["a"], got["b"], got["c"]), reduce3(got["aC"], got["bC"], got["cC"])
            lhs, rhs = mul2(gn, (ref["aC"], ref["bC"])), mul2((ref["a"], ref["b"]), gd)
            same = all((x - y).is_zero() for x, y in zip(lhs, rhs)) and not (gd[0].is_zero() and gd[1].is_zero())
        if not same and opaque:
            raise AnalysisError(f"undecided: {fi.qualname}: result on the path `{_describe(conds)}` differs from the reference and the path condition is not understood")
        ctx.oblige(same)
        bad = next((f"{k}: implementation - reference = {got[k] - ref[k]}" for k in SYMS if not (got[k] - ref[k]).is_zero()), "")
        ctx.check(same, "ring-laws", fi, f"{fi.name}: path `{_describe(conds)}`",
                  f"{fi.name}: the result returned when {_describe(conds)} is the reference fraction under these equalities",
                  f"{fi.name}: the shortcut taken when {_describe(conds)} does not return the field result: the guard establishes only "
                  f"{ {k: str(v) for k, v in mapping.items()} }, and under these equalities the returned value is not num/den of Z[x]/(x^2+x+1) "
                  f"({bad}) - an operand the guard does not exclude (e.g. a non-zero x^2 coefficient) gets a wrong result")
    if general is None:
        raise AnalysisError(f"undecided: {fi.qualname}: no unrestricted return path")
    return general


def rule_ring_laws(ctx: Ctx) -> None:
    repo = ctx.repo
    cls = repo.cls("FP2Value", VP)
    n1, d1, n2, d2 = operands()
    ref = {
        "__mul__": (mul2(n1, n2), mul2(d1, d2)),
        "__floordiv__": (mul2(n1, d2), mul2(d1, n2)),
        "__add__": (tuple(x + y for x, y in zip(mul2(n1, d2), mul2(n2, d1))), mul2(d1, d2)),
        "__sub__": (tuple(x - y for x, y in zip(mul2(n1, d2), mul2(n2, d1))), mul2(d1, d2)),
    }
    res = {}
    for name, (num, den) in ref.items():
        res[name] = _oblige_operator(ctx, cls.methods[name], num, den)
    # derived laws on the implementation's own polynomials
    swap = {f"s_{k}": f"o_{k}" for k in SYMS} | {f"o_{k}": f"s_{k}" for k in SYMS}
    for name in ("__add__", "__mul__"):
        fi = cls.methods[name]
        for k in ("a", "b", "aC", "bC"):
            got = res[name][k]
            ok = got == got.rename(swap)
            ctx.oblige(ok)
            ctx.check(ok, "ring-laws", fi, f"{name}: {k} commutes", f"{name} is commutative in coefficient {k}",
                      f"{name} is not commutative: coefficient {k} changes when the operands are swapped (x op y != y op x): difference {got - got.rename(swap)}")
    # x - y == x + (0 - y): compare cross-multiplied fractions  (num_sub * den_add' == num_add' * den_sub) mod (x^2+x+1)
    zero = {"s_a": Poly.const(0), "s_b": Poly.const(0), "s_c": Poly.const(0), "s_aC": Poly.const(1), "s_bC": Poly.const(0), "s_cC": Poly.const(0)}
    neg_y = {k: v.subst(zero) for k, v in res["__sub__"].items()}                 # 0 - y, in terms of o_*
    as_other = {f"o_{k}": neg_y[k] for k in SYMS}
    add_neg = {k: v.subst(as_other) for k, v in res["__add__"].items()}           # x + (0 - y)
    lhs = mul2((res["__sub__"]["a"], res["__sub__"]["b"]), (add_neg["aC"], add_neg["bC"]))
    rhs = mul2((add_neg["a"], add_neg["b"]), (res["__sub__"]["aC"], res["__sub__"]["bC"]))
    fi = cls.methods["__sub__"]
    for i, lab in enumerate(("x^0", "x^1")):
        ok = (lhs[i] - rhs[i]).is_zero()
        ctx.oblige(ok)
        ctx.check(ok, "ring-laws", fi, f"x - y == x + (0 - y) [{lab}]", f"x - y and x + (0 - y) are the same fraction ({lab})",
                  f"x - y != x + (0 - y) as fractions ({lab}): the additive structure is inconsistent")
    # (x // y) * y ~ x   (cross-multiplied)
    q = res["__floordiv__"]
    as_self = {f"s_{k}": q[k] for k in SYMS}
    back = {k: v.subst(as_self) for k, v in res["__mul__"].items()}                # (x // y) * y
    lhs = mul2((back["a"], back["b"]), d1)
    rhs = mul2(n1, (back["aC"], back["bC"]))
    fi = cls.methods["__floordiv__"]
    for i, lab in enumerate(("x^0", "x^1")):
        ok = (lhs[i] - rhs[i]).is_zero()
        ctx.oblige(ok)
        ctx.check(ok, "ring-laws", fi, f"(x // y) * y == x [{lab}]", f"(x // y) * y and x are the same fraction ({lab})",
                  f"(x // y) * y != x as fractions ({lab})")
    # inverse swaps numerator and denominator (every return path, under its own equalities)
    invf = cls.methods["inverse"]
    pairs = {"a": "aC", "b": "bC", "c": "cC", "aC": "a", "bC": "b", "cC": "c"}
    for r, conds, mapping, opaque in method_results(ctx, invf):
        for k, src in pairs.items():
            got, want = _apply(r[k], mapping), _apply(V("s", src), mapping)
            if conds and opaque and not (got - want).is_zero():
                raise AnalysisError(f"undecided: {invf.qualname}: path `{_describe(conds)}` is not understood")
            oblige(ctx, invf, f"{k} <- self.{src}" + (f" [path: {_describe(conds)}]" if conds else ""), got, want)
    _check_normalize(ctx, cls)
    mi = repo.func(VP, "_modinv")
    ok = _modinv_invariant(ctx, mi)
    ctx.oblige(ok)
    ctx.check(ok, "ring-laws", mi, mi.node, "_modinv maintains x1*e = a and x2*e = b (mod m) and returns x1 % m when b reaches 0",
              "_modinv no longer maintains the extended-Euclid invariant: it does not return the modular inverse")
    _check_eq(ctx, cls)
    _check_init(ctx, cls)


def _is_modinv(e: ast.AST) -> bool:
    return isinstance(e, ast.Call) and chain(e.func) == "_modinv"


def _is_mp(e: ast.AST) -> bool:
    """The modular inverse of this value's own x^0 denominator coefficient (self.aC is stored reduced, so `% self.mod` is optional)."""
    return _is_modinv(e) and len(e.args) == 2 and not e.keywords and norm(e.args[1]) == "self.mod" and \
        norm(e.args[0]) in ("self.aC % self.mod", "self.aC")


def _check_normalize(ctx: Ctx, cls) -> None:
    """normalize: on the path where mp = modinv(aC) is positive, every coefficient is scaled by the same mp and aC becomes 1."""
    nz = cls.methods["normalize"]

    def symn(e):
        if _is_mp(e):
            return "mp"
        if _is_modinv(e):
            return "mp_of_something_else"
        return sym(e)
    scaled, unguarded, wrong_target = [], [], False
    for st, ret in _paths(nz):
        v, target = _sign_of(st.conds, _is_modinv)
        if v is not None and not _is_mp(target):
            wrong_target = True
        if v is True:
            scaled.append((st, ret))
        elif v is None and isinstance(ret, ast.Call) and any(_is_modinv(x) for x in ast.walk(ret)):
            unguarded.append((st, ret))
    ok = bool(scaled) and not wrong_target
    ctx.oblige(ok)
    ctx.check(ok, "ring-laws", nz, nz.node, "normalize: mp = modinv(aC)", "normalize does not scale by the inverse of aC")
    ok = bool(scaled) and not unguarded
    ctx.oblige(ok)
    ctx.check(ok, "ring-laws", nz, nz.node, "normalize has the mp > 0 branch",
              "normalize lost its scaling branch: the scaled value is not (only) returned when the inverse of aC exists")
    for n, (st, ret) in enumerate(scaled):
        r = _fp2_coeffs(nz, ret, symn, ignore_mod="self.mod")
        for k in SYMS:
            want = Poly.const(1) if k == "aC" else V("s", k) * Poly.var("mp")
            oblige(ctx, nz, f"normalize {k}" + (f" [path {n + 1}]" if n else ""), r[k], want)


def _check_eq(ctx: Ctx, cls) -> None:
    """
    __eq__ by decision table: for an FP2Value operand it returns True exactly when the three coefficient pairs (a, aC), (b, bC),
    (c, cC) of the normalised quotient agree.  Atoms are the comparisons of two coefficients of the quotient; a comparison of
    another pair (b == aC) is an independent atom, so a result that depends on it differs from the reference for some values.
    """
    eq = cls.methods["__eq__"]
    quotients = ("(self // other).normalize()",)
    ref = (("a", "aC"), ("b", "bC"), ("c", "cC"))

    def atom(e):
        if isinstance(e, ast.Compare) and len(e.ops) == 1 and isinstance(e.ops[0], (ast.Eq, ast.NotEq)):
            le, ri = e.left, e.comparators[0]
            if isinstance(le, ast.Attribute) and isinstance(ri, ast.Attribute) and norm(le.value) == norm(ri.value) and norm(le.value) in quotients \
                    and le.attr in SYMS and ri.attr in SYMS and le.attr != ri.attr:
                return tuple(sorted((le.attr, ri.attr))), isinstance(e.ops[0], ast.Eq)
        return None

    def tv(e, asg):  # noqa: PLR0911
        if isinstance(e, ast.Constant):
            return bool(e.value)
        if isinstance(e, ast.UnaryOp) and isinstance(e.op, ast.Not):
            v = tv(e.operand, asg)
            return None if v is None else not v
        parts = None
        if isinstance(e, ast.BoolOp):
            parts, conj = e.values, isinstance(e.op, ast.And)
        elif isinstance(e, ast.BinOp) and isinstance(e.op, (ast.BitAnd, ast.BitOr)):
            parts, conj = [e.left, e.right], isinstance(e.op, ast.BitAnd)
        elif isinstance(e, ast.Call) and isinstance(e.func, ast.Name) and e.func.id in ("all", "any") and len(e.args) == 1 and not e.keywords:
            parts, conj = _literal_elements(e.args[0]), e.func.id == "all"
        if parts is not None:
            vals = [tv(p, asg) for p in parts]
            if conj:
                return False if any(v is False for v in vals) else True if all(v is True for v in vals) else None
            return True if any(v is True for v in vals) else False if all(v is False for v in vals) else None
        if isinstance(e, ast.Call) and chain(e.func) == "isinstance" and len(e.args) == 2 and norm(e.args[0]) == "other" and norm(e.args[1]) == "FP2Value":
            return asg["inst"]
        a = atom(e)
        if a is not None:
            return asg[a[0]] == a[1]
        return None
    paths = _paths(eq)
    keys = list(ref)
    for st, ret in paths:
        for e in [c for c, _ in st.conds] + [ret]:
            for x in ast.walk(e):
                a = atom(x)
                if a is not None and a[0] not in keys:
                    keys.append(a[0])
    if len(keys) > 8:
        raise AnalysisError(f"undecided: {eq.qualname}: {len(keys)} different coefficient comparisons")
    ok = True
    why = ""
    for vals_ in itertools.product((True, False), repeat=len(keys)):
        asg = dict(zip(keys, vals_))
        asg["inst"] = True
        live = []
        for st, ret in paths:
            vals = [None if (v := tv(e, asg)) is None else v == p for e, p in st.conds]
            if any(v is False for v in vals):
                continue
            if any(v is None for v in vals):
                raise AnalysisError(f"undecided: {eq.qualname}: path condition `{_describe(st.conds)}` is not a comparison of the normalised quotient")
            live.append(ret)
        if len(live) != 1:
            raise AnalysisError(f"undecided: {eq.qualname}: {len(live)} paths for one outcome of the coefficient comparisons")
        got = tv(live[0], asg)
        if got is None:
            raise AnalysisError(f"undecided: {eq.qualname}: returns `{norm(live[0])[:80]}`, not a combination of the quotient's coefficient comparisons")
        if got != all(asg[k] for k in ref) and ok:
            ok = False
            why = "with " + ", ".join(f"{x}{'==' if asg[(x, y)] else '!='}{y}" for x, y in keys) + f" of the normalised quotient it returns {got}"
    ctx.oblige(ok)
    ctx.check(ok, "ring-laws", eq, eq.node, "equality = normalised quotient has numerator == denominator",
              "FP2Value equality is no longer quotient == 1: " + why)


def _check_init(ctx: Ctx, cls) -> None:
    """constructor reduces all six coefficients modulo mod"""
    init = cls.methods["__init__"]
    p = init.params()
    ok = len(p) == 8
    if ok:
        paths = _paths(init)
        ok = bool(paths)
        for st, _ in paths:
            for i, k in enumerate(SYMS):
                v = st.env.get(f"@self.{k}")
                ok = ok and v is not None and norm(v) == f"{p[2 + i]} % {p[1]}"
            v = st.env.get("@self.mod")
            ok = ok and v is not None and norm(v) == p[1]
    ctx.oblige(ok)
    ctx.check(ok, "ring-laws", init, init.node, "constructor stores every coefficient reduced modulo mod", "constructor no longer reduces/stores the six coefficients")


def _modinv_invariant(ctx: Ctx, mi: FuncInfo) -> bool:  # noqa: C901, PLR0911, PLR0912
    """
    Invariant I: x1*e - a and x2*e - b are multiples of m.  Checked symbolically: with a = x1*e - k1*m and
    b = x2*e - k2*m, one loop iteration (q, r = divmod(a, b) => r = a - q*b) yields new values for which
    new_x1*e - new_a and new_x2*e - new_b are polynomials every term of which contains m; (a, b) becomes (b, a mod b),
    so the loop is Euclid's and ends with a = gcd.  The roles of the four locals are taken from the code (the returned
    one, the one the loop tests, the dividend, the remaining one), not from their names.
    """
    e_, m_ = mi.params()
    seen = {}

    def hook(ex, loop, st):
        seen["loop"] = loop
        seen["pre"] = st.fork()
        return None                                                    # default summary: written names become opaque
    paths = _paths(mi, hook)
    loop = seen.get("loop")
    if loop is None or not isinstance(loop, ast.While) or loop.orelse or len(paths) != 1:
        return False
    pre = seen["pre"].env
    ret = paths[0][1]
    if not (isinstance(ret, ast.BinOp) and isinstance(ret.op, ast.Mod) and isinstance(ret.left, ast.Name) and norm(ret.right) == m_):
        return False
    x1 = ret.left.id
    sign, tgt = _sign_of([(loop.test, True)], lambda x: isinstance(x, ast.Name))
    if sign is not True:
        return False
    b = tgt.id
    init = {k: norm(v) for k, v in pre.items()}
    if init.get(x1) != "1" or init.get(b) != m_:
        return False
    a = [k for k, v in init.items() if v == e_ and k not in (x1, b)]
    x2 = [k for k, v in init.items() if v == "0" and k not in (x1, b)]
    if len(a) != 1 or len(x2) != 1:
        return False
    a, x2 = a[0], x2[0]
    X1, X2, E, M, K1, K2, Q = (Poly.var(n) for n in ("x1", "x2", "e", "m", "k1", "k2", "q"))
    env = {x1: X1, x2: X2, a: X1 * E - K1 * M, b: X2 * E - K2 * M}
    a0, b0 = env[a], env[b]

    def ev(x):
        # a // b -> q ; a % b -> a - q*b   (only while a and b still hold this iteration's values)
        def fix(n):
            if isinstance(n, ast.BinOp) and isinstance(n.op, (ast.FloorDiv, ast.Mod)) and norm(n.left) == a and norm(n.right) == b:
                if env[a] is not a0 or env[b] is not b0:
                    raise AnalysisError(f"undecided: {mi.qualname}: quotient taken after a/b were updated")
                return ast.Name(id="__q__", ctx=ast.Load()) if isinstance(n.op, ast.FloorDiv) else ast.Name(id="__r__", ctx=ast.Load())
            if isinstance(n, list):
                return [fix(y) for y in n]
            if not isinstance(n, ast.AST):
                return n
            new = n.__class__()
            for f in n._fields:
                if hasattr(n, f):
                    setattr(new, f, fix(getattr(n, f)))
            return new
        return eval_expr(fix(x), {**env, "__q__": Q, "__r__": a0 - Q * b0}, lambda y: None)
    for st in loop.body:
        if isinstance(st, ast.Assign) and len(st.targets) == 1:
            t, v = st.targets[0], st.value
            if isinstance(t, ast.Tuple) and isinstance(v, ast.Call) and chain(v.func) == "divmod":
                if [norm(x) for x in v.args] != [a, b] or len(t.elts) != 2 or env[a] is not a0 or env[b] is not b0:
                    return False
                qn, rn = (norm(x) for x in t.elts)
                env[qn] = Q
                env[rn] = a0 - Q * b0
            elif isinstance(t, ast.Name):
                env[t.id] = ev(v)
            elif isinstance(t, ast.Tuple) and isinstance(v, ast.Tuple) and len(t.elts) == len(v.elts) and all(isinstance(x, ast.Name) for x in t.elts):
                vals = [ev(x) for x in v.elts]
                for x, val in zip(t.elts, vals):
                    env[x.id] = val
            else:
                raise AnalysisError(f"undecided: {mi.qualname}: loop statement `{norm(st)[:60]}`")
        elif isinstance(st, ast.AugAssign) and isinstance(st.target, ast.Name) and isinstance(st.op, (ast.Add, ast.Sub, ast.Mult)):
            env[st.target.id] = ev(ast.BinOp(left=ast.Name(id=st.target.id, ctx=ast.Load()), op=st.op, right=st.value))
        elif isinstance(st, ast.Expr) and isinstance(st.value, ast.Constant):
            continue
        else:
            raise AnalysisError(f"undecided: {mi.qualname}: loop statement `{norm(st)[:60]}`")
    for xv, av in ((x1, a), (x2, b)):
        diff = env[xv] * E - env[av]
        if any("m" not in mon for mon in diff.t):
            return False
    # progress: (a, b) <- (b, a mod b)
    return (env[a] - b0).is_zero() and (env[b] - (a0 - Q * b0)).is_zero()


# ------------------------------------------------------------------------------------------------------------------
# intpow: square-and-multiply
# ------------------------------------------------------------------------------------------------------------------
_ACC = "__intpow_acc__"


def _parity(test: ast.AST, n: str):
    """True if `test` says "n is odd", False if it says "n is even", None if it is not a parity test of n."""
    facts = _atoms_with_polarity(test, True)
    if len(facts) != 1:
        return None
    f = facts[0]

    def is_bit(e):
        return isinstance(e, ast.BinOp) and isinstance(e.left, ast.Name) and e.left.id == n and \
            ((isinstance(e.op, ast.Mod) and const_value(e.right) == 2) or (isinstance(e.op, ast.BitAnd) and const_value(e.right) == 1))
    if f.op == "truthy" and is_bit(f.left):
        return f.pos
    if f.op == "eq":
        for x, y in ((f.left, f.right), (f.right, f.left)):
            if is_bit(x) and const_value(y) in (0, 1):
                return f.pos == (const_value(y) == 1)
    return None


def _halves(s: ast.stmt, n: str) -> bool:
    """n = n // 2, n //= 2, n >>= 1, n = n >> 1"""
    def half(op, right):
        return (isinstance(op, ast.FloorDiv) and const_value(right) == 2) or (isinstance(op, ast.RShift) and const_value(right) == 1)
    if isinstance(s, ast.AugAssign) and isinstance(s.target, ast.Name) and s.target.id == n:
        return half(s.op, s.value)
    if isinstance(s, ast.Assign) and len(s.targets) == 1 and isinstance(s.targets[0], ast.Name) and s.targets[0].id == n:
        v = s.value
        return isinstance(v, ast.BinOp) and isinstance(v.left, ast.Name) and v.left.id == n and half(v.op, v.right)
    return False


def _intpow_body(fi: FuncInfo, body, n: str, odd: bool):
    """
    One loop iteration on formal values: every local X is the monomial {X: 1}, products add exponents.  Returns
    (final monomials, n halved exactly once and only after its parity was read) for an odd / even n.
    """
    env: dict[str, dict[str, int]] = {}
    state = {"halved": 0, "bad": False}

    def mono(e):
        if isinstance(e, ast.Name):
            return dict(env.get(e.id, {e.id: 1}))
        if isinstance(e, ast.BinOp) and isinstance(e.op, ast.Mult):
            le, ri = mono(e.left), mono(e.right)
            for k, v in ri.items():
                le[k] = le.get(k, 0) + v
            return le
        raise AnalysisError(f"undecided: {fi.qualname}: loop expression `{norm(e)[:60]}`")

    def block(stmts):
        for s in stmts:
            if isinstance(s, ast.If):
                p = _parity(s.test, n)
                if p is None:
                    raise AnalysisError(f"undecided: {fi.qualname}: loop condition `{norm(s.test)[:60]}`")
                if state["halved"]:
                    state["bad"] = True                    # parity of the already halved exponent
                block(s.body if p == odd else s.orelse)
            elif _halves(s, n):
                state["halved"] += 1
            elif isinstance(s, ast.AugAssign) and isinstance(s.target, ast.Name) and isinstance(s.op, ast.Mult) and s.target.id != n:
                env[s.target.id] = mono(ast.BinOp(left=ast.Name(id=s.target.id, ctx=ast.Load()), op=ast.Mult(), right=s.value))
            elif isinstance(s, ast.Assign) and len(s.targets) == 1 and isinstance(s.targets[0], ast.Name) and s.targets[0].id != n:
                env[s.targets[0].id] = mono(s.value)
            elif isinstance(s, ast.Pass) or (isinstance(s, ast.Expr) and isinstance(s.value, ast.Constant)):
                continue
            else:
                raise AnalysisError(f"undecided: {fi.qualname}: loop statement `{norm(s)[:60]}`")
    block(body)
    return env, state["halved"] == 1 and not state["bad"]


def rule_intpow(ctx: Ctx) -> None:  # noqa: C901, PLR0912, PLR0915
    """
    intpow(power) is repeated multiplication: the loop keeps  acc * sq^n == self^|power|  (n odd: acc*sq, always sq*sq,
    n // 2), starts from acc = 1, sq = self, n = |power|, runs until n == 0 and the result is acc, inverted for power < 0.
    """
    fi = ctx.repo.cls("FP2Value", VP).methods["intpow"]
    power = fi.params()[1]
    seen: dict = {}
    verdict = {"loop": False, "R0": False, "U0": False, "n0": False, "result": False}

    def is_abs(e, conds) -> bool:
        if isinstance(e, ast.Call) and chain(e.func) == "abs" and len(e.args) == 1 and norm(e.args[0]) == power:
            return True
        neg = _decide(ast.Compare(left=ast.Name(id=power, ctx=ast.Load()), ops=[ast.Lt()], comparators=[ast.Constant(value=0)]), _known(conds))
        if neg is True:
            return isinstance(e, ast.UnaryOp) and isinstance(e.op, ast.USub) and norm(e.operand) == power
        if neg is False:
            return norm(e) == power
        return False

    def hook(ex, loop, st):
        if "loop" in seen and seen["loop"] is not loop:
            seen["many"] = True
        seen["loop"] = loop
        if not isinstance(loop, ast.While) or loop.orelse:
            return None
        sign, tgt = _sign_of([(loop.test, True)], lambda x: isinstance(x, ast.Name))
        if sign is not True or len(_atoms_with_polarity(loop.test, True)) != 1:
            return None
        n = tgt.id
        odd, okodd = _intpow_body(fi, loop.body, n, True)
        even, okeven = _intpow_body(fi, loop.body, n, False)
        sq = [x for x in odd if odd[x] == {x: 2} and even.get(x) == {x: 2}]
        accs = [x for x in odd if len(sq) == 1 and x != sq[0] and odd[x] == {x: 1, sq[0]: 1} and even.get(x, {x: 1}) == {x: 1}]
        good = okodd and okeven and len(sq) == 1 and len(accs) >= 1      # other names are temporaries: only acc is marked below
        seen.setdefault("loops_ok", []).append(good)
        if good:
            acc, u = accs[0], sq[0]
            r0, u0, n0 = st.env.get(acc), st.env.get(u), st.env.get(n)
            one = False
            if r0 is not None and isinstance(r0, ast.Call) and chain(r0.func) == "FP2Value":
                try:
                    co = _fp2_coeffs(fi, r0, sym)
                    one = all((co[k] - Poly.const(DEFAULTS[k] if k != "a" else 1)).is_zero() for k in SYMS)
                except AnalysisError:
                    one = False
            seen.setdefault("R0", []).append(one)
            seen.setdefault("U0", []).append(u0 is not None and norm(u0) == "self")
            seen.setdefault("n0", []).append(n0 is not None and is_abs(n0, st.conds))
        post = st.fork()
        for x in _written_names([loop]):
            post.havoc(x)
        if good:
            for x in accs:
                post.env[x] = ast.Name(id=_ACC, ctx=ast.Load())
        return [post]
    paths = _paths(fi, hook)
    verdict["loop"] = bool(seen.get("loops_ok")) and all(seen["loops_ok"]) and not seen.get("many")
    for k in ("R0", "U0", "n0"):
        verdict[k] = bool(seen.get(k)) and all(seen[k])
    res = bool(paths)
    for st, ret in paths:
        neg = _decide(ast.Compare(left=ast.Name(id=power, ctx=ast.Load()), ops=[ast.Lt()], comparators=[ast.Constant(value=0)]), _known(st.conds))
        if neg is False:
            res = res and isinstance(ret, ast.Name) and ret.id == _ACC
        elif neg is True:
            res = res and norm(ret) == f"{_ACC}.inverse().normalize()"
        else:
            res = False
    verdict["result"] = res
    good = all(verdict.values())
    ctx.oblige(good)
    ctx.check(good, "ring-laws", fi, fi.node, "intpow is square-and-multiply from 1 with inverse for negative powers",
              f"intpow is not square-and-multiply (loop={verdict['loop']} R0={verdict['R0']} U0={verdict['U0']} n0={verdict['n0']} result={verdict['result']})")


# ------------------------------------------------------------------------------------------------------------------
# codec
# ------------------------------------------------------------------------------------------------------------------
def _bytes_parts(ctx: Ctx, fi: FuncInfo, e: ast.AST, depth: int = 4) -> list[ast.AST]:
    """A bytes expression as the sequence of parts it concatenates (`+`, b''.join of a literal / comprehension over a literal, super().serialize())."""
    if isinstance(e, ast.Constant) and e.value == b"":
        return []
    if isinstance(e, ast.BinOp) and isinstance(e.op, ast.Add):
        return _bytes_parts(ctx, fi, e.left, depth) + _bytes_parts(ctx, fi, e.right, depth)
    if isinstance(e, ast.Call) and isinstance(e.func, ast.Attribute):
        f = e.func
        if f.attr == "join" and isinstance(f.value, ast.Constant) and f.value.value == b"" and len(e.args) == 1:
            elts = _literal_elements(e.args[0])
            if elts is not None:
                return [p for x in elts for p in _bytes_parts(ctx, fi, x, depth)]
        if f.attr == "serialize" and isinstance(f.value, ast.Call) and chain(f.value.func) == "super" and fi.cls is not None and depth:
            for k in fi.cls.mro()[1:]:
                if "serialize" in k.methods:
                    return _serialize_parts(ctx, k.methods["serialize"], depth - 1)
    return [e]


def _serialize_parts(ctx: Ctx, fi: FuncInfo, depth: int = 4) -> list[ast.AST]:
    paths = _paths(fi)
    if len(paths) != 1:
        raise AnalysisError(f"undecided: {fi.qualname}: {len(paths)} return paths in a serializer")
    return _bytes_parts(ctx, fi, paths[0][1], depth)


def _is_ipack(e: ast.AST) -> bool:
    return isinstance(e, ast.Call) and chain(e.func) == "ipack" and len(e.args) == 1


def _ipack_count(ctx: Ctx, fi: FuncInfo, depth: int = 3) -> int:
    """Number of integers a serializer emits: the ipack parts of the returned concatenation (the parent's through super().serialize())."""
    parts = _serialize_parts(ctx, fi, depth)
    other = [p for p in parts if not _is_ipack(p)]
    if other:
        raise AnalysisError(f"undecided: {fi.qualname}: emits `{norm(other[0])[:60]}` besides ipack()ed integers")
    return len(parts)


def _len_bound(fi: FuncInfo, test: ast.AST):
    """(X, K) when a loop test contains the conjunct len(X) < K (any spelling)."""
    for f in _atoms_with_polarity(test, True):
        if f.op != "lt" or f.right is None:
            continue
        le, ri = f.left, f.right
        if f.pos and isinstance(le, ast.Call) and chain(le.func) == "len" and len(le.args) == 1 and isinstance(le.args[0], ast.Name):
            return le.args[0].id, ri, 0                                   # len(X) < K
        if not f.pos and isinstance(ri, ast.Call) and chain(ri.func) == "len" and len(ri.args) == 1 and isinstance(ri.args[0], ast.Name):
            return ri.args[0].id, le, 1                                   # not K < len(X)  ==  len(X) < K + 1
    return None


def _star_args(call: ast.Call) -> list[ast.AST] | None:
    out = []
    for a in call.args:
        if isinstance(a, ast.Starred):
            elts = _literal_elements(a.value)
            if elts is None:
                return None
            out.extend(elts)
        else:
            out.append(a)
    return out


def rule_codec(ctx: Ctx) -> None:  # noqa: C901, PLR0912, PLR0915
    repo = ctx.repo
    for name in ("BonehPublicKey", "BonehPrivateKey"):
        c = repo.cls(name, PS)
        fields = repo.resolve_const(c.module, c.lookup_attr("FIELDS"), c)
        n = _ipack_count(ctx, c.lookup("serialize"))
        ctx.check(fields == n, "codec-arity", c.where, "FIELDS", f"{name}.serialize emits {n} integers == FIELDS ({fields})",
                  f"{name}.serialize emits {n} integers but unserialize reads FIELDS={fields}")
    # key unserialize: the read loop stops at FIELDS integers and nothing but None is returned unless exactly FIELDS were read
    un = repo.method("BonehPublicKey", "unserialize", PS)
    bounds = []
    for l in walk_no_nested(un.node):
        if isinstance(l, ast.While):
            b = _len_bound(un, l.test)
            if b is not None and b[2] == 0 and norm(resolve(un, b[1])) == "cls.FIELDS":
                bounds.append(b[0])
    ok = len(bounds) == 1
    built = 0
    if ok:
        nums = bounds[0]
        want = ast.Compare(left=ast.Call(func=ast.Name(id="len", ctx=ast.Load()), args=[ast.Name(id=nums, ctx=ast.Load())], keywords=[]),
                           ops=[ast.Eq()], comparators=[ast.Attribute(value=ast.Name(id="cls", ctx=ast.Load()), attr="FIELDS", ctx=ast.Load())])
        for st, ret in _paths(un):
            if isinstance(ret, ast.Constant) and ret.value is None:
                continue
            built += 1
            if _decide(want, _known(st.conds)) is not True:
                ok = False
        ok = ok and built > 0
    ctx.check(ok, "codec-arity", un, un.node, "key unserialize reads exactly FIELDS integers, else None", "key unserialize accepts a wrong number of fields")
    bp = repo.cls("BitPairAttestation", "ipv8/attestation/wallet/bonehexact/structs.py")
    ser = bp.methods["serialize"]
    parts = _serialize_parts(ctx, ser)
    n = len([p for p in parts if _is_ipack(p)])
    u = bp.methods["unserialize"]
    lim, numsvar = [], None
    for l in walk_no_nested(u.node):
        if isinstance(l, ast.While):
            b = _len_bound(u, l.test)
            if b is not None and isinstance(const_value(resolve(u, b[1])), int):
                lim.append(const_value(resolve(u, b[1])) + b[2])
                numsvar = b[0]
    idx = sorted({const_value(x.slice) for x in ast.walk(u.node) if isinstance(x, ast.Subscript) and chain(x.value) == numsvar and isinstance(const_value(x.slice), int)})
    ctx.check(lim == [n] and idx == list(range(n)), "codec-arity", u, u.node, f"BitPairAttestation: {n} integers written, {lim} read, indices {idx}",
              f"BitPairAttestation serialize/unserialize arity mismatch: writes {n}, reads {lim}, uses {idx}")
    order = [norm(p.args[0]) if _is_ipack(p) else "?" + norm(p)[:30] for p in parts]
    ctx.check(order == ["self.a.a", "self.a.b", "self.b.a", "self.b.b", "self.complement.a", "self.complement.b"], "codec-arity", ser, ser.node,
              "BitPairAttestation field order a, b, complement", f"BitPairAttestation field order changed: {order}")
    # the value handed to the constructor, whatever locals it went through: cls(FP2Value(p, n0, n1), FP2Value(p, n2, n3), FP2Value(p, n4, n5))
    pname = u.params()[2] if len(u.params()) > 2 else "p"
    inits: list[str] = []
    upaths = [(st, ret) for st, ret in _paths(u) if not (isinstance(ret, ast.Constant) and ret.value is None)]
    if len(upaths) == 1 and isinstance(upaths[0][1], ast.Call) and chain(upaths[0][1].func) == "cls" and not upaths[0][1].keywords:
        args = _star_args(upaths[0][1])
        inits = [norm(_simp(a)) for a in args] if args is not None else []
    else:
        inits = [norm(c) for c in calls(u, "FP2Value")]
    ctx.check(inits == [f"FP2Value({pname}, {numsvar}[{2 * i}], {numsvar}[{2 * i + 1}])" for i in range(3)], "codec-arity", u, u.node,
              "unserialize rebuilds (a, b, complement) from consecutive pairs", f"unserialize pairs fields differently: {inits}")
    _check_int_layout(ctx, repo)


def _check_int_layout(ctx: Ctx, repo) -> None:
    """
    ipack writes [1 byte: len(L)] [L = big-endian length of P] [P = big-endian number]; iunpack reads llen = byte 0,
    l = number in s[1 : 1+llen], the value from s[1+llen : 1+llen+l] and returns the rest s[1+llen+l :].  The slice
    bounds are compared as polynomials in llen and l, so hoisted offsets and reordered sums are the same layout.
    """
    ip, iu = repo.func(PS, "ipack"), repo.func(PS, "iunpack")
    ok = False
    pp = _paths(ip)
    if len(pp) == 1:
        parts = _bytes_parts(ctx, ip, pp[0][1])
        num = ip.params()[0]
        if len(parts) == 3:
            head, ll, pn = parts
            ok = norm(pn) == f"_num_to_str({num})" and norm(ll) == f"_num_to_str(len({norm(pn)}))" and \
                norm(head) in (f"struct.pack('>B', len({norm(ll)}))", f"bytes([len({norm(ll)})])")
    up = _paths(iu)
    ok2 = False
    if len(up) == 1 and isinstance(up[0][1], ast.Tuple) and len(up[0][1].elts) == 2:
        s = iu.params()[0]
        val, rest = up[0][1].elts

        def bounds(e):
            if isinstance(e, ast.Subscript) and norm(e.value) == s and isinstance(e.slice, ast.Slice) and e.slice.step is None:
                return e.slice.lower, e.slice.upper
            return None

        def is_llen(e):
            return norm(e) in (f"struct.unpack('>B', {s}[0:1])[0]", f"struct.unpack('>B', {s}[:1])[0]", f"{s}[0]")

        def poly(e):
            if e is None:
                return None

            def symbol(x):
                if is_llen(x):
                    return "llen"
                if isinstance(x, ast.Call) and chain(x.func) == "_str_to_num" and len(x.args) == 1:
                    b = bounds(x.args[0])
                    if b is not None and b[0] is not None and b[1] is not None:
                        lo, hi = poly(b[0]), poly(b[1])
                        if lo is not None and hi is not None and (lo - Poly.const(1)).is_zero() and (hi - Poly.const(1) - Poly.var("llen")).is_zero():
                            return "l"
                    return "some_other_number"
                return None
            try:
                return eval_expr(e, {}, symbol)
            except AnalysisError:
                return None
        vb = bounds(val.args[0]) if isinstance(val, ast.Call) and chain(val.func) == "_str_to_num" and len(val.args) == 1 else None
        rb = bounds(rest)
        if vb is not None and rb is not None and rb[1] is None:
            lo, hi, ro = poly(vb[0]), poly(vb[1]), poly(rb[0])
            start = Poly.const(1) + Poly.var("llen")
            end = start + Poly.var("l")
            ok2 = lo is not None and hi is not None and ro is not None and (lo - start).is_zero() and (hi - end).is_zero() and (ro - end).is_zero()
    ctx.check(ok and ok2, "codec-arity", ip, ip.node, "ipack/iunpack agree on [1-byte len-of-len][len][number]", "ipack and iunpack disagree on the integer layout")


def rule_protocol_shape(ctx: Ctx) -> None:
    """
    Two necessary conditions of the protocol clauses that ARE visible in code shape (they do not make the proofs sound):
    a range proof is accepted only on the evidence of at least one verified response, and an incoming attestation is
    matched to the request whose global time it echoes (each request has its own one-time key).
    """
    repo = ctx.repo
    pb = repo.method("PengBaoRangeAlgorithm", "certainty", "ipv8/attestation/wallet/pengbaorange/algorithm.py")
    agg = pb.params()[2]
    # symbolic evaluation for an aggregate that holds no response (only the 'attestation' key, or nothing): the verdict must be "not in range"
    seeds = [v for _, v, _ in local_defs(pb, "in_range") if v is not None]

    def more_than_one(v) -> bool:
        if not isinstance(v, ast.Compare) or len(v.ops) != 1:
            return False
        f = fact_of(v, True)
        if f.op != "lt":
            return False
        if f.pos:       # K < len(agg) with K >= 1
            return norm(f.right) == f"len({agg})" and const_value(f.left) == 1
        return norm(f.left) == f"len({agg})" and const_value(f.right) == 2          # not len(agg) < 2
    nonvacuous = any(more_than_one(v) for v in seeds)
    vacuous_all = any(isinstance(n, ast.Call) and chain(n.func) == "all" for v in seeds for n in ast.walk(v)) and not nonvacuous
    conj = any(isinstance(s_, ast.AugAssign) and isinstance(s_.op, ast.BitAnd) and norm(s_.target) == "in_range" for s_ in walk_no_nested(pb.node)) or \
        any(isinstance(v, ast.BinOp) and isinstance(v.op, ast.BitAnd) and "in_range" in (norm(v.left), norm(v.right)) or
            isinstance(v, ast.BoolOp) and isinstance(v.op, ast.And) and "in_range" in [norm(x) for x in v.values] for v in seeds)
    ctx.check(nonvacuous and conj and not vacuous_all, "protocol-shape", pb, pb.node, "range certainty is 1 only with at least one response and all responses verified",
              "PengBaoRangeAlgorithm.certainty accepts vacuously: with no verified challenge response the aggregate yields certainty 1.0, so a proof built for a value outside "
              "the range is accepted before any answer was checked")
    oc = repo.method("AttestationCommunity", "on_attestation_chunk", "ipv8/attestation/wallet/community.py")
    comps = [n for n in ast.walk(oc.node) if isinstance(n, ast.ListComp) and "self.allowed_attestations.get(" in norm(n.generators[0].iter)]
    ok = False
    if len(comps) == 1:
        tgt = norm(comps[0].generators[0].target)
        for i in comps[0].generators[0].ifs:
            f = fact_of(i, True)
            if f.op == "eq" and f.pos and {norm(f.left), norm(f.right)} == {tgt, "str(dist.global_time).encode()"}:
                ok = True
    ctx.check(ok, "protocol-shape", oc, comps[0] if comps else oc.node, "an incoming attestation is matched to the request whose global time it echoes",
              "on_attestation_chunk no longer selects the outstanding request by the echoed global time: with two requests in flight the attestation is stored under another "
              "request's attribute name and one-time key, and the honest owner's answers score 0 for the true value")


# ------------------------------------------------------------------------------------------------------------------
# range proof: the verification equations of the Peng-Bao proof
# ------------------------------------------------------------------------------------------------------------------
def _last(e: ast.AST) -> str:
    e = strip_cast(e)
    return e.attr if isinstance(e, ast.Attribute) else e.id if isinstance(e, ast.Name) else norm(e)


def _group_term(e: ast.AST, pnames: dict[str, str]) -> dict[str, Poly]:
    """A product of powers of group elements as an exponent vector {element: exponent polynomial}: * adds, // subtracts, intpow scales."""
    e = strip_cast(e)
    if isinstance(e, ast.BinOp) and isinstance(e.op, (ast.Mult, ast.FloorDiv)):
        le, ri = _group_term(e.left, pnames), _group_term(e.right, pnames)
        for k, v in ri.items():
            le[k] = le.get(k, Poly()) + (v if isinstance(e.op, ast.Mult) else -v)
        return le
    if isinstance(e, ast.Call) and isinstance(e.func, ast.Attribute):
        if e.func.attr == "intpow" and len(e.args) == 1 and not e.keywords:
            ex = eval_expr(e.args[0], {}, lambda x: pnames.get(x.id, "?" + x.id) if isinstance(x, ast.Name) else None)
            return {k: v * ex for k, v in _group_term(e.func.value, pnames).items()}
        if e.func.attr == "inverse" and not e.args:
            return {k: -v for k, v in _group_term(e.func.value, pnames).items()}
        if e.func.attr == "normalize" and not e.args:
            return _group_term(e.func.value, pnames)
    if isinstance(e, (ast.Attribute, ast.Name)):
        return {_last(e): Poly.const(1)}
    raise AnalysisError(f"group term: unsupported `{norm(e)[:60]}`")


def rule_range_binding(ctx: Ctx) -> None:
    """
    PengBaoPublicData.check(a, b, s, t, x, y, u, v) accepts a range proof only if ALL verification equations hold.  The
    sub-proofs (EL, SQR) and the response equations only speak about c1, c2, ca*; it is the two binding equations
    c1 == c / g^(a-1) and c2 == g^(b+1) / c that tie them to the attested value commitment c and to the verifier's own
    interval [a, b] (c1 commits to m-a+1, c2 to b-m+1; both are then shown non-negative).  Without either, a proof built
    for another interval / another value is accepted.  Equations are compared as exponent vectors over the commitments,
    so `c1 * g^(a-1) == c`, hoisted aliases or a helper for g^m * h^r are the same equation.
    """
    repo = ctx.repo
    fi = repo.method("PengBaoPublicData", "check", "ipv8/attestation/wallet/pengbaorange/structs.py")
    p = fi.params()
    if len(p) != 9:
        raise AnalysisError(f"anchor-lost: {fi.qualname} no longer takes (a, b, s, t, x, y, u, v)")
    pn = dict(zip(p[1:], ("a", "b", "s", "t", "x", "y", "u", "v")))
    paths = _paths(fi)
    if len(paths) != 1:
        raise AnalysisError(f"undecided: {fi.qualname}: {len(paths)} return paths")
    conj = _and_parts(paths[0][1])
    relations: list[dict[str, Poly]] = []
    positive: set[str] = set()
    subproofs: set[tuple] = set()
    for c in conj:
        if isinstance(c, ast.Compare) and len(c.ops) == 1:
            f = fact_of(c, True)
            if f.op == "eq" and f.pos:
                try:
                    le, ri = _group_term(f.left, pn), _group_term(f.right, pn)
                except AnalysisError:
                    continue
                rel = dict(le)
                for k, v in ri.items():
                    rel[k] = rel.get(k, Poly()) - v
                relations.append({k: v for k, v in rel.items() if not v.is_zero()})
            elif f.op == "lt" and f.pos and const_value(f.left) == 0 and isinstance(f.right, ast.Name):
                positive.add(pn.get(f.right.id, f.right.id))
            elif f.op == "lt" and not f.pos and const_value(f.right) == 1 and isinstance(f.left, ast.Name):
                positive.add(pn.get(f.left.id, f.left.id))
        elif isinstance(c, ast.Call) and isinstance(c.func, ast.Attribute) and c.func.attr == "check" and not c.keywords:
            subproofs.add((_last(c.func.value), tuple(_last(a) for a in c.args)))
    if not relations:
        raise AnalysisError(f"anchor-lost: {fi.qualname}: no verification equation recognised in `{norm(paths[0][1])[:80]}`")

    def has(want: dict[str, Poly]) -> bool:
        neg = {k: -v for k, v in want.items()}
        return any(r.keys() == want.keys() and (all((r[k] - want[k]).is_zero() for k in want) or all((r[k] - neg[k]).is_zero() for k in want))
                   for r in relations)
    one = Poly.const(1)
    A, B, S, T, X, Y, U, W = (Poly.var(n) for n in ("a", "b", "s", "t", "x", "y", "u", "v"))
    equations = [
        ("c1 == c // g^(a-1)", {"c1": one, "c": -one, "g": A - one},
         "binds the lower-bound commitment c1 to the value commitment c and the verifier's lower bound a"),
        ("c2 == g^(b+1) // c", {"c2": one, "c": one, "g": -(B + one)},
         "binds the upper-bound commitment c2 to the value commitment c and the verifier's upper bound b"),
        ("caa == ca1 * ca2 * ca3", {"caa": one, "ca1": -one, "ca2": -one, "ca3": -one}, "splits the squared commitment into the three parts the responses open"),
        ("g^x * h^u == ca1^s * ca2 * ca3", {"g": X, "h": U, "ca1": -S, "ca2": -one, "ca3": -one}, "verifies the first challenge response"),
        ("g^y * h^v == ca1 * ca2^t * ca3", {"g": Y, "h": W, "ca1": -one, "ca2": -T, "ca3": -one}, "verifies the second challenge response"),
    ]
    for text, want, role in equations:
        ctx.check(has(want), "range-binding", fi, f"check: {text}", f"PengBaoPublicData.check requires {text}",
                  f"PengBaoPublicData.check no longer requires {text} (which {role}): the remaining equations do not tie the proof to the "
                  "attested value and the verifier's interval, so a proof built for a value outside the range (e.g. for a shifted interval of the same width) is accepted")
    for v in ("x", "y"):
        ctx.check(v in positive, "range-binding", fi, f"check: {v} > 0", f"PengBaoPublicData.check requires the response {v} to be positive",
                  f"PengBaoPublicData.check no longer requires {v} > 0: a non-positive response opens the commitment for a value outside the range")
    for recv, args in (("el", ("g", "h", "c1", "h", "c2", "ca")), ("sqr1", ("ca", "h", "caa")), ("sqr2", ("g", "h", "ca3"))):
        ctx.check((recv, args) in subproofs, "range-binding", fi, f"check: {recv}.check({', '.join(args)})",
                  f"PengBaoPublicData.check verifies the sub-proof {recv} on ({', '.join(args)})",
                  f"PengBaoPublicData.check no longer verifies the sub-proof {recv}.check({', '.join(args)}): the commitments it relates are unconstrained")


# ------------------------------------------------------------------------------------------------------------------
# a challenge response is consumed together with its pending-challenge entry
# ------------------------------------------------------------------------------------------------------------------
def rule_response_consumed(ctx: Ctx) -> None:
    """
    AttestationCommunity.on_challenge_response feeds the answer into the verifier's relativity map
    (process_challenge_response / process_honesty_challenge).  The bit-pair profile is reconstructed by COUNTING answers,
    so each outstanding challenge may be answered once: on every path that processes the answer the PendingChallengeCache
    entry it was looked up under must be popped (before, or on every way out afterwards).  Otherwise a duplicated datagram
    is counted twice, the profile over-counts a class and the true value scores 0.
    """
    repo = ctx.repo
    fi = repo.method("AttestationCommunity", "on_challenge_response", "ipv8/attestation/wallet/community.py")
    cfg = ctx.cfg(fi)
    payload = fi.params()[-1]

    def is_pending_id(call: ast.Call) -> bool:
        txt = " ".join(norm(resolve(fi, a.value if isinstance(a, ast.Starred) else a)) for a in call.args)
        return "'proving-hash'" in txt and f"{payload}.challenge_hash" in txt
    uses = [c for c in calls(fi) if call_name(c) in ("process_challenge_response", "process_honesty_challenge")]
    ctx.anchor(uses, "on_challenge_response feeds the response into process_challenge_response / process_honesty_challenge")
    pops = [c for c in calls(fi) if chain(c.func) == "self.request_cache.pop" and is_pending_id(c)]
    pop_nodes = [n for c in pops for n in cfg.nodes_for(c)]
    for u in uses:
        ok = bool(pop_nodes)
        for n in cfg.nodes_for(u):
            if not cfg.reachable(n):
                continue
            ok = ok and (cfg.must_complete(n, pop_nodes) or cfg.always_followed_by(n, pop_nodes))
        ctx.check(ok, "response-consumed", fi, enclosing_stmt(u), f"{call_name(u)}: the pending challenge is popped on every path that processes the response",
                  f"on_challenge_response hands the response to {call_name(u)} on a path that does not pop the PendingChallengeCache entry "
                  f"('proving-hash', {payload}.challenge_hash) - not before it and not on every way out (early return): a duplicated / replayed response is "
                  "counted again in the relativity map, the bit-pair profile over-counts and the honest prover's true value scores 0")


def run(ctx: Ctx) -> None:
    rule_protocol_shape(ctx)
    rule_range_binding(ctx)
    rule_response_consumed(ctx)
    rule_ring_laws(ctx)
    rule_intpow(ctx)
    rule_codec(ctx)
    ctx.extra["obligations"] = ctx.obligations
    ctx.extra["discharged"] = ctx.discharged
    ctx.assume("NOT decided: completeness/soundness of the exact-match and range proofs, Boneh encode/decode, honesty checks in on_challenge_response - number theory over run-time keys and randomness")
    ctx.assume("identities proved over Z[symbols]; reduction modulo p is a ring homomorphism, so they hold for every modulus; division requires an invertible denominator")


WITNESSES = [
    {"name": "pre-fix: __add__ numerator lacks two terms", "file": VP, "rule": "ring-laws",
     "old": "             + self.cC * other.b - self.b * other.bC + self.c * other.bC - self.aC * other.c + self.bC * other.c\n             - self.a * other.cC + self.b * other.cC)\n        b = (self.bC * other.a",
     "new": "             + self.cC * other.b - self.aC * other.c + self.bC * other.c\n             - self.a * other.cC + self.b * other.cC)\n        b = (self.bC * other.a"},
    {"name": "sign flip in __mul__ b", "file": VP, "rule": "ring-laws",
     "old": "        b = (self.b * other.a - self.c * other.a + self.a * other.b\n             - self.b * other.b - self.a * other.c + self.c * other.c)\n        aC = (self.aC * other.aC - self.cC * other.aC - self.bC * other.bC\n              + self.cC * other.bC - self.aC * other.cC + self.bC * other.cC)\n        bC = (self.bC * other.aC - self.cC * other.aC + self.aC * other.bC\n              - self.bC * other.bC - self.aC * other.cC + self.cC * other.cC)\n        return FP2Value(self.mod, a=a, b=b, aC=aC, bC=bC)\n\n    def __floordiv__",
     "new": "        b = (self.b * other.a - self.c * other.a + self.a * other.b\n             + self.b * other.b - self.a * other.c + self.c * other.c)\n        aC = (self.aC * other.aC - self.cC * other.aC - self.bC * other.bC\n              + self.cC * other.bC - self.aC * other.cC + self.bC * other.cC)\n        bC = (self.bC * other.aC - self.cC * other.aC + self.aC * other.bC\n              - self.bC * other.bC - self.aC * other.cC + self.cC * other.cC)\n        return FP2Value(self.mod, a=a, b=b, aC=aC, bC=bC)\n\n    def __floordiv__"},
    {"name": "division uses numerator twice", "file": VP, "rule": "ring-laws",
     "old": "        aC = (self.aC * other.a - self.cC * other.a - self.bC * other.b\n              + self.cC * other.b - self.aC * other.c + self.bC * other.c)",
     "new": "        aC = (self.aC * other.aC - self.cC * other.a - self.bC * other.b\n              + self.cC * other.b - self.aC * other.c + self.bC * other.c)"},
    {"name": "inverse forgets c", "file": VP, "rule": "ring-laws",
     "old": "return FP2Value(self.mod, a=self.aC, b=self.bC, c=self.cC, aC=self.a, bC=self.b, cC=self.c)",
     "new": "return FP2Value(self.mod, a=self.aC, b=self.bC, aC=self.a, bC=self.b)"},
    {"name": "normalize scales numerator only", "file": VP, "rule": "ring-laws",
     "old": "            bC = (self.bC * mp) % self.mod", "new": "            bC = self.bC % self.mod"},
    {"name": "intpow squares before multiplying", "file": VP, "rule": "ring-laws",
     "old": "            if (n % 2) == 1:\n                R *= U\n            U *= U", "new": "            U *= U\n            if (n % 2) == 1:\n                R *= U"},
    {"name": "modinv update wrong", "file": VP, "rule": "ring-laws",
     "old": "        xn = x1 - q * x2", "new": "        xn = x1 + q * x2"},
    {"name": "equality ignores x coefficient", "file": VP, "rule": "ring-laws",
     "old": "return all([divd.a == divd.aC, divd.b == divd.bC, divd.c == divd.cC])", "new": "return all([divd.a == divd.aC, divd.c == divd.cC])"},
    {"name": "private key drops a field", "file": "ipv8/attestation/wallet/primitives/structs.py", "rule": "codec-arity",
     "old": "        return super().serialize() + ipack(self.n) + ipack(self.t1)", "new": "        return super().serialize() + ipack(self.n)"},
    {"name": "bitpair field order swapped", "file": "ipv8/attestation/wallet/bonehexact/structs.py", "rule": "codec-arity",
     "old": "        return (ipack(self.a.a) + ipack(self.a.b) + ipack(self.b.a) + ipack(self.b.b)", "new": "        return (ipack(self.a.a) + ipack(self.b.a) + ipack(self.a.b) + ipack(self.b.b)"},
    {"name": "__mul__ fast path whose guard forgets the x^2 denominator coefficient", "file": VP, "rule": "ring-laws",
     "old": "             - self.b * other.b - self.a * other.c + self.c * other.c)\n        aC = (self.aC * other.aC - self.cC * other.aC - self.bC * other.bC\n              + self.cC * other.bC - self.aC * other.cC + self.bC * other.cC)\n        bC = (self.bC * other.aC - self.cC * other.aC + self.aC * other.bC\n              - self.bC * other.bC - self.aC * other.cC + self.cC * other.cC)\n        return FP2Value(self.mod, a=a, b=b, aC=aC, bC=bC)\n\n    def __floordiv__",
     "new": "             - self.b * other.b - self.a * other.c + self.c * other.c)\n        if self.aC == 1 and other.aC == 1 and self.bC == 0 and other.bC == 0 and self.cC == 0:\n            return FP2Value(self.mod, a=a, b=b)\n        aC = (self.aC * other.aC - self.cC * other.aC - self.bC * other.bC\n              + self.cC * other.bC - self.aC * other.cC + self.bC * other.cC)\n        bC = (self.bC * other.aC - self.cC * other.aC + self.aC * other.bC\n              - self.bC * other.bC - self.aC * other.cC + self.cC * other.cC)\n        return FP2Value(self.mod, a=a, b=b, aC=aC, bC=bC)\n\n    def __floordiv__"},
    {"name": "equality accepts when one pair agrees", "file": VP, "rule": "ring-laws",
     "old": "return all([divd.a == divd.aC, divd.b == divd.bC, divd.c == divd.cC])", "new": "return divd.a == divd.aC or (divd.b == divd.bC and divd.c == divd.cC)"},
    {"name": "intpow does not invert for negative powers", "file": VP, "rule": "ring-laws",
     "old": "        return R.inverse().normalize() if power < 0 else R", "new": "        return R"},
    {"name": "intpow reads the parity of the halved exponent", "file": VP, "rule": "ring-laws",
     "old": "            if (n % 2) == 1:\n                R *= U\n            U *= U\n            n = n // 2", "new": "            n = n // 2\n            if (n % 2) == 1:\n                R *= U\n            U *= U"},
    {"name": "normalize scales without checking that the inverse exists", "file": VP, "rule": "ring-laws",
     "old": "        if mp > 0:\n            a = (self.a * mp) % self.mod", "new": "        if self.aC > 0:\n            a = (self.a * mp) % self.mod"},
    {"name": "modinv does not step to (b, a mod b)", "file": VP, "rule": "ring-laws",
     "old": "        a, b, x1, x2 = b, r, x2, xn", "new": "        a, b, x1, x2 = b, a - r, x2, xn"},
    {"name": "constructor stores cC unreduced", "file": VP, "rule": "ring-laws",
     "old": "aC % mod, bC % mod, cC % mod", "new": "aC % mod, bC % mod, cC"},
    {"name": "key unserialize returns a key for any number of fields", "file": PS, "rule": "codec-arity",
     "old": "        if len(nums) != cls.FIELDS:\n            return None\n", "new": "        if len(nums) < 3:\n            return None\n"},
    {"name": "iunpack returns the rest one byte early", "file": PS, "rule": "codec-arity",
     "old": "    return _str_to_num(s[1 + llen:llen + l + 1]), s[llen + l + 1:]", "new": "    return _str_to_num(s[1 + llen:llen + l + 1]), s[llen + l:]"},
    {"name": "ipack length byte counts the number instead of its length field", "file": PS, "rule": "codec-arity",
     "old": "return struct.pack(\">B\", len(l)) + l + pnum", "new": "return struct.pack(\">B\", len(pnum)) + l + pnum"},
    {"name": "bitpair unserialize crosses a coefficient pair", "file": "ipv8/attestation/wallet/bonehexact/structs.py", "rule": "codec-arity",
     "old": "FP2Value(p, nums[2], nums[3])", "new": "FP2Value(p, nums[3], nums[2])"},
    {"name": "range check: lower binding off by one", "file": "ipv8/attestation/wallet/pengbaorange/structs.py", "rule": "range-binding",
     "old": "self.commitment.c // self.PK.g.intpow(a - 1)", "new": "self.commitment.c // self.PK.g.intpow(a)"},
    {"name": "range check: upper binding dropped", "file": "ipv8/attestation/wallet/pengbaorange/structs.py", "rule": "range-binding",
     "old": "        out &= self.commitment.c2 == self.PK.g.intpow(b + 1) // self.commitment.c\n", "new": ""},
    {"name": "range check: response positivity dropped", "file": "ipv8/attestation/wallet/pengbaorange/structs.py", "rule": "range-binding",
     "old": "        out &= x > 0\n", "new": ""},
    {"name": "range check: square proof on the wrong commitment", "file": "ipv8/attestation/wallet/pengbaorange/structs.py", "rule": "range-binding",
     "old": "self.sqr1.check(self.commitment.ca, self.PK.h, self.commitment.caa)", "new": "self.sqr1.check(self.commitment.ca, self.PK.h, self.commitment.ca)"},
    {"name": "pending challenge is popped only for a still-listed challenge hash", "file": "ipv8/attestation/wallet/community.py", "rule": "response-consumed",
     "old": "            self.request_cache.pop(*HashCache.id_from_hash(\"proving-hash\", payload.challenge_hash))\n            proving_cache = cache.proving_cache\n",
     "new": "            proving_cache = cache.proving_cache\n            if payload.challenge_hash in proving_cache.hashed_challenges:\n                self.request_cache.pop(*HashCache.id_from_hash(\"proving-hash\", payload.challenge_hash))\n"},
    {"name": "pending challenge is never popped", "file": "ipv8/attestation/wallet/community.py", "rule": "response-consumed",
     "old": "            self.request_cache.pop(*HashCache.id_from_hash(\"proving-hash\", payload.challenge_hash))\n", "new": ""},
]
