"""C18 - Attribute proofs accept the true value and reject others (field-arithmetic clause as a proof + codec shape)."""
from __future__ import annotations

import ast
import itertools

from ..core import Ctx
from ..localnames import load_table
from ..match import Fact, _atoms_with_polarity, call_name, calls, fact_of, facts_at, local_defs, names_in, resolve, single_def
from ..model import NOCONST, AnalysisError, FuncInfo, ancestors, chain, clone, const_value, enclosing_stmt, head, norm, parent, set_parents, strip_cast, walk_no_nested
from ..poly import Poly, eval_expr

LEVEL = "proof"
EXPLANATION = (
    "Proof of the field-arithmetic clause: the bodies of FP2Value.__add__/__sub__/__mul__/__floordiv__/inverse/normalize "
    "are executed symbolically (every return path, local aliases substituted, conditional fast paths checked under the "
    "equalities their guard establishes), read as integer polynomials in the twelve coefficient symbols and compared, by "
    "exact polynomial subtraction, with the reference arithmetic of fractions N/D over Z[x]/(x^2+x+1) (c*x^2 -> -c*x - c; "
    "N1/D1 +- N2/D2 = (N1*D2 +- N2*D1)/(D1*D2); products and quotients likewise). Identities over Z hold for all operands "
    "and all moduli. Derived laws (commutativity, x-y = x+(0-y) up to the common denominator, (x//y)*y ~ x) are checked on "
    "the implementation's own polynomials; intpow is checked to maintain the square-and-multiply invariant "
    "acc * sq^n = self^|power| (abstract execution of the loop body for odd and even n); equality is checked by decision "
    "table to be 'normalised quotient has numerator == denominator'; codec arity and integer layout of keys/attestations "
    "are checked on the flattened byte concatenations and slice offsets (as polynomials). Structural necessary conditions "
    "of the protocol clauses: the range verifier checks every Peng-Bao verification equation (as exponent vectors over the "
    "commitments, on every accepting return path; decision helpers, generator helpers, result objects - NamedTuple / dataclass / Enum / small "
    "callable classes, written out as their constructor arguments - and functools / operator combinators are followed, and a guard "
    "that every caller establishes before calling the verifier counts as required), a challenge response is "
    "consumed together with its pending-challenge entry and the challenge dropped from the backlog is the one selected by the "
    "answered hash (both also when the pop / removal / processing lives in a new helper or behind a dispatch table: the call "
    "is followed with parameters bound to the caller's expressions and the facts that dominate the call), an attestation is "
    "matched to the request whose global time it echoes (guard, filter, generator or direct key). Two small folds are decided "
    "by finite-model interpretation of their syntax trees (no code of the repository is run; the interpreter walks the trees "
    "on dict/bytes/int model values and follows helpers): the range certainty is 1 exactly when at least one response was "
    "recorded and none failed (all aggregates with 0..3 responses), and every decoded answer 0..3 is counted once in its own "
    "bucket; the aggregate those answers are counted into is an object created by create_certainty_aggregate for that verification (every value it "
    "returns is a dict display / comprehension / constructor call / copy or comes from a non-memoised helper, property or function-valued field "
    "all of whose returns are such; an attribute of the instance, class or module, an entry of such a table or a parameter is a violation). "
    "Refute-only (sample values, no claim beyond the runs): for every hash mode the BonehExactAlgorithm constructor accepts, "
    "certainty() is interpreted on the aggregate of exactly the honest answers to what attest() attests (the randomised attest(PK, int, bitspace) "
    "replaced by a recorder) and must score the attested value 1 - 2^-n and a sample value with another profile 0 - the attest function and the "
    "reference profile of a mode must hash the value alike. Where the symbolic reading does not recognise how a codec / field method is written, the same interpreter decides "
    "the question on model values (round trips of keys, bit-pairs and integers of every size class; operators, inverse, "
    "normalize, intpow, _modinv, equality against reference arithmetic in F_p[x]/(x^2+x+1)). wp_compress - the form in which field "
    "elements go on the wire - is decided on model operands to return the same field element with denominator 1; boneh.decode is "
    "checked to carry no state between keys (if it touches module-level mutable state it is interpreted after a call under another "
    "key whose freed objects' addresses the new key received, and must answer as in a fresh interpreter). Soundness/completeness of the "
    "zero-knowledge proofs and the Boneh scheme rest on number theory over run-time keys and randomness and are NOT decided."
)

VP = "ipv8/attestation/wallet/primitives/value.py"
PS = "ipv8/attestation/wallet/primitives/structs.py"
SYMS = ("a", "b", "c", "aC", "bC", "cC")
DEFAULTS = {"a": 0, "b": 0, "c": 0, "aC": 1, "bC": 0, "cC": 0}


def sym(e: ast.AST) -> str | None:
    if isinstance(e, ast.Attribute) and isinstance(e.value, ast.Name) and e.value.id in ("self", "other") and e.attr in SYMS:
        return ("s" if e.value.id == "self" else "o") + "_" + e.attr
    return None


def V(side: str, name: str) -> Poly:
    return Poly.var(f"{side}_{name}")


def reduce3(a: Poly, b: Poly, c: Poly) -> tuple[Poly, Poly]:
    """a + b x + c x^2  (mod x^2 + x + 1)  ->  (a - c) + (b - c) x"""
    return a - c, b - c


def mul2(u: tuple[Poly, Poly], v: tuple[Poly, Poly]) -> tuple[Poly, Poly]:
    u0, u1 = u
    v0, v1 = v
    return reduce3(u0 * v0, u0 * v1 + u1 * v0, u1 * v1)


def operands():
    n1 = reduce3(V("s", "a"), V("s", "b"), V("s", "c"))
    d1 = reduce3(V("s", "aC"), V("s", "bC"), V("s", "cC"))
    n2 = reduce3(V("o", "a"), V("o", "b"), V("o", "c"))
    d2 = reduce3(V("o", "aC"), V("o", "bC"), V("o", "cC"))
    return n1, d1, n2, d2


# ------------------------------------------------------------------------------------------------------------------
# Symbolic path execution of small functions.
#
# A function body is executed on expressions: every local is replaced by the expression it was assigned (so `m = self.mod`,
# `neg = power < 0`, a hoisted sub-expression or a value returned through a local all disappear), every `if` / conditional
# expression forks the path unless the path condition already decides it (same atom, negation, de Morgan, flipped
# comparison - decided through match.fact_of), loops are summarised by a hook (default: everything the loop may write
# becomes opaque).  The result is, per return path, (path condition, returned expression).  Rules below judge the
# returned expressions, never the spelling of the statements that produced them.
# ------------------------------------------------------------------------------------------------------------------
_COMPS = (ast.ListComp, ast.SetComp, ast.GeneratorExp, ast.DictComp)


def _lambda_params(n: ast.Lambda) -> set[str]:
    a = n.args
    out = {x.arg for x in a.posonlyargs + a.args + a.kwonlyargs}
    if a.vararg:
        out.add(a.vararg.arg)
    if a.kwarg:
        out.add(a.kwarg.arg)
    return out


def _subst(n, env: dict, shadow: frozenset = frozenset()):
    """Copy of n (fields only: no parent links) with loads of names in env replaced by their expression; cast() is transparent."""
    if isinstance(n, list):
        return [_subst(x, env, shadow) for x in n]
    if not isinstance(n, ast.AST):
        return n
    if isinstance(n, ast.Name):
        if isinstance(n.ctx, ast.Load) and n.id in env and n.id not in shadow:
            return env[n.id]                        # env expressions are never mutated, sharing is safe
        return ast.Name(id=n.id, ctx=n.ctx)
    if isinstance(n, ast.Call) and isinstance(n.func, ast.Name) and n.func.id == "cast" and len(n.args) == 2 and not n.keywords:
        return _subst(n.args[1], env, shadow)
    if isinstance(n, _COMPS):
        bound: set[str] = set()
        for g in n.generators:
            bound |= names_in(g.target)
        shadow = shadow | bound
    elif isinstance(n, ast.Lambda):
        shadow = shadow | _lambda_params(n)
    new = n.__class__()
    for f in n._fields:
        if hasattr(n, f):
            setattr(new, f, _subst(getattr(n, f), env, shadow))
    if getattr(n, "_c18_nofollow", False):
        new._c18_nofollow = True
    return new


def _raw_names(e: ast.AST) -> set[str]:
    return {x.id for x in ast.walk(e) if isinstance(x, ast.Name)}


def _replace(e, target, repl):
    """Copy of e with the node `target` (identity) replaced by repl."""
    if e is target:
        return repl
    if isinstance(e, list):
        return [_replace(x, target, repl) for x in e]
    if not isinstance(e, ast.AST):
        return e
    new = e.__class__()
    for f in e._fields:
        if hasattr(e, f):
            setattr(new, f, _replace(getattr(e, f), target, repl))
    if getattr(e, "_c18_nofollow", False):
        new._c18_nofollow = True
    return new


def _first_ifexp(e: ast.AST):
    stack = [e]
    while stack:
        n = stack.pop(0)
        if isinstance(n, ast.IfExp):
            return n
        if isinstance(n, (ast.Lambda, *_COMPS)):
            continue
        stack.extend(ast.iter_child_nodes(n))
    return None


def _fkey(f: Fact):
    le = norm(f.left)
    ri = norm(f.right) if f.right is not None else None
    if f.op in ("eq", "is") and ri is not None and ri < le:
        le, ri = ri, le
    return f.op, le, ri


def _facts(conds) -> list[Fact]:
    out = []
    for e, pol in conds:
        out.extend(_atoms_with_polarity(e, pol))
    return out


def _known(conds) -> dict:
    return {_fkey(f): f.pos for f in _facts(conds)}


def _const_test(test: ast.AST):
    """Truth of a comparison between constants (a flag parameter of a merged helper bound to a literal): True / False, None if not constant."""
    if not (isinstance(test, ast.Compare) and len(test.ops) == 1):
        return None

    both = (_enum_member_of(test.left), _enum_member_of(test.comparators[0]))
    if both[0] is not None and both[1] is not None and both[0][0] is both[1][0] and isinstance(test.ops[0], (ast.Eq, ast.NotEq, ast.Is, ast.IsNot)):
        same = both[0][1] == both[1][1]
        return same if isinstance(test.ops[0], (ast.Eq, ast.Is)) else not same
    if both[0] is not None and isinstance(test.ops[0], (ast.In, ast.NotIn)) and isinstance(test.comparators[0], (ast.Tuple, ast.List, ast.Set)):
        others = [_enum_member_of(x) for x in test.comparators[0].elts]
        if all(o is not None and o[0] is both[0][0] for o in others):
            r = any(o[1] == both[0][1] for o in others)
            return r if isinstance(test.ops[0], ast.In) else not r

    def val(e):
        c = _int_const(e)
        if c is not None:
            return ("v", c)
        if isinstance(e, ast.Constant) and isinstance(e.value, (str, bytes, bool, type(None))):
            return ("v", e.value)
        if isinstance(e, (ast.Tuple, ast.List, ast.Set)):
            items = [val(x) for x in e.elts]
            if all(i is not None for i in items):
                return ("v", tuple(i[1] for i in items))
        return None
    le, ri = val(test.left), val(test.comparators[0])
    if le is None or ri is None:
        return None
    op = test.ops[0]
    try:
        if isinstance(op, (ast.In, ast.NotIn)):
            if not isinstance(ri[1], tuple):
                return None
            r = any(type(x) is type(le[1]) and x == le[1] for x in ri[1])
            return r if isinstance(op, ast.In) else not r
        if isinstance(op, (ast.Is, ast.IsNot)):
            if le[1] is None or ri[1] is None:
                r = le[1] is None and ri[1] is None
                return r if isinstance(op, ast.Is) else not r
            return None
        if isinstance(le[1], tuple) or isinstance(ri[1], tuple) or type(le[1]) is not type(ri[1]):
            return None
        fn = {ast.Eq: lambda a, b: a == b, ast.NotEq: lambda a, b: a != b, ast.Lt: lambda a, b: a < b, ast.LtE: lambda a, b: a <= b,
              ast.Gt: lambda a, b: a > b, ast.GtE: lambda a, b: a >= b}.get(type(op))
        return None if fn is None else bool(fn(le[1], ri[1]))
    except TypeError:
        return None


def _enum_member_of(e: ast.AST):
    """(class, canonical member name) when e is `Cls.MEMBER` of an Enum class of the repository whose members have distinct constant values"""
    if _CTX is None or not (isinstance(e, ast.Attribute) and isinstance(e.value, (ast.Name, ast.Attribute))):
        return None
    cname = e.value.id if isinstance(e.value, ast.Name) else e.value.attr
    cands = _CTX.repo.classes.get(cname, [])
    if len(cands) != 1 or _record_kind(cands[0]) != "enum" or e.attr not in cands[0].attrs:
        return None
    ci = cands[0]
    members = [k for k in ci.attrs if not k.startswith("_")]

    def value(k):
        x = ci.attrs[k]
        if isinstance(x, ast.Call) and (chain(x.func) or "").rsplit(".", 1)[-1] == "auto" and not x.args:
            return ("auto", members.index(k))
        try:
            return ("lit", repr(ast.literal_eval(x)))
        except (ValueError, TypeError, SyntaxError, MemoryError, RecursionError):
            return None
    vals = {k: value(k) for k in members}
    if vals[e.attr] is None:
        return None
    if any(v is None for v in vals.values()):
        return None                                           # a member with a computed value could be an alias of this one
    first = next(k for k in members if vals[k] == vals[e.attr])   # members with equal values are one member (alias)
    return ci, first


def _decide(test: ast.AST, known: dict):
    """Three-valued truth of `test` given the atoms known on this path (None = not decided)."""
    if isinstance(test, ast.Constant):
        return bool(test.value)
    if isinstance(test, ast.UnaryOp) and isinstance(test.op, ast.Not):
        v = _decide(test.operand, known)
        return None if v is None else not v
    if isinstance(test, ast.BoolOp):
        vals = [_decide(v, known) for v in test.values]
        if isinstance(test.op, ast.And):
            return False if any(v is False for v in vals) else True if all(v is True for v in vals) else None
        return True if any(v is True for v in vals) else False if all(v is False for v in vals) else None
    if isinstance(test, ast.Compare) and len(test.ops) > 1:
        left = test.left
        vals = []
        for op, right in zip(test.ops, test.comparators):
            vals.append(_decide(ast.Compare(left=left, ops=[op], comparators=[right]), known))
            left = right
        return False if any(v is False for v in vals) else True if all(v is True for v in vals) else None
    cv = _const_test(test)
    if cv is not None:
        return cv
    f = fact_of(test, True)
    k = _fkey(f)
    if k in known:
        return known[k] == f.pos
    if f.op == "lt" and known.get(("lt", k[2], k[1])) is True:      # b < a holds, so a < b does not
        return not f.pos
    return None


class _St:
    __slots__ = ("env", "conds", "yields")

    def __init__(self, env=None, conds=None, yields=None) -> None:
        self.env: dict[str, ast.AST] = dict(env or {})
        self.conds: list[tuple[ast.AST, bool]] = list(conds or [])
        self.yields: list[ast.AST] = list(yields or [])

    def fork(self, cond=None) -> "_St":
        s = _St(self.env, self.conds, self.yields)
        if cond is not None:
            s.conds.append(cond)
        return s

    def invalidate(self, name: str) -> None:
        """`name` gets a new value: expressions recorded earlier that mention the OLD value by its bare name become opaque."""
        for k, v in list(self.env.items()):
            if k != name and name in _raw_names(v):
                self.env[k] = ast.Name(id=f"__stale_{k.lstrip('@').replace('.', '_')}__", ctx=ast.Load())
        self.conds = [(e, p) for e, p in self.conds if name not in _raw_names(e)]

    def set(self, name: str, value: ast.AST) -> None:
        self.invalidate(name)
        self.env[name] = value

    def havoc(self, name: str) -> None:
        self.invalidate(name)
        self.env.pop(name, None)


def _written_names(stmts) -> set[str]:
    """Names a statement list may rebind or mutate through a method call / item store."""
    out: set[str] = set()
    for s in stmts:
        for n in ast.walk(s):
            if isinstance(n, ast.Name) and isinstance(n.ctx, (ast.Store, ast.Del)):
                out.add(n.id)
            elif isinstance(n, ast.Call) and isinstance(n.func, ast.Attribute):
                b = n.func.value
                while isinstance(b, (ast.Attribute, ast.Subscript)):
                    b = b.value
                if isinstance(b, ast.Name):
                    out.add(b.id)
            elif isinstance(n, (ast.Attribute, ast.Subscript)) and isinstance(n.ctx, (ast.Store, ast.Del)):
                b = n.value
                while isinstance(b, (ast.Attribute, ast.Subscript)):
                    b = b.value
                if isinstance(b, ast.Name):
                    out.add(b.id)
    return out


class _Exec:
    """run() -> [(state, returned expression)] for every path that returns (falling off the end returns None)."""

    def __init__(self, fi: FuncInfo, loop_hook=None, recv=None, init_env: dict | None = None, depth: int = 0) -> None:
        self.fi = fi
        self.loop_hook = loop_hook
        self.recv = recv if recv is not None else fi.cls          # the class `self` / `cls` is an instance of (for helper lookup)
        self.init_env = init_env or {}
        self.depth = depth
        self.is_gen = any(isinstance(x, (ast.Yield, ast.YieldFrom)) for x in walk_no_nested(fi.node))
        self.done: list[tuple[_St, ast.AST]] = []

    def run(self):
        for st in self._block(self.fi.node.body, _St(self.init_env)):
            self.done.append((st, ast.Constant(value=None)))
        if self.is_gen:
            # a generator helper made of plain `yield E` statements denotes the sequence of the yielded expressions
            return [(st, ast.Tuple(elts=list(st.yields), ctx=ast.Load())) for st, _ in self.done]
        return self.done

    # ---- calls to NEW helpers are executed too (parameters bound to the argument expressions)
    def _helper_target(self, call):  # noqa: C901, PLR0911, PLR0912
        """(helper, parameter bindings, class of its receiver) for a call - or a property read - that reaches a NEW function; None otherwise"""
        if _CTX is None or getattr(call, "_c18_nofollow", False) or self.depth >= 4:
            return None
        repo = _CTX.repo
        t = recv_expr = recv_cls = None
        inner = _INNER.get(id(self.fi.node))
        if inner is not None and isinstance(call, ast.Call) and isinstance(call.func, ast.Name) and call.func.id == inner[0]:
            # the wrapper of a NEW decorator calls the function it decorates: positional from the first parameter (self is passed explicitly)
            t = inner[1]
            a = t.node.args
            if a.vararg or a.kwarg or any(isinstance(x, ast.Starred) for x in call.args) or any(k.arg is None for k in call.keywords):
                raise AnalysisError(f"undecided: {t.qualname}: *args / **kwargs between the wrapper of its new decorator and the function")
            names = [x.arg for x in a.posonlyargs + a.args]
            if len(call.args) > len(names):
                raise AnalysisError(f"undecided: {t.qualname}: the wrapper of its new decorator passes more arguments than it takes")
            env = {n: x for n, x in zip(names, call.args) if not (isinstance(x, ast.Name) and x.id == n)}
            allowed = set(names) | {x.arg for x in a.kwonlyargs}
            for k in call.keywords:
                if k.arg not in allowed:
                    raise AnalysisError(f"undecided: {t.qualname}: the wrapper of its new decorator passes an unknown keyword")
                if not (isinstance(k.value, ast.Name) and k.value.id == k.arg):
                    env[k.arg] = k.value
            defaults = dict(zip(names[len(names) - len(a.defaults):], a.defaults))
            defaults.update({k.arg: d for k, d in zip(a.kwonlyargs, a.kw_defaults) if d is not None})
            for nme in names[len(call.args):] + [x.arg for x in a.kwonlyargs]:
                if nme not in env and nme not in {k.arg for k in call.keywords}:
                    if nme not in defaults:
                        raise AnalysisError(f"undecided: {t.qualname}: the wrapper of its new decorator does not pass `{nme}`")
                    env[nme] = defaults[nme]
            return t, env, self.recv
        if isinstance(call, ast.Attribute):
            # a property of a NEW class read on self / on a record value written as its constructor call
            if not isinstance(call.ctx, ast.Load):
                return None
            if isinstance(call.value, ast.Name) and call.value.id == "self" and self.recv is not None:
                t, recv_expr, recv_cls = self.recv.lookup(call.attr), call.value, self.recv
            elif isinstance(call.value, ast.Call):
                rec = _record_ctor(call.value)
                if rec is not None:
                    t, recv_expr, recv_cls = rec[0].lookup(call.attr), call.value, rec[0]
            if t is None or "property" not in t.decorator_names() or not _is_new(t) or t.node is self.fi.node or len(t.params()) != 1:
                return None
            env = {} if isinstance(recv_expr, ast.Name) and recv_expr.id == t.params()[0] else {t.params()[0]: recv_expr}
            return t, env, recv_cls
        f = call.func
        try:
            if isinstance(f, ast.Name):
                r = repo.resolve_name(self.fi.module, f.id)
                t = r if isinstance(r, FuncInfo) else None
            elif isinstance(f, ast.Attribute):
                if isinstance(f.value, ast.Name) and f.value.id in ("self", "cls") and self.recv is not None:
                    t, recv_expr, recv_cls = self.recv.lookup(f.attr), f.value, self.recv
                elif isinstance(f.value, ast.Name) and f.value.id in ("other",) and self.recv is not None:
                    t, recv_expr, recv_cls = self.recv.lookup(f.attr), f.value, self.recv
                elif isinstance(f.value, ast.Call) and _record_ctor(f.value) is not None:
                    recv_cls = _record_ctor(f.value)[0]          # a method of a record value (decision object) written as its constructor call
                    t, recv_expr = recv_cls.lookup(f.attr), f.value
                else:
                    c = repo.resolve_class_expr(self.fi.module, f.value)
                    if c is not None:
                        t, recv_cls = c.lookup(f.attr), c
                    else:
                        # a NEW method of another object (self.commitment.binds(...)): by the attribute's type, else by its unique name among the new methods
                        owner = self.recv if self.recv is not None else self.fi.cls
                        c = repo.attr_type(owner, f.value.attr) if owner is not None and isinstance(f.value, ast.Attribute) and isinstance(f.value.value, ast.Name) \
                            and f.value.value.id == "self" else None
                        cand = c.lookup(f.attr) if c is not None else None
                        if cand is None and not f.attr.startswith("__"):
                            named = [g for g in repo.all_functions() if g.name == f.attr and g.cls is not None and _is_new(g)
                                     and not ({"staticmethod", "classmethod", "property"} & set(g.decorator_names()))]
                            if len(named) == 1 and not any(g.name == f.attr and g.cls is not None and g is not named[0] for g in repo.all_functions()):
                                cand, c = named[0], named[0].cls
                        if cand is not None and "staticmethod" not in cand.decorator_names() and "classmethod" not in cand.decorator_names():
                            t, recv_expr, recv_cls = cand, f.value, c
            elif isinstance(f, ast.Call) and _record_ctor(f) is not None:
                recv_cls = _record_ctor(f)[0]                    # a small callable class: Checker(g, h)(x) runs Checker.__call__
                t, recv_expr = recv_cls.lookup("__call__"), f
        except Exception:  # noqa: BLE001
            t = None
        if t is None or not _is_new(t) or t.node is self.fi.node or "property" in t.decorator_names():
            return None
        a = t.node.args
        if a.vararg or a.kwarg or any(isinstance(x, ast.Starred) for x in call.args) or any(k.arg is None for k in call.keywords):
            return None
        names = [x.arg for x in a.posonlyargs + a.args]
        env: dict[str, ast.AST] = {}
        idx = 0
        if t.cls is not None and "staticmethod" not in t.decorator_names() and names:
            if recv_expr is not None and not (isinstance(recv_expr, ast.Name) and recv_expr.id == names[0]):
                env[names[0]] = recv_expr
            idx = 1
        for x in call.args:
            if idx >= len(names):
                return None
            env[names[idx]] = x
            idx += 1
        allowed = set(names) | {x.arg for x in a.kwonlyargs}
        for k in call.keywords:
            if k.arg not in allowed:
                return None
            env[k.arg] = k.value
        defaults = dict(zip(names[len(names) - len(a.defaults):], a.defaults))
        defaults.update({k.arg: d for k, d in zip(a.kwonlyargs, a.kw_defaults) if d is not None})
        for nme in list(names[idx:]) + [x.arg for x in a.kwonlyargs]:
            if nme not in env:
                if nme not in defaults:
                    return None
                env[nme] = defaults[nme]
        return t, env, recv_cls

    def _first_helper_call(self, e: ast.AST):
        stack = [e]
        while stack:
            n = stack.pop(0)
            if isinstance(n, ast.Lambda):
                continue
            if isinstance(n, (ast.Call, ast.Attribute)):
                got = self._helper_target(n)
                if got is not None:
                    return n, got[0], got[1], got[2]
            stack.extend(ast.iter_child_nodes(n))
        return None

    def _block(self, stmts, st: _St) -> list[_St]:
        cur = [st]
        for s in stmts:
            nxt: list[_St] = []
            for x in cur:
                nxt.extend(self._stmt(s, x))
            cur = nxt
            if not cur:
                break
        return cur

    def _expand(self, e: ast.AST, st: _St):
        hc = self._first_helper_call(e) if _CTX is not None else None
        if hc is not None:
            call, target, env, recv_cls = hc
            try:
                sub = _Exec(target, None, (recv_cls or self.recv) if target.cls is not None else None, env, self.depth + 1).run()
            except AnalysisError:
                sub = None
            if sub is not None and 0 < len(sub) <= 8:
                out = []
                for hst, ret in sub:
                    st2 = st.fork()
                    st2.conds.extend(hst.conds)
                    out.extend(self._expand(_replace(e, call, ret), st2))
                return out
            call._c18_nofollow = True
        ife = _first_ifexp(e)
        if ife is None:
            return [(_simp(e), st)]
        v = _decide(_simp(ife.test), _known(st.conds))
        out = []
        for pol in ((v,) if v is not None else (True, False)):
            st2 = st if v is not None else st.fork((ife.test, pol))
            out.extend(self._expand(_replace(e, ife, ife.body if pol else ife.orelse), st2))
        return out

    def _bind(self, t: ast.AST, value: ast.AST, st: _St) -> None:
        if isinstance(t, ast.Name):
            st.set(t.id, value)
        elif isinstance(t, (ast.Tuple, ast.List)):
            if any(isinstance(e, ast.Starred) for e in t.elts):
                raise AnalysisError(f"undecided: {self.fi.qualname}: starred assignment target")
            if isinstance(value, (ast.Tuple, ast.List)) and len(value.elts) == len(t.elts) and not any(isinstance(e, ast.Starred) for e in value.elts):
                for e, v in zip(t.elts, value.elts):
                    self._bind(e, v, st)
            else:
                for i, e in enumerate(t.elts):
                    self._bind(e, ast.Subscript(value=value, slice=ast.Constant(value=i), ctx=ast.Load()), st)
        elif isinstance(t, ast.Attribute) and chain(t) is not None:
            st.env["@" + chain(t)] = value
        elif isinstance(t, ast.Subscript) and isinstance(t.value, ast.Name) and t.value.id in st.env and _int_const(_simp(_subst(t.slice, st.env))) is not None \
                and _literal_elements(_simp(st.env[t.value.id])) is not None \
                and -len(_literal_elements(_simp(st.env[t.value.id]))) <= _int_const(_simp(_subst(t.slice, st.env))) < len(_literal_elements(_simp(st.env[t.value.id]))) \
                and isinstance(st.env[t.value.id], (ast.List, ast.ListComp)):
            elts = list(_literal_elements(_simp(st.env[t.value.id])))          # xs[3] = v on a list whose elements are known
            elts[_int_const(_simp(_subst(t.slice, st.env)))] = value
            st.set(t.value.id, ast.List(elts=elts, ctx=ast.Load()))
        else:
            b = t
            while isinstance(b, (ast.Attribute, ast.Subscript)):
                b = b.value
            if isinstance(b, ast.Name):
                st.havoc(b.id)

    def _stmt(self, s: ast.stmt, st: _St) -> list[_St]:  # noqa: C901, PLR0911, PLR0912
        if isinstance(s, (ast.Pass, ast.Import, ast.ImportFrom, ast.FunctionDef, ast.AsyncFunctionDef, ast.ClassDef, ast.Global, ast.Nonlocal)):
            return [st]
        if isinstance(s, ast.Expr):
            if isinstance(s.value, ast.Yield):
                out = []
                val = _subst(s.value.value, st.env) if s.value.value is not None else ast.Constant(value=None)
                for v, st2 in self._expand(val, st):
                    st3 = st2.fork() if st2 is st else st2
                    st3.yields.append(v)
                    out.append(st3)
                return out
            if isinstance(s.value, ast.YieldFrom):
                elts = _literal_elements(_simp(_subst(s.value.value, st.env)))
                if elts is None:
                    raise AnalysisError(f"undecided: {self.fi.qualname}: `{norm(s)[:60]}` delegates to an iterable that is not a literal sequence")
                st.yields.extend(elts)
                return [st]
            if isinstance(s.value, ast.Call):
                for n in _written_names([s]):
                    st.havoc(n)
            return [st]
        if isinstance(s, (ast.Assign, ast.AnnAssign)):
            if s.value is None:
                return [st]
            out = []
            targets = s.targets if isinstance(s, ast.Assign) else [s.target]
            for v, st2 in self._expand(_subst(s.value, st.env), st):
                st3 = st2.fork() if st2 is st else st2
                for t in targets:
                    self._bind(t, v, st3)
                out.append(st3)
            return out
        if isinstance(s, ast.AugAssign):
            if not isinstance(s.target, ast.Name):
                for n in _written_names([s]):
                    st.havoc(n)
                return [st]
            out = []
            cur = st.env.get(s.target.id, ast.Name(id=s.target.id, ctx=ast.Load()))
            for v, st2 in self._expand(_subst(s.value, st.env), st):
                st3 = st2.fork() if st2 is st else st2
                st3.set(s.target.id, ast.BinOp(left=cur, op=s.op, right=v))
                out.append(st3)
            return out
        if isinstance(s, ast.Return):
            val = _subst(s.value, st.env) if s.value is not None else ast.Constant(value=None)
            for v, st2 in self._expand(val, st):
                self.done.append((st2, v))
            return []
        if isinstance(s, ast.Raise):
            return []
        if isinstance(s, ast.Assert):
            test = _subst(s.test, st.env)
            v = _decide(test, _known(st.conds))
            return [] if v is False else [st if v is True else st.fork((test, True))]
        if isinstance(s, ast.If):
            test0 = _subst(s.test, st.env)
            # decision helpers in the test are executed (each of their return paths is one way the test comes out)
            tests = self._expand(test0, st) if self._first_helper_call(test0) is not None else [(test0, st)]
            out = []
            for test, st1 in tests:
                v = _decide(test, _known(st1.conds))
                if v is not False:
                    out.extend(self._block(s.body, st1.fork(None if v is True else (test, True))))
                if v is not True:
                    out.extend(self._block(s.orelse, st1.fork(None if v is False else (test, False))))
            return out
        if isinstance(s, (ast.While, ast.For)):
            if any(isinstance(x, (ast.Yield, ast.YieldFrom, ast.Return)) for x in ast.walk(s)):
                # a loop that can leave the function / produce values cannot be summarised by "its variables change"
                lit = _literal_elements(_simp(_subst(s.iter, st.env))) if isinstance(s, ast.For) and not s.orelse else None
                if lit is None or len(lit) > 32 or any(isinstance(x, (ast.Break, ast.Continue)) for x in ast.walk(s)):
                    raise AnalysisError(f"undecided: {self.fi.qualname}: return / yield inside `{head(s)[:50]}`")
                cur = [st]
                for item in lit:                                  # a loop over a literal sequence is unrolled
                    nxt = []
                    for x in cur:
                        x2 = x.fork()
                        self._bind(s.target, item, x2)
                        nxt.extend(self._block(s.body, x2))
                    cur = nxt
                return cur
            if self.loop_hook is not None:
                r = self.loop_hook(self, s, st)
                if r is not None:
                    return r
            for n in _written_names([s]):
                st.havoc(n)
            return [st]
        if isinstance(s, ast.Delete):
            for n in _written_names([s]):
                st.havoc(n)
            return [st]
        if isinstance(s, ast.Match):
            tmp = f"__match_{s.lineno}_{s.col_offset}__"
            out = []
            for st2 in self._stmt(ast.Assign(targets=[ast.Name(id=tmp, ctx=ast.Store())], value=s.subject, lineno=s.lineno, col_offset=0), st):
                out.extend(self._block(self._match_as_ifs(s, st2, tmp), st2))      # the subject (helpers followed) is known per path
            return out
        raise AnalysisError(f"undecided: {self.fi.qualname}: statement `{norm(s)[:60]}` is outside the symbolic executor")

    def _match_as_ifs(self, s: ast.Match, st: _St, tmp: str) -> list[ast.stmt]:
        """
        `match subject: case P1: B1 ...` as `m = subject` followed by an if / elif chain: each pattern becomes the test it performs on
        the subject (value: ==, singleton: is, or-pattern: or, sequence pattern on a subject whose elements are written out: one
        test per element, class pattern with keyword sub-patterns on attributes) and the assignments of the names it captures.
        """
        subj = ast.Name(id=tmp, ctx=ast.Load())
        known = _literal_elements(_simp(st.env[tmp])) if tmp in st.env else None

        def conj(parts):
            parts = [p for p in parts if not (isinstance(p, ast.Constant) and p.value is True)]
            return ast.Constant(value=True) if not parts else parts[0] if len(parts) == 1 else ast.BoolOp(op=ast.And(), values=parts)

        def read(pat, val, binds, seq_known):  # noqa: PLR0911
            if isinstance(pat, ast.MatchValue):
                return ast.Compare(left=val, ops=[ast.Eq()], comparators=[pat.value])
            if isinstance(pat, ast.MatchSingleton):
                return ast.Compare(left=val, ops=[ast.Is()], comparators=[ast.Constant(value=pat.value)])
            if isinstance(pat, ast.MatchAs):
                t = read(pat.pattern, val, binds, seq_known) if pat.pattern is not None else ast.Constant(value=True)
                if pat.name is not None:
                    binds.append((pat.name, val))
                return t
            if isinstance(pat, ast.MatchOr):
                inner: list = []
                tests = [read(x, val, inner, seq_known) for x in pat.patterns]
                if inner:
                    raise AnalysisError(f"undecided: {self.fi.qualname}: or-pattern that binds names")
                return ast.BoolOp(op=ast.Or(), values=tests)
            if isinstance(pat, ast.MatchSequence) and seq_known is not None and not any(isinstance(x, ast.MatchStar) for x in pat.patterns):
                if len(seq_known) != len(pat.patterns):
                    return ast.Constant(value=False)
                return conj([read(x, ast.Subscript(value=val, slice=ast.Constant(value=i), ctx=ast.Load()), binds, _literal_elements(seq_known[i]))
                             for i, x in enumerate(pat.patterns)])
            if isinstance(pat, ast.MatchClass) and not pat.patterns:
                parts = [ast.Call(func=ast.Name(id="isinstance", ctx=ast.Load()), args=[val, pat.cls], keywords=[])]
                parts += [read(x, ast.Attribute(value=val, attr=a, ctx=ast.Load()), binds, None) for a, x in zip(pat.kwd_attrs, pat.kwd_patterns)]
                return conj(parts)
            raise AnalysisError(f"undecided: {self.fi.qualname}: pattern `{type(pat).__name__}` in `{head(s)[:40]}` is outside the symbolic executor")

        chain_: list[ast.stmt] = []
        tail = chain_
        for case in s.cases:
            binds: list = []
            test = read(case.pattern, subj, binds, known)
            body = [ast.Assign(targets=[ast.Name(id=n, ctx=ast.Store())], value=v, lineno=s.lineno, col_offset=0) for n, v in binds] + list(case.body)
            if case.guard is not None:
                if binds:
                    raise AnalysisError(f"undecided: {self.fi.qualname}: guarded case that binds names in `{head(s)[:40]}`")
                test = conj([test, case.guard])
            node = ast.If(test=test, body=body, orelse=[], lineno=s.lineno, col_offset=0)
            tail.append(node)
            tail = node.orelse
        return chain_


_INNER: dict[int, tuple] = {}        # id(wrapper node) -> (name the wrapper calls the decorated function by, the function that name denotes)


def _paths(fi: FuncInfo, loop_hook=None):
    """
    Return paths of fi.  A function that carries NEW decorators denotes the wrapper the decorator returns: the wrapper is executed and its
    inner call `func(self, ...)` is expanded into the return paths of the decorated body (parameters bound to the wrapper's arguments), so a
    guard that moved into a decorator is part of every path exactly as when it was the body's first statement.
    """
    layers = _decorator_layers(_CTX, fi) if _CTX is not None and fi.node.decorator_list else []
    if not layers:
        return _Exec(fi, loop_hook).run()
    saved = dict(_INNER)
    try:
        chain_ = [w for w, _, _ in layers] + [fi]
        for k, (w, fname, _) in enumerate(layers):
            _INNER[id(w.node)] = (fname, chain_[k + 1])
        w0, _, binds0 = layers[0]
        if any(b for _, _, b in layers[1:]):
            raise AnalysisError(f"undecided: {fi.qualname}: arguments of an inner new decorator factory are not read")
        got = _Exec(w0, None, fi.cls, dict(binds0)).run()
        if any(isinstance(x, ast.Call) and isinstance(x.func, ast.Name) and any(x.func.id == fn for _, fn, _ in layers)
               for _, ret in got for x in ast.walk(ret)):
            raise AnalysisError(f"undecided: {fi.qualname}: the call of the decorated function inside its new wrapper is not expanded")
        return got
    finally:
        _INNER.clear()
        _INNER.update(saved)


def _simp(n):
    """Fold constant subscripts of list/tuple literals and of comprehensions over literal tuples: [f(t) for t in (x, y)][1] -> f(y)."""
    if isinstance(n, list):
        return [_simp(x) for x in n]
    if not isinstance(n, ast.AST):
        return n
    new = n.__class__()
    for f in n._fields:
        if hasattr(n, f):
            setattr(new, f, _simp(getattr(n, f)))
    if getattr(n, "_c18_nofollow", False):
        new._c18_nofollow = True
    if isinstance(new, ast.Subscript) and isinstance(new.slice, ast.Constant) and isinstance(new.slice.value, int) and not isinstance(new.slice.value, bool):
        elts = _literal_elements(new.value)
        if elts is not None and -len(elts) <= new.slice.value < len(elts):
            return elts[new.slice.value]
    if isinstance(new, ast.Attribute) and isinstance(new.value, ast.Call):
        rec = _record_ctor(new.value)                        # Record(x, y).field is the argument bound to that field
        if rec is not None and "__post_init__" not in rec[0].methods:
            for (_, attr, _), v in zip(rec[1], rec[2]):
                if attr == new.attr:
                    return v
    if isinstance(new, ast.Call) and isinstance(new.func, ast.Name) and new.func.id == "len" and len(new.args) == 1 and not new.keywords \
            and isinstance(new.args[0], (ast.Tuple, ast.List)):
        elts = _literal_elements(new.args[0])
        if elts is not None:
            return ast.Constant(value=len(elts))
    if isinstance(new, ast.Call) and isinstance(new.func, ast.Name) and new.func.id == "isinstance" and len(new.args) == 2 and not new.keywords:
        rec = _record_ctor(new.args[0]) if isinstance(new.args[0], ast.Call) else None
        if rec is not None and isinstance(new.args[1], (ast.Name, ast.Attribute)):
            cname = new.args[1].id if isinstance(new.args[1], ast.Name) else new.args[1].attr
            if any(k.name == cname for k in rec[0].mro()):
                return ast.Constant(value=True)
    if isinstance(new, ast.Call):
        folded = _fold_lib_call(new)
        if folded is not None:
            return folded
    if isinstance(new, ast.Call) and isinstance(new.func, ast.Lambda) and not new.keywords and not any(isinstance(a, ast.Starred) for a in new.args):
        la = new.func.args                                   # (lambda x: E)(v) is E[x := v]
        names = [x.arg for x in la.posonlyargs + la.args]
        if not (la.vararg or la.kwarg or la.kwonlyargs or la.defaults) and len(names) == len(new.args):
            return _simp(_subst(new.func.body, dict(zip(names, new.args))))
    if isinstance(new, ast.Call) and isinstance(new.func, ast.Name) and new.func.id == "getattr" and len(new.args) == 2 and not new.keywords \
            and isinstance(new.args[1], ast.Constant) and isinstance(new.args[1].value, str) and new.args[1].value.isidentifier():
        return ast.Attribute(value=new.args[0], attr=new.args[1].value, ctx=ast.Load())      # getattr(self, "a") is self.a
    if isinstance(new, ast.BinOp) and isinstance(new.op, (ast.Add, ast.Sub, ast.Mult)):
        le, ri = _int_const(new.left), _int_const(new.right)
        if le is not None and ri is not None:                    # index arithmetic on constants: nums[i + 1] for i = 2
            v = le + ri if isinstance(new.op, ast.Add) else le - ri if isinstance(new.op, ast.Sub) else le * ri
            return ast.Constant(value=v)
    return new


_LIB_ROOTS = {"itertools", "functools", "operator", "dataclasses", "collections"}
_OP_BIN = {"and_": ast.BitAnd, "or_": ast.BitOr, "xor": ast.BitXor, "mul": ast.Mult, "add": ast.Add, "sub": ast.Sub, "floordiv": ast.FloorDiv, "mod": ast.Mod,
           "lshift": ast.LShift, "rshift": ast.RShift, "truediv": ast.Div, "pow": ast.Pow, "matmul": ast.MatMult}
_OP_CMP = {"eq": ast.Eq, "ne": ast.NotEq, "lt": ast.Lt, "le": ast.LtE, "gt": ast.Gt, "ge": ast.GtE, "is_": ast.Is, "is_not": ast.IsNot}
_RECORD_CACHE: dict = {}


def _libfn(f: ast.AST) -> str | None:
    """bare name of the standard-library function a callee expression names: `reduce`, `functools.reduce`, `chain.from_iterable`"""
    if isinstance(f, ast.Name):
        return f.id
    if isinstance(f, ast.Attribute) and isinstance(f.value, ast.Name) and f.value.id in _LIB_ROOTS:
        return f.attr
    if isinstance(f, ast.Attribute) and f.attr == "from_iterable" and _libfn(f.value) == "chain":
        return "chain.from_iterable"
    return None


def _record_ctor(e: ast.AST):
    """(class, fields, [argument expression per field]) for a constructor call of a record class of the repository (NamedTuple / dataclass /
    a class whose __init__ only stores its parameters); None otherwise"""
    if _CTX is None or not isinstance(e, ast.Call):
        return None
    f = e.func
    name = f.id if isinstance(f, ast.Name) else f.attr if isinstance(f, ast.Attribute) and isinstance(f.value, ast.Name) and f.value.id not in ("self", "cls") else None
    if name is None or any(isinstance(a, ast.Starred) for a in e.args) or any(k.arg is None for k in e.keywords):
        return None
    key = (id(_CTX.repo), name)
    if key not in _RECORD_CACHE:
        cands = _CTX.repo.classes.get(name, [])
        fields = _record_fields(cands[0]) if len(cands) == 1 else None
        _RECORD_CACHE[key] = (cands[0], fields) if fields is not None else None
    got = _RECORD_CACHE[key]
    if got is None:
        return None
    ci, fields = got
    how = _bind_record(fields, len(e.args), [k.arg for k in e.keywords])
    if how is None:
        return None
    kws = {k.arg: k.value for k in e.keywords}
    vals = [e.args[h[1]] if h[0] == "pos" else kws[h[1]] if h[0] == "kw" else fld[2] for h, fld in zip(how, fields)]
    return ci, fields, vals


def _fold_lib_call(c: ast.Call):  # noqa: C901, PLR0911, PLR0912
    """
    Calls of functools / operator combinators written out as the expression they compute (all are pure):
    partial(f, a)(b) -> f(a, b); methodcaller("m", a)(o) -> o.m(a); attrgetter("x")(o) -> o.x; itemgetter(i)(s) -> s[i];
    and_(a, b) -> a & b (every operator.* function); reduce(f, (a, b), i) -> f(f(i, a), b).  None when the call is not one of these.
    """
    f = c.func
    plain = not any(isinstance(a, ast.Starred) for a in c.args) and not any(k.arg is None for k in c.keywords)
    if isinstance(f, ast.Call) and plain and not any(isinstance(a, ast.Starred) for a in f.args) and not any(k.arg is None for k in f.keywords):
        inner = _libfn(f.func)
        if inner == "partial" and f.args:
            return _simp(ast.Call(func=f.args[0], args=list(f.args[1:]) + list(c.args), keywords=list(f.keywords) + list(c.keywords)))
        if inner == "methodcaller" and f.args and isinstance(f.args[0], ast.Constant) and isinstance(f.args[0].value, str) and len(c.args) == 1 and not c.keywords:
            return _simp(ast.Call(func=ast.Attribute(value=c.args[0], attr=f.args[0].value, ctx=ast.Load()), args=list(f.args[1:]), keywords=list(f.keywords)))
        if inner == "attrgetter" and len(f.args) == 1 and not f.keywords and isinstance(f.args[0], ast.Constant) and isinstance(f.args[0].value, str) \
                and len(c.args) == 1 and not c.keywords and all(p.isidentifier() for p in f.args[0].value.split(".")):
            out = c.args[0]
            for part in f.args[0].value.split("."):
                out = ast.Attribute(value=out, attr=part, ctx=ast.Load())
            return _simp(out)
        if inner == "itemgetter" and len(f.args) == 1 and not f.keywords and len(c.args) == 1 and not c.keywords:
            return _simp(ast.Subscript(value=c.args[0], slice=f.args[0], ctx=ast.Load()))
        return None
    name = _libfn(f)
    if name is None or not plain or c.keywords:
        return None
    if name in _OP_BIN and len(c.args) == 2:
        return ast.BinOp(left=c.args[0], op=_OP_BIN[name](), right=c.args[1])
    if name in _OP_CMP and len(c.args) == 2:
        return ast.Compare(left=c.args[0], ops=[_OP_CMP[name]()], comparators=[c.args[1]])
    if name == "not_" and len(c.args) == 1:
        return ast.UnaryOp(op=ast.Not(), operand=c.args[0])
    if name == "neg" and len(c.args) == 1:
        return ast.UnaryOp(op=ast.USub(), operand=c.args[0])
    if name == "contains" and len(c.args) == 2:
        return ast.Compare(left=c.args[1], ops=[ast.In()], comparators=[c.args[0]])
    if name == "getitem" and len(c.args) == 2:
        return _simp(ast.Subscript(value=c.args[0], slice=c.args[1], ctx=ast.Load()))
    if name == "reduce" and len(c.args) in (2, 3):
        items = _literal_elements(c.args[1])
        if items is None or len(items) > 64 or (not items and len(c.args) == 2):
            return None
        acc = c.args[2] if len(c.args) == 3 else items.pop(0)
        for x in items:
            acc = _simp(ast.Call(func=c.args[0], args=[acc, x], keywords=[]))
        return acc
    return None


def _bind_target(t: ast.AST, x: ast.AST) -> dict | None:
    """names of a loop / comprehension target bound to the element expression x"""
    if isinstance(t, ast.Name):
        return {t.id: x}
    if isinstance(t, (ast.Tuple, ast.List)) and not any(isinstance(e, ast.Starred) for e in t.elts):
        parts = _literal_elements(x)
        if parts is None or len(parts) != len(t.elts):
            return None
        out: dict = {}
        for e, v in zip(t.elts, parts):
            b = _bind_target(e, v)
            if b is None:
                return None
            out.update(b)
        return out
    return None


def _comp_elements(e) -> list | None:
    """elements of a list comprehension / generator expression whose generators all range over literal sequences and whose filters are decidable"""
    def go(gens, env):
        if not gens:
            return [_simp(_subst(e.elt, env))]
        g = gens[0]
        if g.is_async:
            return None
        src = _literal_elements(_simp(_subst(g.iter, env)) if env else g.iter)
        if src is None or len(src) > 64:
            return None
        out = []
        for x in src:
            b = _bind_target(g.target, x)
            if b is None:
                return None
            env2 = {**env, **b}
            keep = True
            for cnd in g.ifs:
                v = _decide(_simp(_subst(cnd, env2)), {})
                if v is None:
                    return None
                if not v:
                    keep = False
                    break
            if keep:
                sub = go(gens[1:], env2)
                if sub is None or len(out) + len(sub) > 256:
                    return None
                out.extend(sub)
        return out
    return go(list(e.generators), {})


def _dict_items(e: ast.AST):
    """[(key, value expression)] of a dict display / a dict comprehension over a literal sequence with constant string keys; None otherwise."""
    if isinstance(e, ast.Dict):
        out = []
        for k, v in zip(e.keys, e.values):
            if k is None:
                sub = _dict_items(v)
                if sub is None:
                    return None
                out.extend(sub)
            elif isinstance(k, ast.Constant) and isinstance(k.value, str):
                out.append((k.value, _simp(v)))
            else:
                return None
        return out
    if isinstance(e, ast.DictComp) and len(e.generators) == 1:
        g = e.generators[0]
        src = _literal_elements(g.iter)
        if src is None or g.ifs or g.is_async:
            return None
        out = []
        for x in src:
            if isinstance(g.target, ast.Name):
                env = {g.target.id: x}
            elif isinstance(g.target, (ast.Tuple, ast.List)) and isinstance(x, (ast.Tuple, ast.List)) and len(x.elts) == len(g.target.elts) \
                    and all(isinstance(t, ast.Name) for t in g.target.elts):
                env = {t.id: v for t, v in zip(g.target.elts, x.elts)}
            else:
                return None
            k = _simp(_subst(e.key, env))
            if not (isinstance(k, ast.Constant) and isinstance(k.value, str)):
                return None
            out.append((k.value, _simp(_subst(e.value, env))))
        return out
    if isinstance(e, ast.Call) and isinstance(e.func, ast.Name) and e.func.id == "dict" and not e.args and all(k.arg is not None for k in e.keywords):
        return [(k.arg, _simp(k.value)) for k in e.keywords]
    if isinstance(e, ast.Call) and isinstance(e.func, ast.Name) and e.func.id == "dict" and len(e.args) == 1 and not e.keywords:
        pairs = _literal_elements(e.args[0])
        if pairs is not None and all(isinstance(x, (ast.Tuple, ast.List)) and len(x.elts) == 2 and isinstance(_simp(x.elts[0]), ast.Constant) for x in pairs):
            return [(_simp(x.elts[0]).value, _simp(x.elts[1])) for x in pairs]
    return None


def _int_const(e: ast.AST):
    if isinstance(e, ast.Constant) and isinstance(e.value, int) and not isinstance(e.value, bool):
        return e.value
    if isinstance(e, ast.UnaryOp) and isinstance(e.op, ast.USub) and isinstance(e.operand, ast.Constant) and isinstance(e.operand.value, int) \
            and not isinstance(e.operand.value, bool):
        return -e.operand.value
    return None


def _literal_elements(e: ast.AST):
    """Elements of a list/tuple literal, or of a comprehension (one generator, no filter) over such a literal; None otherwise."""
    if isinstance(e, (ast.List, ast.Tuple)) and not any(isinstance(x, ast.Starred) for x in e.elts):
        return list(e.elts)
    if isinstance(e, (ast.ListComp, ast.GeneratorExp)):
        return _comp_elements(e)                                 # every generator over a literal sequence; filters decided on the elements
    if isinstance(e, ast.Call) and isinstance(e.func, ast.Name) and e.func.id in ("list", "tuple", "iter") and len(e.args) == 1 and not e.keywords:
        return _literal_elements(e.args[0])
    if isinstance(e, ast.Call):
        rec = _record_ctor(e)
        if rec is not None and _record_kind(rec[0]) == "namedtuple":
            return list(rec[2])                                  # a NamedTuple value is the tuple of its fields
    if isinstance(e, ast.Call) and not e.keywords:
        lib = _libfn(e.func)
        if lib == "astuple" and len(e.args) == 1:
            rec = _record_ctor(e.args[0])
            if rec is not None and "__post_init__" not in rec[0].methods:
                return list(rec[2])
        if lib == "chain" and not any(isinstance(a, ast.Starred) for a in e.args):
            cols = [_literal_elements(a) for a in e.args]
            if all(c is not None for c in cols):
                return [x for c in cols for x in c]
        if lib == "chain.from_iterable" and len(e.args) == 1:
            outer = _literal_elements(e.args[0])
            cols = [_literal_elements(a) for a in outer] if outer is not None else [None]
            if all(c is not None for c in cols):
                return [x for c in cols for x in c]
        if lib == "reversed" and len(e.args) == 1:
            col = _literal_elements(e.args[0])
            if col is not None:
                return col[::-1]
        if lib == "islice" and len(e.args) in (2, 3, 4):
            col = _literal_elements(e.args[0])
            bounds = [None if (isinstance(a, ast.Constant) and a.value is None) else _int_const(_simp(a)) for a in e.args[1:]]
            if col is not None and all(b is not None or (isinstance(a, ast.Constant) and a.value is None) for a, b in zip(e.args[1:], bounds)) \
                    and all(b is None or b >= 0 for b in bounds) and (len(bounds) < 3 or bounds[2] != 0):
                return col[slice(*bounds)]
        if lib == "repeat" and len(e.args) == 2 and _int_const(_simp(e.args[1])) is not None and 0 <= _int_const(_simp(e.args[1])) <= 64:
            return [e.args[0]] * _int_const(_simp(e.args[1]))
        if lib == "starmap" and len(e.args) == 2:
            rows = _literal_elements(e.args[1])
            cols = [_literal_elements(r) for r in rows] if rows is not None else [None]
            if all(c is not None for c in cols):
                return [_simp(ast.Call(func=e.args[0], args=list(c), keywords=[])) for c in cols]
        if isinstance(e.func, ast.Attribute) and e.func.attr in ("values", "keys", "items") and not e.args and isinstance(e.func.value, (ast.Dict, ast.Call, ast.DictComp)):
            items = _dict_items(e.func.value)
            if items is not None and len({k for k, _ in items}) == len(items):
                if e.func.attr == "values":
                    return [v for _, v in items]
                if e.func.attr == "keys":
                    return [ast.Constant(value=k) for k, _ in items]
                return [ast.Tuple(elts=[ast.Constant(value=k), v], ctx=ast.Load()) for k, v in items]
    if isinstance(e, ast.BinOp) and isinstance(e.op, ast.Mult):
        for seq, cnt in ((e.left, e.right), (e.right, e.left)):
            k = _int_const(_simp(cnt))
            if isinstance(seq, (ast.List, ast.Tuple)) and k is not None and 0 <= k <= 64:
                col = _literal_elements(seq)                     # (True,) * 10
                if col is not None:
                    return col * k
    if isinstance(e, ast.Subscript) and isinstance(e.slice, ast.Slice):
        col = _literal_elements(e.value)
        bounds = [None if b is None else _int_const(_simp(b)) for b in (e.slice.lower, e.slice.upper, e.slice.step)]
        if col is not None and all(b is not None or x is None for b, x in zip(bounds, (e.slice.lower, e.slice.upper, e.slice.step))) and bounds[2] != 0:
            return col[slice(*bounds)]
    if isinstance(e, ast.BinOp) and isinstance(e.op, ast.Add):
        le, ri = _literal_elements(e.left), _literal_elements(e.right)        # (a, b) + (c, d)
        if le is not None and ri is not None:
            return le + ri
    if isinstance(e, ast.Call) and isinstance(e.func, ast.Name) and e.func.id == "map" and len(e.args) >= 2 and not e.keywords \
            and not any(isinstance(a, ast.Starred) for a in e.args):
        cols = [_literal_elements(a) for a in e.args[1:]]                     # map(f, (x, y)) -> f(x), f(y)
        if all(c is not None for c in cols):
            if isinstance(e.args[0], (ast.Name, ast.Attribute)) and len(cols) == 1 and not (isinstance(e.args[0], ast.Name) and e.args[0].id == "bool"):
                return [ast.Call(func=e.args[0], args=[x], keywords=[]) for x in cols[0]]
            return [_simp(ast.Call(func=e.args[0], args=list(row), keywords=[])) for row in zip(*cols)]
    if isinstance(e, ast.Call) and isinstance(e.func, ast.Name) and e.func.id == "zip" and e.args and not e.keywords:
        cols = [_literal_elements(a) for a in e.args]
        if all(c is not None for c in cols):
            return [ast.Tuple(elts=list(row), ctx=ast.Load()) for row in zip(*cols)]
    if isinstance(e, ast.Call) and isinstance(e.func, ast.Name) and e.func.id == "enumerate" and len(e.args) in (1, 2) and \
            all(k.arg == "start" for k in e.keywords) and len(e.args) + len(e.keywords) <= 2:
        col = _literal_elements(e.args[0])
        first = e.args[1] if len(e.args) == 2 else e.keywords[0].value if e.keywords else ast.Constant(value=0)
        if col is not None and _int_const(_simp(first)) is not None:
            return [ast.Tuple(elts=[ast.Constant(value=i), x], ctx=ast.Load()) for i, x in enumerate(col, _int_const(_simp(first)))]
    if isinstance(e, ast.Call) and isinstance(e.func, ast.Name) and e.func.id == "range" and 1 <= len(e.args) <= 3 and not e.keywords:
        bounds = [_int_const(_simp(a)) for a in e.args]
        if all(b is not None for b in bounds) and (len(bounds) < 3 or bounds[2] != 0):
            r = range(*bounds)
            if len(r) <= 64:
                return [ast.Constant(value=i) for i in r]
    return None


def _and_parts(e: ast.AST) -> list[ast.AST]:
    """Conjuncts of `a and b`, `a & b`, all([a, b]); constant True disappears."""
    if isinstance(e, ast.BoolOp) and isinstance(e.op, ast.And):
        return [p for v in e.values for p in _and_parts(v)]
    if isinstance(e, ast.BinOp) and isinstance(e.op, ast.BitAnd):
        return _and_parts(e.left) + _and_parts(e.right)
    if isinstance(e, ast.Call) and isinstance(e.func, ast.Name) and e.func.id == "all" and len(e.args) == 1 and not e.keywords:
        elts = _literal_elements(e.args[0])
        if elts is not None:
            return [p for v in elts for p in _and_parts(v)]
    if isinstance(e, ast.Call) and isinstance(e.func, ast.Name) and e.func.id == "bool" and len(e.args) == 1 and not e.keywords:
        return _and_parts(e.args[0])
    if isinstance(e, ast.UnaryOp) and isinstance(e.op, ast.Not):
        o = e.operand
        if isinstance(o, ast.Call) and isinstance(o.func, ast.Name) and o.func.id == "any" and len(o.args) == 1 and not o.keywords:
            elts = _literal_elements(o.args[0])                     # not any([not a, not b]) is a and b
            if elts is not None:
                return [p for v in elts for p in _and_parts(_negated(v))]
        if isinstance(o, ast.BoolOp) and isinstance(o.op, ast.Or):
            return [p for v in o.values for p in _and_parts(_negated(v))]
        if isinstance(o, ast.UnaryOp) and isinstance(o.op, ast.Not):
            return _and_parts(o.operand)
    if isinstance(e, ast.Compare) and len(e.ops) == 1 and isinstance(e.ops[0], ast.Eq):
        le, ri = _literal_elements(e.left), _literal_elements(e.comparators[0])
        if le is not None and ri is not None and len(le) == len(ri) and le and isinstance(e.left, (ast.Tuple, ast.List, ast.Call)) \
                and isinstance(e.comparators[0], (ast.Tuple, ast.List, ast.Call, ast.BinOp)):
            out = []                                              # (a, b) == (True, True) / (x, y) == (u, v): element by element
            for x, y in zip(le, ri):
                if isinstance(y, ast.Constant) and y.value is True:
                    out.extend(_and_parts(x))
                elif isinstance(x, ast.Constant) and x.value is True:
                    out.extend(_and_parts(y))
                else:
                    out.append(ast.Compare(left=x, ops=[ast.Eq()], comparators=[y]))
            return out
    if isinstance(e, ast.Constant) and e.value is True:
        return []
    return [e]


def _negated(e: ast.AST) -> ast.AST:
    """the negation of a condition, written without a leading `not` where the operator can be flipped"""
    if isinstance(e, ast.UnaryOp) and isinstance(e.op, ast.Not):
        return e.operand
    flip = {ast.Eq: ast.NotEq, ast.NotEq: ast.Eq, ast.Lt: ast.GtE, ast.GtE: ast.Lt, ast.Gt: ast.LtE, ast.LtE: ast.Gt, ast.Is: ast.IsNot, ast.IsNot: ast.Is,
            ast.In: ast.NotIn, ast.NotIn: ast.In}
    if isinstance(e, ast.Compare) and len(e.ops) == 1:
        return ast.Compare(left=e.left, ops=[flip[type(e.ops[0])]()], comparators=list(e.comparators))
    return ast.UnaryOp(op=ast.Not(), operand=e)


def _sign_of(conds, is_target):
    """
    What the path condition says about `t > 0` for the non-negative integer expression t selected by is_target:
    (True | False | None, t).  `t > 0`, `0 < t`, `t >= 1`, `t != 0` and plain truthiness of t are the same test on t >= 0.
    """
    for f in _facts(conds):
        le, ri = f.left, f.right
        if f.op == "truthy" and is_target(le):
            return f.pos, le
        if f.op == "eq" and ri is not None:
            if is_target(le) and const_value(ri) == 0:
                return (not f.pos), le
            if is_target(ri) and const_value(le) == 0:
                return (not f.pos), ri
        if f.op == "lt" and ri is not None:
            if is_target(ri) and const_value(le) == 0:          # 0 < t
                return f.pos, ri
            if is_target(le) and const_value(ri) == 1:          # t < 1
                return (not f.pos), le
            if is_target(le) and const_value(ri) == 0 and f.pos:  # t < 0: impossible, treated as "not positive"
                return False, le
    return None, None


def _describe(conds) -> str:
    return " and ".join(("" if p else "not ") + "(" + norm(e) + ")" for e, p in conds) or "always"


# ------------------------------------------------------------------------------------------------------------------
# ring laws
# ------------------------------------------------------------------------------------------------------------------
def _fp2_coeffs(fi: FuncInfo, call: ast.AST, symbol_of, *, ignore_mod: str | None = None, moduli=("self.mod",)) -> dict[str, Poly]:
    if not (isinstance(call, ast.Call) and (chain(call.func) in ("FP2Value", "self.__class__", "other.__class__") or norm(call.func) in ("type(self)", "type(other)"))
            and call.args):
        raise AnalysisError(f"{fi.qualname}: returns `{norm(call)[:60]}`, not `FP2Value(...)`")
    if norm(call.args[0]) not in moduli:
        raise AnalysisError(f"{fi.qualname}: result modulus is not self.mod")
    pos = _star_args(call) if any(isinstance(a, ast.Starred) for a in call.args) else list(call.args)
    if pos is None or len(pos) > 7:
        raise AnalysisError(f"undecided: {fi.qualname}: unsupported constructor call `{norm(call)[:60]}`")
    out = {k: Poly.const(v) for k, v in DEFAULTS.items()}
    for i, a in enumerate(pos[1:]):
        out[SYMS[i]] = eval_expr(_simp(a), {}, symbol_of, ignore_mod=ignore_mod)
    kws = []
    for k in call.keywords:
        if k.arg is None:
            items = _dict_items(_simp(k.value))                 # **{"a": ..., "b": ...} / **{name: f(name) for name in (...)}
            if items is None:
                raise AnalysisError(f"undecided: {fi.qualname}: keyword arguments `**{norm(k.value)[:50]}` are not a literal mapping")
            kws.extend(items)
        else:
            kws.append((k.arg, k.value))
    for name, value in kws:
        if name not in out:
            raise AnalysisError(f"{fi.qualname}: unknown keyword {name}")
        out[name] = eval_expr(_simp(value), {}, symbol_of, ignore_mod=ignore_mod)
    return out


def _single_var(p: Poly) -> str | None:
    if len(p.t) == 1:
        (mon, co), = p.t.items()
        if co == 1 and len(mon) == 1:
            return mon[0]
    return None


def _restriction(conds) -> tuple[dict[str, Poly], bool]:
    """
    Equalities between coefficient symbols / constants that hold on a path, as a substitution; second value: the path
    condition contains something that is neither such an equality nor a generic (open) condition, so a failing identity
    cannot be blamed on the code.  Disequalities and `x is non-zero` hold generically and do not restrict an identity.
    """
    mapping: dict[str, Poly] = {}
    opaque = False

    def ev(e):
        try:
            return eval_expr(_simp(e), {}, sym)
        except AnalysisError:
            return None
    for e, pol in conds:
        if pol and norm(e) in ("self.mod == other.mod", "other.mod == self.mod"):
            continue
        facts = _atoms_with_polarity(e, pol)
        if not facts:
            opaque = True
        for f in facts:
            if f.op == "eq":
                le, ri = ev(f.left), ev(f.right)
                if le is None or ri is None:
                    opaque = True
                elif f.pos:
                    le, ri = le.subst(mapping), ri.subst(mapping)
                    if _single_var(le):
                        mapping[_single_var(le)] = ri
                    elif _single_var(ri):
                        mapping[_single_var(ri)] = le
                    elif not (le - ri).is_zero():
                        opaque = True
            elif f.op == "truthy":
                le = ev(f.left)
                if le is None:
                    opaque = True
                elif not f.pos:
                    le = le.subst(mapping)
                    if _single_var(le):
                        mapping[_single_var(le)] = Poly.const(0)
                    elif not le.is_zero():
                        opaque = True
            else:
                opaque = True
    return mapping, opaque


def _apply(p: Poly, mapping: dict[str, Poly]) -> Poly:
    for _ in range(len(mapping) + 1):
        q = p.subst(mapping)
        if q == p:
            break
        p = q
    return p


def method_results(ctx: Ctx, fi: FuncInfo) -> list[tuple[dict[str, Poly], list, dict[str, Poly], bool]]:
    """Every return path of an operator method: (six coefficient polynomials, path condition, substitution, opaque)."""
    out = []
    for st, ret in _paths(fi):
        mapping, opaque = _restriction(st.conds)
        conds = [(e, p) for e, p in st.conds if not (p and norm(e) in ("self.mod == other.mod", "other.mod == self.mod"))]
        out.append((_fp2_coeffs(fi, ret, sym), conds, mapping, opaque))
    if not out:
        raise AnalysisError(f"{fi.qualname}: no `return FP2Value(...)`")
    return out


def method_result(ctx: Ctx, fi: FuncInfo) -> dict[str, Poly]:
    """Polynomials of the six coefficients of the FP2Value returned on the general (unrestricted) path of an operator method."""
    gen = [r for r, _, mapping, _ in method_results(ctx, fi) if not mapping]
    if not gen:
        raise AnalysisError(f"undecided: {fi.qualname}: no unrestricted return path")
    return gen[0]


def oblige(ctx: Ctx, fi: FuncInfo, what: str, got: Poly, want: Poly) -> None:
    diff = got - want
    ok = diff.is_zero()
    ctx.oblige(ok)
    ctx.check(ok, "ring-laws", fi, f"{fi.name}: {what}", f"{fi.name}: {what} equals the reference polynomial",
              f"{fi.name}: coefficient `{what}` differs from the field arithmetic of Z[x]/(x^2+x+1): implementation - reference = {diff}")


_COEFF_LABELS = (("a", "a (numerator, x^0)"), ("b", "b (numerator, x^1)"), ("c", "c (numerator, x^2)"),
                 ("aC", "aC (denominator, x^0)"), ("bC", "bC (denominator, x^1)"), ("cC", "cC (denominator, x^2)"))


def _oblige_operator(ctx: Ctx, fi: FuncInfo, num, den) -> dict[str, Poly]:
    """All return paths of one operator against the reference fraction num/den; returns the general path's polynomials."""
    want = {"a": num[0], "b": num[1], "c": Poly.const(0), "aC": den[0], "bC": den[1], "cC": Poly.const(0)}
    general = None
    for r, conds, mapping, opaque in method_results(ctx, fi):
        if not mapping:
            # general path (possibly the fall-through of a guard: a condition that is not an equality holds generically)
            if general is None:
                general = r
            suffix = "" if not conds else f" [path: {_describe(conds)}]"
            for k, lab in _COEFF_LABELS:
                if conds and opaque and not (r[k] - want[k]).is_zero():
                    raise AnalysisError(f"undecided: {fi.qualname}: coefficient {k} differs from the reference on the path `{_describe(conds)}`, "
                                        "whose condition is not understood")
                oblige(ctx, fi, lab + suffix, r[k], want[k])
            continue
        # restricted path (fast path): the identity has to hold under the equalities its guard establishes - coefficient by
        # coefficient, or at least as the same fraction (cross-multiplied in Z[x]/(x^2+x+1))
        got = {k: _apply(p, mapping) for k, p in r.items()}
        ref = {k: _apply(p, mapping) for k, p in want.items()}
        same = all((got[k] - ref[k]).is_zero() for k in SYMS)
        if not same:
            gn, gd = reduce3(got["a"], got["b"], got["c"]), reduce3(got["aC"], got["bC"], got["cC"])
            lhs, rhs = mul2(gn, (ref["aC"], ref["bC"])), mul2((ref["a"], ref["b"]), gd)
            same = all((x - y).is_zero() for x, y in zip(lhs, rhs)) and not (gd[0].is_zero() and gd[1].is_zero())
        if not same and opaque:
            raise AnalysisError(f"undecided: {fi.qualname}: result on the path `{_describe(conds)}` differs from the reference and the path condition is not understood")
        ctx.oblige(same)
        bad = next((f"{k}: implementation - reference = {got[k] - ref[k]}" for k in SYMS if not (got[k] - ref[k]).is_zero()), "")
        ctx.check(same, "ring-laws", fi, f"{fi.name}: path `{_describe(conds)}`",
                  f"{fi.name}: the result returned when {_describe(conds)} is the reference fraction under these equalities",
                  f"{fi.name}: the shortcut taken when {_describe(conds)} does not return the field result: the guard establishes only "
                  f"{ {k: str(v) for k, v in mapping.items()} }, and under these equalities the returned value is not num/den of Z[x]/(x^2+x+1) "
                  f"({bad}) - an operand the guard does not exclude (e.g. a non-zero x^2 coefficient) gets a wrong result")
    if general is None:
        raise AnalysisError(f"undecided: {fi.qualname}: no unrestricted return path")
    return general


def rule_ring_laws(ctx: Ctx) -> None:
    _use(ctx)
    repo = ctx.repo
    cls = repo.cls("FP2Value", VP)
    n1, d1, n2, d2 = operands()
    ref = {
        "__mul__": (mul2(n1, n2), mul2(d1, d2)),
        "__floordiv__": (mul2(n1, d2), mul2(d1, n2)),
        "__add__": (tuple(x + y for x, y in zip(mul2(n1, d2), mul2(n2, d1))), mul2(d1, d2)),
        "__sub__": (tuple(x - y for x, y in zip(mul2(n1, d2), mul2(n2, d1))), mul2(d1, d2)),
    }
    res = {}
    fm = _FieldModel(ctx, cls)
    for name, (num, den) in ref.items():
        try:
            res[name] = _oblige_operator(ctx, cls.methods[name], num, den)
        except AnalysisError as e:
            # the method is written in a way the symbolic reading does not follow: decide this operator on model operands
            bad = _model_verdict(ctx, cls.methods[name], name, lambda n=name: fm.operator(n), e)
            ctx.oblige(not bad)
            ctx.check(not bad, "ring-laws", cls.methods[name], f"{name}: model operands", f"{name} equals the field operation on the model operand set (symbolic reading: {str(e)[:80]})",
                      f"{name} is not the arithmetic of Z[x]/(x^2+x+1) fractions: {bad}")
            res[name] = {"a": num[0], "b": num[1], "c": Poly.const(0), "aC": den[0], "bC": den[1], "cC": Poly.const(0)}   # the derived laws then speak about the reference
    # derived laws on the implementation's own polynomials
    swap = {f"s_{k}": f"o_{k}" for k in SYMS} | {f"o_{k}": f"s_{k}" for k in SYMS}
    for name in ("__add__", "__mul__"):
        fi = cls.methods[name]
        for k in ("a", "b", "aC", "bC"):
            got = res[name][k]
            ok = got == got.rename(swap)
            ctx.oblige(ok)
            ctx.check(ok, "ring-laws", fi, f"{name}: {k} commutes", f"{name} is commutative in coefficient {k}",
                      f"{name} is not commutative: coefficient {k} changes when the operands are swapped (x op y != y op x): difference {got - got.rename(swap)}")
    # x - y == x + (0 - y): compare cross-multiplied fractions  (num_sub * den_add' == num_add' * den_sub) mod (x^2+x+1)
    zero = {"s_a": Poly.const(0), "s_b": Poly.const(0), "s_c": Poly.const(0), "s_aC": Poly.const(1), "s_bC": Poly.const(0), "s_cC": Poly.const(0)}
    neg_y = {k: v.subst(zero) for k, v in res["__sub__"].items()}                 # 0 - y, in terms of o_*
    as_other = {f"o_{k}": neg_y[k] for k in SYMS}
    add_neg = {k: v.subst(as_other) for k, v in res["__add__"].items()}           # x + (0 - y)
    lhs = mul2((res["__sub__"]["a"], res["__sub__"]["b"]), (add_neg["aC"], add_neg["bC"]))
    rhs = mul2((add_neg["a"], add_neg["b"]), (res["__sub__"]["aC"], res["__sub__"]["bC"]))
    fi = cls.methods["__sub__"]
    for i, lab in enumerate(("x^0", "x^1")):
        ok = (lhs[i] - rhs[i]).is_zero()
        ctx.oblige(ok)
        ctx.check(ok, "ring-laws", fi, f"x - y == x + (0 - y) [{lab}]", f"x - y and x + (0 - y) are the same fraction ({lab})",
                  f"x - y != x + (0 - y) as fractions ({lab}): the additive structure is inconsistent")
    # (x // y) * y ~ x   (cross-multiplied)
    q = res["__floordiv__"]
    as_self = {f"s_{k}": q[k] for k in SYMS}
    back = {k: v.subst(as_self) for k, v in res["__mul__"].items()}                # (x // y) * y
    lhs = mul2((back["a"], back["b"]), d1)
    rhs = mul2(n1, (back["aC"], back["bC"]))
    fi = cls.methods["__floordiv__"]
    for i, lab in enumerate(("x^0", "x^1")):
        ok = (lhs[i] - rhs[i]).is_zero()
        ctx.oblige(ok)
        ctx.check(ok, "ring-laws", fi, f"(x // y) * y == x [{lab}]", f"(x // y) * y and x are the same fraction ({lab})",
                  f"(x // y) * y != x as fractions ({lab})")
    # inverse swaps numerator and denominator (every return path, under its own equalities)
    invf = cls.methods["inverse"]
    pairs = {"a": "aC", "b": "bC", "c": "cC", "aC": "a", "bC": "b", "cC": "c"}
    try:
        inv_results = method_results(ctx, invf)
        for r, conds, mapping, opaque in inv_results:
            for k, src in pairs.items():
                got, want = _apply(r[k], mapping), _apply(V("s", src), mapping)
                if conds and opaque and not (got - want).is_zero():
                    raise AnalysisError(f"undecided: {invf.qualname}: path `{_describe(conds)}` is not understood")
    except AnalysisError as e:
        inv_results = None
        bad = _model_verdict(ctx, invf, "inverse", fm.inverse, e)
        ctx.oblige(not bad)
        ctx.check(not bad, "ring-laws", invf, "inverse: model operands", "inverse swaps numerator and denominator on the model operand set",
                  f"inverse does not swap numerator and denominator: {bad}")
    for r, conds, mapping, opaque in inv_results or []:
        for k, src in pairs.items():
            got, want = _apply(r[k], mapping), _apply(V("s", src), mapping)
            oblige(ctx, invf, f"{k} <- self.{src}" + (f" [path: {_describe(conds)}]" if conds else ""), got, want)
    _check_normalize(ctx, cls, fm)
    mi = repo.func(VP, "_modinv")
    try:
        ok = _modinv_invariant(ctx, mi)
        sym_out: AnalysisError | str = "_modinv no longer maintains the extended-Euclid invariant"
    except AnalysisError as e:
        ok, sym_out = False, e
    if not ok:
        # not the loop shape the invariant is read from (or the invariant fails): the defining property (x * e) mod m == 1 on model operands
        ok = not _model_verdict(ctx, mi, "_modinv", fm.modinv, sym_out)
    ctx.oblige(ok)
    ctx.check(ok, "ring-laws", mi, mi.node, "_modinv maintains x1*e = a and x2*e = b (mod m) and returns x1 % m when b reaches 0",
              "_modinv no longer maintains the extended-Euclid invariant: it does not return the modular inverse")
    try:
        _check_eq(ctx, cls)
    except AnalysisError as e:
        if "undecided" not in str(e):
            raise
        _check_eq_model(ctx, cls, str(e))
    _check_init(ctx, cls)
    _check_wp_compress(ctx, cls, fm)


def _check_wp_compress(ctx: Ctx, cls, fm: "_FieldModel") -> None:
    """
    wp_compress is how a field element is put on the wire (only its a and b coefficients are serialised): the value it returns
    must be the SAME field element, with denominator 1.  Decided on model operands - numerators with and without an x term over
    denominators that are 1, a scalar k != 1, k + jx and jx alone - by interpreting the method (and what it calls) and comparing,
    by cross-multiplication in F_p[x]/(x^2+x+1), with the operand itself.
    """
    wc = cls.methods.get("wp_compress")
    if wc is None:
        raise AnalysisError("anchor-lost: FP2Value.wp_compress")
    try:
        bad = fm.wp_compress()
    except _NoModel as e:
        raise AnalysisError(f"undecided: {wc.qualname}: model evaluation stopped at {e}") from None
    ctx.oblige(not bad)
    ctx.check(not bad, "ring-laws", wc, wc.node, "wp_compress returns the same field element with denominator 1 (model operands)",
              f"FP2Value.wp_compress does not return the value it was given: {bad}. Only the a and b coefficients of the compressed form are serialised, so "
              "commitments / keys whose denominator the shortcut mishandles do not survive serialisation and the honest proof is rejected")


def _is_modinv(e: ast.AST) -> bool:
    return isinstance(e, ast.Call) and chain(e.func) == "_modinv"


def _is_mp(e: ast.AST) -> bool:
    """The modular inverse of this value's own x^0 denominator coefficient (self.aC is stored reduced, so `% self.mod` is optional)."""
    return _is_modinv(e) and len(e.args) == 2 and not e.keywords and norm(e.args[1]) == "self.mod" and \
        norm(e.args[0]) in ("self.aC % self.mod", "self.aC")


class _NotRead(Exception):
    """the symbolic reading of a method did not find the construct it reasons about (its shape is not recognised)"""


def _check_normalize(ctx: Ctx, cls, fm=None) -> None:
    """normalize: on the path where mp = modinv(aC) is positive, every coefficient is scaled by the same mp and aC becomes 1."""
    nz = cls.methods["normalize"]
    try:
        _check_normalize_symbolic(ctx, cls)
    except (_NotRead, AnalysisError) as e:
        # neither a path guarded by the sign of modinv(aC) nor an unguarded use of it was found (the scaling went into a form the
        # path reading does not follow): the defining behaviour on model operands decides
        if fm is None:
            raise AnalysisError(f"undecided: {nz.qualname}: {e}") from None
        bad = _model_verdict(ctx, nz, "normalize", fm.normalize, e if isinstance(e, AnalysisError) else AnalysisError(f"undecided: {nz.qualname}: {e}"))
        ctx.oblige(not bad)
        ctx.check(not bad, "ring-laws", nz, nz.node, "normalize: mp = modinv(aC)", f"normalize does not scale by the inverse of aC: {bad}")
        ctx.oblige(not bad)
        ctx.check(not bad, "ring-laws", nz, nz.node, "normalize has the mp > 0 branch", f"normalize lost its scaling branch: {bad}")


def _check_normalize_symbolic(ctx: Ctx, cls) -> None:
    nz = cls.methods["normalize"]

    def symn(e):
        if _is_mp(e):
            return "mp"
        if _is_modinv(e):
            return "mp_of_something_else"
        return sym(e)
    scaled, unguarded, wrong_target = [], [], False
    for st, ret in _paths(nz):
        v, target = _sign_of(st.conds, _is_modinv)
        if v is not None and not _is_mp(target):
            wrong_target = True
        if v is True:
            scaled.append((st, ret))
        elif v is None and isinstance(ret, ast.Call) and any(_is_modinv(x) for x in ast.walk(ret)):
            unguarded.append((st, ret))
    if not scaled and not unguarded and not wrong_target:
        raise _NotRead("no return path mentions the modular inverse of aC")
    coeffs = [_fp2_coeffs(nz, ret, symn, ignore_mod="self.mod") for st, ret in scaled]        # may raise: nothing has been reported yet
    ok = bool(scaled) and not wrong_target
    ctx.oblige(ok)
    ctx.check(ok, "ring-laws", nz, nz.node, "normalize: mp = modinv(aC)", "normalize does not scale by the inverse of aC")
    ok = bool(scaled) and not unguarded
    ctx.oblige(ok)
    ctx.check(ok, "ring-laws", nz, nz.node, "normalize has the mp > 0 branch",
              "normalize lost its scaling branch: the scaled value is not (only) returned when the inverse of aC exists")
    for n, r in enumerate(coeffs):
        for k in SYMS:
            want = Poly.const(1) if k == "aC" else V("s", k) * Poly.var("mp")
            oblige(ctx, nz, f"normalize {k}" + (f" [path {n + 1}]" if n else ""), r[k], want)


def _check_eq(ctx: Ctx, cls) -> None:
    """
    __eq__ by decision table: for an FP2Value operand it returns True exactly when the three coefficient pairs (a, aC), (b, bC),
    (c, cC) of the normalised quotient agree.  Atoms are the comparisons of two coefficients of the quotient; a comparison of
    another pair (b == aC) is an independent atom, so a result that depends on it differs from the reference for some values.
    """
    eq = cls.methods["__eq__"]
    quotients = ("(self // other).normalize()",)
    ref = (("a", "aC"), ("b", "bC"), ("c", "cC"))

    def atom(e):
        if isinstance(e, ast.Compare) and len(e.ops) == 1 and isinstance(e.ops[0], (ast.Eq, ast.NotEq)):
            le, ri = e.left, e.comparators[0]
            if isinstance(le, ast.Attribute) and isinstance(ri, ast.Attribute) and norm(le.value) == norm(ri.value) and norm(le.value) in quotients \
                    and le.attr in SYMS and ri.attr in SYMS and le.attr != ri.attr:
                return tuple(sorted((le.attr, ri.attr))), isinstance(e.ops[0], ast.Eq)
        return None

    def tv(e, asg):  # noqa: PLR0911
        if isinstance(e, ast.Constant):
            return bool(e.value)
        if isinstance(e, ast.UnaryOp) and isinstance(e.op, ast.Not):
            v = tv(e.operand, asg)
            return None if v is None else not v
        parts = None
        if isinstance(e, ast.BoolOp):
            parts, conj = e.values, isinstance(e.op, ast.And)
        elif isinstance(e, ast.BinOp) and isinstance(e.op, (ast.BitAnd, ast.BitOr)):
            parts, conj = [e.left, e.right], isinstance(e.op, ast.BitAnd)
        elif isinstance(e, ast.Call) and isinstance(e.func, ast.Name) and e.func.id in ("all", "any") and len(e.args) == 1 and not e.keywords:
            parts, conj = _literal_elements(e.args[0]), e.func.id == "all"
        if parts is not None:
            vals = [tv(p, asg) for p in parts]
            if conj:
                return False if any(v is False for v in vals) else True if all(v is True for v in vals) else None
            return True if any(v is True for v in vals) else False if all(v is False for v in vals) else None
        if isinstance(e, ast.Call) and chain(e.func) == "isinstance" and len(e.args) == 2 and norm(e.args[0]) == "other" and norm(e.args[1]) == "FP2Value":
            return asg["inst"]
        a = atom(e)
        if a is not None:
            return asg[a[0]] == a[1]
        return None
    paths = _paths(eq)
    keys = list(ref)
    for st, ret in paths:
        for e in [c for c, _ in st.conds] + [ret]:
            for x in ast.walk(e):
                a = atom(x)
                if a is not None and a[0] not in keys:
                    keys.append(a[0])
    if len(keys) > 8:
        raise AnalysisError(f"undecided: {eq.qualname}: {len(keys)} different coefficient comparisons")
    ok = True
    why = ""
    for vals_ in itertools.product((True, False), repeat=len(keys)):
        asg = dict(zip(keys, vals_))
        asg["inst"] = True
        live = []
        for st, ret in paths:
            vals = [None if (v := tv(e, asg)) is None else v == p for e, p in st.conds]
            if any(v is False for v in vals):
                continue
            if any(v is None for v in vals):
                raise AnalysisError(f"undecided: {eq.qualname}: path condition `{_describe(st.conds)}` is not a comparison of the normalised quotient")
            live.append(ret)
        if len(live) != 1:
            raise AnalysisError(f"undecided: {eq.qualname}: {len(live)} paths for one outcome of the coefficient comparisons")
        got = tv(live[0], asg)
        if got is None:
            raise AnalysisError(f"undecided: {eq.qualname}: returns `{norm(live[0])[:80]}`, not a combination of the quotient's coefficient comparisons")
        if got != all(asg[k] for k in ref) and ok:
            ok = False
            why = "with " + ", ".join(f"{x}{'==' if asg[(x, y)] else '!='}{y}" for x, y in keys) + f" of the normalised quotient it returns {got}"
    ctx.oblige(ok)
    ctx.check(ok, "ring-laws", eq, eq.node, "equality = normalised quotient has numerator == denominator",
              "FP2Value equality is no longer quotient == 1: " + why)


class _FieldModel:
    """
    Reference arithmetic of fractions over F_p[x]/(x^2+x+1) on plain integers, and FP2Value methods interpreted on model values
    (see _Model).  Decides a ring-law question when the symbolic reading does not understand how a method is written: the method
    is evaluated for a fixed set of operands (scalars, x and x^2 terms in numerator and denominator, non-normalised denominators,
    zero, operands of the shape fast paths test for) over two primes and compared - as fractions, by cross-multiplication -
    with the reference.  A mismatch refutes the law; agreement on the whole set is the verdict of this fallback.
    """

    PRIMES = (11, 1000003)
    REPS = ((3, 0, 0, 1, 0, 0), (6, 0, 0, 2, 0, 0), (3, 5, 0, 1, 0, 0), (4, 6, 1, 1, 0, 2), (3, 5, 0, 2, 1, 1), (0, 0, 0, 1, 0, 0), (1, 1, 1, 1, 0, 0),
            (5, 7, 2, 3, 1, 4), (2, 0, 0, 1, 0, 0), (1, 0, 0, 1, 0, 0), (7, 2, 0, 0, 3, 0), (1, 9, 0, 1, 0, 0))

    def __init__(self, ctx: Ctx, cls) -> None:
        self.repo, self.cls = ctx.repo, cls

    # ---- reference
    @staticmethod
    def red(v, p):
        a, b, c, aC, bC, cC = v
        return ((a - c) % p, (b - c) % p), ((aC - cC) % p, (bC - cC) % p)

    @staticmethod
    def mul(u, v, p):
        return ((u[0] * v[0] - u[1] * v[1]) % p, (u[0] * v[1] + u[1] * v[0] - u[1] * v[1]) % p)

    def same(self, x, y, p) -> bool:
        (n1, d1), (n2, d2) = x, y
        return d1 != (0, 0) and d2 != (0, 0) and self.mul(n1, d2, p) == self.mul(n2, d1, p)

    def ref_op(self, op: str, x, y, p):
        (n1, d1), (n2, d2) = x, y
        if op == "__mul__":
            return self.mul(n1, n2, p), self.mul(d1, d2, p)
        if op == "__floordiv__":
            return self.mul(n1, d2, p), self.mul(d1, n2, p)
        s1, s2 = self.mul(n1, d2, p), self.mul(n2, d1, p)
        sign = 1 if op == "__add__" else -1
        return ((s1[0] + sign * s2[0]) % p, (s1[1] + sign * s2[1]) % p), self.mul(d1, d2, p)

    def attrs(self, obj, p):
        if not isinstance(obj, _Obj):
            return None
        try:
            return tuple(_view(self.repo, obj, k) for k in SYMS)
        except KeyError:
            return None

    # ---- checks: each returns "" (holds on the model set) or a description of the first mismatch
    def operator(self, name: str) -> str:
        m = _Model(self.repo, budget=3000000)
        fi = self.cls.methods[name]
        for p in self.PRIMES:
            objs = [m.instantiate(self.cls, [p, *v], {}) for v in self.REPS]
            for i, x in enumerate(self.REPS):
                for j, y in enumerate(self.REPS):
                    rx, ry = self.red(x, p), self.red(y, p)
                    if rx[1] == (0, 0) or ry[1] == (0, 0) or (name == "__floordiv__" and ry[0] == (0, 0)):
                        continue
                    try:
                        got = self.attrs(m.call(fi, [objs[i], objs[j]], {}), p)
                    except _Raised as r:
                        return f"modulo {p}, {x} {name} {y} raises {r.kind}"
                    want = self.ref_op(name, rx, ry, p)
                    if got is None or not self.same(self.red(got, p), want, p):
                        return f"modulo {p}, {x} {name} {y} gives {got}, which is not the field result"
        return ""

    def inverse(self) -> str:
        m = _Model(self.repo, budget=1000000)
        fi = self.cls.methods["inverse"]
        for p in self.PRIMES:
            for v in self.REPS:
                got = self.attrs(m.call(fi, [m.instantiate(self.cls, [p, *v], {})], {}), p)
                want = tuple(x % p for x in (v[3], v[4], v[5], v[0], v[1], v[2]))
                if got != want:
                    return f"modulo {p}, inverse of {v} gives {got}"
        return ""

    def normalize(self) -> str:
        m = _Model(self.repo, budget=1000000)
        fi = self.cls.methods["normalize"]
        for p in self.PRIMES:
            for v in self.REPS:
                got = self.attrs(m.call(fi, [m.instantiate(self.cls, [p, *v], {})], {}), p)
                if v[3] % p:
                    mp = pow(v[3], -1, p)
                    want = tuple((x * mp) % p for x in v)
                else:
                    want = tuple(x % p for x in v)
                if got != want:
                    return f"modulo {p}, normalize of {v} gives {got} instead of {want}"
        return ""

    def wp_compress(self) -> str:
        """wp_compress(v) is v itself (the same field element) written with the trivial denominator 1, for every v = (a + bx)/(aC + bCx) with an invertible denominator"""
        m = _Model(self.repo, budget=3000000)
        fi = self.cls.methods["wp_compress"]
        reps = [v for v in self.REPS if v[2] == 0 and v[5] == 0] + [(3, 5, 0, 2, 0, 0), (4, 0, 0, 5, 0, 0), (1, 2, 0, 3, 4, 0), (0, 7, 0, 1, 6, 0), (9, 9, 0, 7, 0, 0)]
        for p in self.PRIMES:
            for v in reps:
                n, d = self.red(v, p)
                if (d[0] * d[0] - d[0] * d[1] + d[1] * d[1]) % p == 0:
                    continue                                     # denominator not invertible: outside the field laws
                try:
                    got = self.attrs(m.call(fi, [m.instantiate(self.cls, [p, *v], {})], {}), p)
                except _Raised as r:
                    return f"modulo {p}, wp_compress of {v} raises {r.kind}"
                if got is None or not self.same(self.red(got, p), (n, d), p):
                    return f"modulo {p}, wp_compress of {v} (numerator a, b, c / denominator aC, bC, cC) gives {got}, which is a different field element"
                if (got[2] % p, got[3] % p, got[4] % p, got[5] % p) != (0, 1, 0, 0):
                    return f"modulo {p}, wp_compress of {v} gives {got}, which still has a denominator"
        return ""

    def modinv(self) -> str:
        m = _Model(self.repo, budget=1000000)
        fi = self.repo.func(VP, "_modinv")
        for mod in (2, 11, 13, 1000003, 2 ** 61 - 1):
            for e in (1, 2, 3, 5, 10, mod - 1, mod + 2, 123456789):
                if e % mod == 0:
                    continue
                got = m.call(fi, [e, mod], {})
                if not isinstance(got, int) or (got * e) % mod != 1 % mod or not 0 <= got < mod:
                    return f"_modinv({e}, {mod}) gives {got}"
        return ""

    def intpow(self) -> str:
        m = _Model(self.repo, budget=4000000)
        fi = self.cls.methods["intpow"]
        p = 11
        for v in ((2, 0, 0, 1, 0, 0), (3, 5, 0, 1, 0, 0), (1, 1, 0, 2, 3, 0), (4, 6, 1, 1, 0, 2)):
            base = self.red(v, p)
            for k in (0, 1, 2, 3, 5, 8, 12, 13, 24, 25, 131, -1, -2, -7, -13):
                want = ((1, 0), (1, 0))
                for _ in range(abs(k)):
                    want = (self.mul(want[0], base[0], p), self.mul(want[1], base[1], p))
                if k < 0:
                    want = (want[1], want[0])
                try:
                    got = self.attrs(m.call(fi, [m.instantiate(self.cls, [p, *v], {}), k], {}), p)
                except _Raised as r:
                    return f"modulo {p}, {v}.intpow({k}) raises {r.kind}"
                if got is None or not self.same(self.red(got, p), want, p):
                    return f"modulo {p}, {v}.intpow({k}) gives {got}, which is not the {k}-th power"
        return ""


def _model_verdict(ctx: Ctx, fi: FuncInfo, what: str, run, symbolic: AnalysisError | str):
    """Result of a model fallback: '' (holds) / mismatch text; when the model cannot be evaluated either, the symbolic outcome stands."""
    try:
        return run()
    except _NoModel as e:
        if isinstance(symbolic, AnalysisError):
            raise AnalysisError(f"{symbolic}; model evaluation of {what} stopped at {e}") from None
        return symbolic
    except _Raised as r:
        return f"{what} raises {r.kind} on a model value"


def _check_eq_model(ctx: Ctx, cls, reason: str) -> None:
    """
    __eq__ in a spelling the decision table does not read (another route to the quotient, a helper with its own arithmetic):
    equality is evaluated on model values over a small prime - every pair of a set that contains equal fractions in different
    representations, fractions that differ in one coefficient only, x^2 terms - and compared with cross-multiplication in
    F_p[x]/(x^2+x+1).
    """
    eq = cls.methods["__eq__"]
    p = 11
    reps = [(3, 0, 0, 1, 0, 0), (6, 0, 0, 2, 0, 0), (3, 5, 0, 1, 0, 0), (3, 6, 0, 1, 0, 0), (4, 5, 0, 1, 0, 0), (3, 5, 0, 1, 2, 0), (6, 10, 0, 2, 4, 0),
            (4, 6, 1, 1, 0, 0), (3, 5, 0, 2, 1, 1), (0, 0, 0, 1, 0, 0), (1, 1, 1, 1, 0, 0), (5, 7, 2, 3, 1, 4)]

    def red(v):
        a, b, c, aC, bC, cC = v
        return ((a - c) % p, (b - c) % p), ((aC - cC) % p, (bC - cC) % p)

    def mul(u, v):
        return ((u[0] * v[0] - u[1] * v[1]) % p, (u[0] * v[1] + u[1] * v[0] - u[1] * v[1]) % p)
    bad = None
    try:
        m = _Model(ctx.repo, budget=2000000)
        objs = [m.instantiate(cls, [p, *v], {}) for v in reps]
        for i, x in enumerate(reps):
            for j, y in enumerate(reps):
                (n1, d1), (n2, d2) = red(x), red(y)
                if d1 == (0, 0) or d2 == (0, 0) or n2 == (0, 0):
                    continue                                      # zero denominators / x // 0: outside the field laws
                want = mul(n1, d2) == mul(n2, d1)
                try:
                    got = bool(m.call(eq, [objs[i], objs[j]], {}))
                except _Raised as r:
                    got = f"raises {r.kind}"
                if got != want and bad is None:
                    bad = (x, y, got, want)
        other = m.call(eq, [objs[0], 3], {})
        if other is not False and bad is None:
            bad = (reps[0], 3, other, False)
    except _NoModel as e:
        raise AnalysisError(f"{reason}; model evaluation stopped at {e}") from None
    ctx.oblige(bad is None)
    ctx.check(bad is None, "ring-laws", eq, eq.node, "equality = normalised quotient has numerator == denominator",
              "FP2Value equality is no longer quotient == 1: " + (f"modulo {p}, {bad[0]} == {bad[1]} gives {bad[2]} instead of {bad[3]}" if bad else ""))


def _check_init(ctx: Ctx, cls) -> None:
    """constructor reduces all six coefficients modulo mod"""
    init = cls.methods["__init__"]
    p = init.params()
    ok = len(p) == 8
    if ok:
        paths = _paths(init)
        ok = bool(paths)
        for st, _ in paths:
            for i, k in enumerate(SYMS):
                v = st.env.get(f"@self.{k}")
                ok = ok and v is not None and norm(v) == f"{p[2 + i]} % {p[1]}"
            v = st.env.get("@self.mod")
            ok = ok and v is not None and norm(v) == p[1]
    if not ok:
        # not six plain `self.x = x % mod` stores (setattr loop, helper, ...): construct model values and look at what was stored
        try:
            for args in ([7, 15, -3, 22, 8, 29, 30], [11, 5], [2 ** 61 - 1, 2 ** 70, 3, 2 ** 61 - 1, 2 ** 61, 1, 0], [5]):
                obj = _Model(ctx.repo).instantiate(cls, list(args), {})
                mod = args[0]
                full = list(args[1:]) + [DEFAULTS[k] for k in SYMS[len(args) - 1:]]
                want = {"mod": mod, **{k: v % mod for k, v in zip(SYMS, full)}}
                got = {k: _view(ctx.repo, obj, k, None) for k in want}
                ok = got == want
                if not ok:
                    break
            else:
                ok = True
        except _Raised:
            ok = False
        except _NoModel as e:
            raise AnalysisError(f"undecided: {init.qualname}: not six `self.x = x % mod` stores, and model construction stopped at {e}") from None
    ctx.oblige(ok)
    ctx.check(ok, "ring-laws", init, init.node, "constructor stores every coefficient reduced modulo mod", "constructor no longer reduces/stores the six coefficients")


def _modinv_invariant(ctx: Ctx, mi: FuncInfo) -> bool:  # noqa: C901, PLR0911, PLR0912
    """
    Invariant I: x1*e - a and x2*e - b are multiples of m.  Checked symbolically: with a = x1*e - k1*m and
    b = x2*e - k2*m, one loop iteration (q, r = divmod(a, b) => r = a - q*b) yields new values for which
    new_x1*e - new_a and new_x2*e - new_b are polynomials every term of which contains m; (a, b) becomes (b, a mod b),
    so the loop is Euclid's and ends with a = gcd.  The roles of the four locals are taken from the code (the returned
    one, the one the loop tests, the dividend, the remaining one), not from their names.
    """
    e_, m_ = mi.params()
    seen = {}

    def hook(ex, loop, st):
        seen["loop"] = loop
        seen["pre"] = st.fork()
        return None                                                    # default summary: written names become opaque
    paths = _paths(mi, hook)
    loop = seen.get("loop")
    if loop is None or not isinstance(loop, ast.While) or loop.orelse or len(paths) != 1:
        return False
    pre = seen["pre"].env
    ret = paths[0][1]
    if not (isinstance(ret, ast.BinOp) and isinstance(ret.op, ast.Mod) and isinstance(ret.left, ast.Name) and norm(ret.right) == m_):
        return False
    x1 = ret.left.id
    sign, tgt = _sign_of([(loop.test, True)], lambda x: isinstance(x, ast.Name))
    if sign is not True:
        return False
    b = tgt.id
    init = {k: norm(v) for k, v in pre.items()}
    if init.get(x1) != "1" or init.get(b) != m_:
        return False
    a = [k for k, v in init.items() if v == e_ and k not in (x1, b)]
    x2 = [k for k, v in init.items() if v == "0" and k not in (x1, b)]
    if len(a) != 1 or len(x2) != 1:
        return False
    a, x2 = a[0], x2[0]
    X1, X2, E, M, K1, K2, Q = (Poly.var(n) for n in ("x1", "x2", "e", "m", "k1", "k2", "q"))
    env = {x1: X1, x2: X2, a: X1 * E - K1 * M, b: X2 * E - K2 * M}
    a0, b0 = env[a], env[b]

    def ev(x):
        # a // b -> q ; a % b -> a - q*b   (only while a and b still hold this iteration's values)
        def fix(n):
            if isinstance(n, ast.BinOp) and isinstance(n.op, (ast.FloorDiv, ast.Mod)) and norm(n.left) == a and norm(n.right) == b:
                if env[a] is not a0 or env[b] is not b0:
                    raise AnalysisError(f"undecided: {mi.qualname}: quotient taken after a/b were updated")
                return ast.Name(id="__q__", ctx=ast.Load()) if isinstance(n.op, ast.FloorDiv) else ast.Name(id="__r__", ctx=ast.Load())
            if isinstance(n, list):
                return [fix(y) for y in n]
            if not isinstance(n, ast.AST):
                return n
            new = n.__class__()
            for f in n._fields:
                if hasattr(n, f):
                    setattr(new, f, fix(getattr(n, f)))
            return new
        return eval_expr(fix(x), {**env, "__q__": Q, "__r__": a0 - Q * b0}, lambda y: None)
    for st in loop.body:
        if isinstance(st, ast.Assign) and len(st.targets) == 1:
            t, v = st.targets[0], st.value
            if isinstance(t, ast.Tuple) and isinstance(v, ast.Call) and chain(v.func) == "divmod":
                if [norm(x) for x in v.args] != [a, b] or len(t.elts) != 2 or env[a] is not a0 or env[b] is not b0:
                    return False
                qn, rn = (norm(x) for x in t.elts)
                env[qn] = Q
                env[rn] = a0 - Q * b0
            elif isinstance(t, ast.Name):
                env[t.id] = ev(v)
            elif isinstance(t, ast.Tuple) and isinstance(v, ast.Tuple) and len(t.elts) == len(v.elts) and all(isinstance(x, ast.Name) for x in t.elts):
                vals = [ev(x) for x in v.elts]
                for x, val in zip(t.elts, vals):
                    env[x.id] = val
            else:
                raise AnalysisError(f"undecided: {mi.qualname}: loop statement `{norm(st)[:60]}`")
        elif isinstance(st, ast.AugAssign) and isinstance(st.target, ast.Name) and isinstance(st.op, (ast.Add, ast.Sub, ast.Mult)):
            env[st.target.id] = ev(ast.BinOp(left=ast.Name(id=st.target.id, ctx=ast.Load()), op=st.op, right=st.value))
        elif isinstance(st, ast.Expr) and isinstance(st.value, ast.Constant):
            continue
        else:
            raise AnalysisError(f"undecided: {mi.qualname}: loop statement `{norm(st)[:60]}`")
    for xv, av in ((x1, a), (x2, b)):
        diff = env[xv] * E - env[av]
        if any("m" not in mon for mon in diff.t):
            return False
    # progress: (a, b) <- (b, a mod b)
    return (env[a] - b0).is_zero() and (env[b] - (a0 - Q * b0)).is_zero()


# ------------------------------------------------------------------------------------------------------------------
# intpow: square-and-multiply
# ------------------------------------------------------------------------------------------------------------------
_ACC = "__intpow_acc__"


def _parity(test: ast.AST, n: str):
    """True if `test` says "n is odd", False if it says "n is even", None if it is not a parity test of n."""
    facts = _atoms_with_polarity(test, True)
    if len(facts) != 1:
        return None
    f = facts[0]

    def is_bit(e):
        return isinstance(e, ast.BinOp) and isinstance(e.left, ast.Name) and e.left.id == n and \
            ((isinstance(e.op, ast.Mod) and const_value(e.right) == 2) or (isinstance(e.op, ast.BitAnd) and const_value(e.right) == 1))
    if f.op == "truthy" and is_bit(f.left):
        return f.pos
    if f.op == "eq":
        for x, y in ((f.left, f.right), (f.right, f.left)):
            if is_bit(x) and const_value(y) in (0, 1):
                return f.pos == (const_value(y) == 1)
    return None


def _halves(s: ast.stmt, n: str) -> bool:
    """n = n // 2, n //= 2, n >>= 1, n = n >> 1"""
    def half(op, right):
        return (isinstance(op, ast.FloorDiv) and const_value(right) == 2) or (isinstance(op, ast.RShift) and const_value(right) == 1)
    if isinstance(s, ast.AugAssign) and isinstance(s.target, ast.Name) and s.target.id == n:
        return half(s.op, s.value)
    if isinstance(s, ast.Assign) and len(s.targets) == 1 and isinstance(s.targets[0], ast.Name) and s.targets[0].id == n:
        v = s.value
        return isinstance(v, ast.BinOp) and isinstance(v.left, ast.Name) and v.left.id == n and half(v.op, v.right)
    return False


def _intpow_body(fi: FuncInfo, body, n: str, odd: bool):
    """
    One loop iteration on formal values: every local X is the monomial {X: 1}, products add exponents.  Returns
    (final monomials, n halved exactly once and only after its parity was read) for an odd / even n.
    """
    # The iteration is executed on VALUES, not on statement shapes: an integer local holds this iteration's exponent N,
    # its half H = N // 2, its parity bit P = N % 2 (wherever it was computed: `n % 2`, `n & 1`, divmod(n, 2)[1], a flag
    # local), a constant, or something else (Q); a group local holds a monomial.  A parity test is decided from the value
    # it reads; reading the parity / half of the already halved exponent gives Q-values, never P / H.
    env: dict[str, dict[str, int]] = {}
    ints: dict[str, tuple] = {n: ("N",)}
    state = {"bad": False}

    def int_eval(e):  # noqa: PLR0911
        """Abstract integer value of e, or None if e is not (recognisably) an integer expression over the exponent."""
        if isinstance(e, ast.Constant) and isinstance(e.value, int) and not isinstance(e.value, bool):
            return ("c", e.value)
        if isinstance(e, ast.Name):
            return ints.get(e.id)
        if isinstance(e, ast.Call) and chain(e.func) == "int" and len(e.args) == 1 and not e.keywords:
            return int_eval(e.args[0])
        if isinstance(e, ast.Call) and chain(e.func) == "divmod" and len(e.args) == 2 and not e.keywords:
            x = int_eval(e.args[0])
            if x is None or const_value(e.args[1]) != 2:
                return None
            return ("pair", ("H",), ("P",)) if x == ("N",) else ("pair", ("Q",), ("Qp",))
        if isinstance(e, ast.Subscript) and isinstance(const_value(e.slice), int):
            x = int_eval(e.value)
            if x is not None and x[0] == "pair" and const_value(e.slice) in (0, 1):
                return x[1 + const_value(e.slice)]
            return None
        if isinstance(e, ast.BinOp):
            x = int_eval(e.left)
            if x is None:
                return None
            r = const_value(e.right)
            if (isinstance(e.op, ast.Mod) and r == 2) or (isinstance(e.op, ast.BitAnd) and r == 1):
                return ("P",) if x == ("N",) else ("P",) if x == ("P",) else ("Qp",)
            if (isinstance(e.op, ast.FloorDiv) and r == 2) or (isinstance(e.op, ast.RShift) and r == 1):
                return ("H",) if x in (("N",), ("N-P",)) else ("Q",)
            if isinstance(e.op, ast.Sub) and x == ("N",) and int_eval(e.right) == ("P",):
                return ("N-P",)
            return ("Q",)
        return None

    def parity(test):
        """True / False: the test holds / does not hold in this iteration (decided from the parity bit); None: not a parity test."""
        facts = _atoms_with_polarity(test, True)
        if len(facts) != 1:
            return None
        f = facts[0]
        if f.op == "truthy":
            v = int_eval(f.left)
            if v == ("Qp",):
                state["bad"] = True                        # parity of the already halved exponent
                v = ("P",)
            return (f.pos == odd) if v == ("P",) else None
        if f.op == "eq" and f.right is not None:
            for x, y in ((f.left, f.right), (f.right, f.left)):
                v = int_eval(x)
                if v == ("Qp",):
                    state["bad"] = True
                    v = ("P",)
                if v == ("P",) and const_value(y) in (0, 1):
                    return (f.pos == (const_value(y) == 1)) == odd
        return None

    def mono(e):
        if isinstance(e, ast.Name) and e.id not in ints:
            return dict(env.get(e.id, {e.id: 1}))
        if isinstance(e, ast.BinOp) and isinstance(e.op, ast.Mult):
            le, ri = mono(e.left), mono(e.right)
            for k, v in ri.items():
                le[k] = le.get(k, 0) + v
            return le
        if isinstance(e, ast.Call) and isinstance(e.func, ast.Attribute) and e.func.attr == "__mul__" and len(e.args) == 1 and not e.keywords:
            return mono(ast.BinOp(left=e.func.value, op=ast.Mult(), right=e.args[0]))
        if isinstance(e, ast.IfExp):
            p = parity(e.test)
            if p is not None:
                return mono(e.body if p else e.orelse)
        raise AnalysisError(f"undecided: {fi.qualname}: loop expression `{norm(e)[:60]}`")

    def bind(name: str, value) -> None:
        """value: an abstract integer (tuple) or a monomial (dict)"""
        if isinstance(value, tuple):
            ints[name] = value
            env.pop(name, None)
        else:
            if name == n:
                raise AnalysisError(f"undecided: {fi.qualname}: the exponent `{n}` is assigned a group value in the loop")
            ints.pop(name, None)
            env[name] = value

    def value_of(e):
        v = int_eval(e)
        return v if v is not None else mono(e)

    def block(stmts):
        for s in stmts:
            if isinstance(s, ast.If):
                p = parity(s.test)
                if p is None:
                    raise AnalysisError(f"undecided: {fi.qualname}: loop condition `{norm(s.test)[:60]}`")
                block(s.body if p else s.orelse)
            elif isinstance(s, ast.AugAssign) and isinstance(s.target, ast.Name):
                bind(s.target.id, value_of(ast.BinOp(left=ast.Name(id=s.target.id, ctx=ast.Load()), op=s.op, right=s.value)))
            elif isinstance(s, (ast.Assign, ast.AnnAssign)) and s.value is not None:
                targets = s.targets if isinstance(s, ast.Assign) else [s.target]
                for t in targets:
                    if isinstance(t, ast.Name):
                        bind(t.id, value_of(s.value))
                    elif isinstance(t, (ast.Tuple, ast.List)) and all(isinstance(x, ast.Name) for x in t.elts):
                        if isinstance(s.value, (ast.Tuple, ast.List)) and len(s.value.elts) == len(t.elts):
                            vals = [value_of(x) for x in s.value.elts]          # parallel assignment: all read before any write
                        else:
                            v = int_eval(s.value)
                            if v is None or v[0] != "pair" or len(t.elts) != 2:
                                raise AnalysisError(f"undecided: {fi.qualname}: loop statement `{norm(s)[:60]}`")
                            vals = [v[1], v[2]]
                        for x, val in zip(t.elts, vals):
                            bind(x.id, val)
                    else:
                        raise AnalysisError(f"undecided: {fi.qualname}: loop statement `{norm(s)[:60]}`")
            elif isinstance(s, ast.Pass) or (isinstance(s, ast.Expr) and isinstance(s.value, ast.Constant)):
                continue
            else:
                raise AnalysisError(f"undecided: {fi.qualname}: loop statement `{norm(s)[:60]}`")
    block(body)
    return env, ints.get(n) == ("H",) and not state["bad"]


def rule_intpow(ctx: Ctx) -> None:  # noqa: C901, PLR0912, PLR0915
    """
    intpow(power) is repeated multiplication: the loop keeps  acc * sq^n == self^|power|  (n odd: acc*sq, always sq*sq,
    n // 2), starts from acc = 1, sq = self, n = |power|, runs until n == 0 and the result is acc, inverted for power < 0.
    """
    _use(ctx)
    fi = ctx.repo.cls("FP2Value", VP).methods["intpow"]
    power = fi.params()[1]
    seen: dict = {}
    verdict = {"loop": False, "R0": False, "U0": False, "n0": False, "result": False}

    def is_abs(e, conds) -> bool:
        if isinstance(e, ast.Call) and chain(e.func) == "abs" and len(e.args) == 1 and norm(e.args[0]) == power:
            return True
        neg = _decide(ast.Compare(left=ast.Name(id=power, ctx=ast.Load()), ops=[ast.Lt()], comparators=[ast.Constant(value=0)]), _known(conds))
        if neg is True:
            return isinstance(e, ast.UnaryOp) and isinstance(e.op, ast.USub) and norm(e.operand) == power
        if neg is False:
            return norm(e) == power
        return False

    def hook(ex, loop, st):
        if "loop" in seen and seen["loop"] is not loop:
            seen["many"] = True
        seen["loop"] = loop
        if not isinstance(loop, ast.While) or loop.orelse:
            return None
        sign, tgt = _sign_of([(loop.test, True)], lambda x: isinstance(x, ast.Name))
        if sign is not True or len(_atoms_with_polarity(loop.test, True)) != 1:
            return None
        n = tgt.id
        odd, okodd = _intpow_body(fi, loop.body, n, True)
        even, okeven = _intpow_body(fi, loop.body, n, False)
        sq = [x for x in odd if odd[x] == {x: 2} and even.get(x) == {x: 2}]
        accs = [x for x in odd if len(sq) == 1 and x != sq[0] and odd[x] == {x: 1, sq[0]: 1} and even.get(x, {x: 1}) == {x: 1}]
        good = okodd and okeven and len(sq) == 1 and len(accs) >= 1      # other names are temporaries: only acc is marked below
        seen.setdefault("loops_ok", []).append(good)
        if good:
            acc, u = accs[0], sq[0]
            r0, u0, n0 = st.env.get(acc), st.env.get(u), st.env.get(n)
            one = False
            if r0 is not None and isinstance(r0, ast.Call) and chain(r0.func) == "FP2Value":
                try:
                    co = _fp2_coeffs(fi, r0, sym)
                    one = all((co[k] - Poly.const(DEFAULTS[k] if k != "a" else 1)).is_zero() for k in SYMS)
                except AnalysisError:
                    one = False
            seen.setdefault("R0", []).append(one)
            seen.setdefault("U0", []).append(u0 is not None and norm(u0) == "self")
            seen.setdefault("n0", []).append(n0 is not None and is_abs(n0, st.conds))
        post = st.fork()
        for x in _written_names([loop]):
            post.havoc(x)
        if good:
            for x in accs:
                post.env[x] = ast.Name(id=_ACC, ctx=ast.Load())
        return [post]
    try:
        paths = _paths(fi, hook)
    except AnalysisError as e:
        paths, seen["unread"] = [], e
    verdict["loop"] = bool(seen.get("loops_ok")) and all(seen["loops_ok"]) and not seen.get("many")
    for k in ("R0", "U0", "n0"):
        verdict[k] = bool(seen.get(k)) and all(seen[k])
    res = bool(paths)
    for st, ret in paths:
        neg = _decide(ast.Compare(left=ast.Name(id=power, ctx=ast.Load()), ops=[ast.Lt()], comparators=[ast.Constant(value=0)]), _known(st.conds))
        if neg is False:
            res = res and isinstance(ret, ast.Name) and ret.id == _ACC
        elif neg is True:
            res = res and norm(ret) == f"{_ACC}.inverse().normalize()"
        else:
            res = False
    verdict["result"] = res
    good = all(verdict.values())
    why = f"intpow is not square-and-multiply (loop={verdict['loop']} R0={verdict['R0']} U0={verdict['U0']} n0={verdict['n0']} result={verdict['result']})"
    if not good and ("unread" in seen or not seen.get("loops_ok")):
        # no `while n > 0` square-and-multiply loop was read (another loop form, a helper, recursion): powers of model operands, including
        # exponents beyond the group order and negative ones, compared with repeated multiplication in F_p[x]/(x^2+x+1)
        cls = ctx.repo.cls("FP2Value", VP)
        sym_out = seen.get("unread") or AnalysisError(f"undecided: {fi.qualname}: no square-and-multiply loop recognised")
        bad = _model_verdict(ctx, fi, "intpow", _FieldModel(ctx, cls).intpow, sym_out)
        good, why = not bad, f"intpow is not repeated multiplication: {bad}"
    ctx.oblige(good)
    ctx.check(good, "ring-laws", fi, fi.node, "intpow is square-and-multiply from 1 with inverse for negative powers", why)


# ------------------------------------------------------------------------------------------------------------------
# codec
# ------------------------------------------------------------------------------------------------------------------
def _bytes_parts(ctx: Ctx, fi: FuncInfo, e: ast.AST, depth: int = 4) -> list[ast.AST]:
    """A bytes expression as the sequence of parts it concatenates (`+`, b''.join of a literal / comprehension over a literal, super().serialize())."""
    if isinstance(e, ast.Constant) and e.value == b"":
        return []
    if isinstance(e, ast.BinOp) and isinstance(e.op, ast.Add):
        return _bytes_parts(ctx, fi, e.left, depth) + _bytes_parts(ctx, fi, e.right, depth)
    if isinstance(e, ast.Call) and isinstance(e.func, ast.Attribute):
        f = e.func
        if f.attr == "join" and isinstance(f.value, ast.Constant) and f.value.value == b"" and len(e.args) == 1:
            elts = _literal_elements(e.args[0])
            if elts is not None:
                return [p for x in elts for p in _bytes_parts(ctx, fi, x, depth)]
        if f.attr == "serialize" and isinstance(f.value, ast.Call) and chain(f.value.func) == "super" and fi.cls is not None and depth:
            for k in fi.cls.mro()[1:]:
                if "serialize" in k.methods:
                    return _serialize_parts(ctx, k.methods["serialize"], depth - 1)
    return [e]


def _serialize_parts(ctx: Ctx, fi: FuncInfo, depth: int = 4) -> list[ast.AST]:
    paths = _paths(fi)
    if len(paths) != 1:
        raise AnalysisError(f"undecided: {fi.qualname}: {len(paths)} return paths in a serializer")
    return _bytes_parts(ctx, fi, paths[0][1], depth)


def _is_ipack(e: ast.AST) -> bool:
    return isinstance(e, ast.Call) and chain(e.func) == "ipack" and len(e.args) == 1


def _ipack_count(ctx: Ctx, fi: FuncInfo, depth: int = 3) -> int:
    """Number of integers a serializer emits: the ipack parts of the returned concatenation (the parent's through super().serialize())."""
    parts = _serialize_parts(ctx, fi, depth)
    other = [p for p in parts if not _is_ipack(p)]
    if other:
        raise AnalysisError(f"undecided: {fi.qualname}: emits `{norm(other[0])[:60]}` besides ipack()ed integers")
    return len(parts)


def _len_bound(fi: FuncInfo, test: ast.AST):
    """(X, K) when a loop test contains the conjunct len(X) < K (any spelling)."""
    for f in _atoms_with_polarity(test, True):
        if f.op != "lt" or f.right is None:
            continue
        le, ri = f.left, f.right
        if f.pos and isinstance(le, ast.Call) and chain(le.func) == "len" and len(le.args) == 1 and isinstance(le.args[0], ast.Name):
            return le.args[0].id, ri, 0                                   # len(X) < K
        if not f.pos and isinstance(ri, ast.Call) and chain(ri.func) == "len" and len(ri.args) == 1 and isinstance(ri.args[0], ast.Name):
            return ri.args[0].id, le, 1                                   # not K < len(X)  ==  len(X) < K + 1
    return None


def _star_args(call: ast.Call) -> list[ast.AST] | None:
    out = []
    for a in call.args:
        if isinstance(a, ast.Starred):
            elts = _literal_elements(_simp(a.value))
            if elts is None:
                return None
            out.extend(elts)
        else:
            out.append(a)
    return out


def _class_const(repo, cls, attr: str):
    """
    The value of a class-level constant however it is written down: a literal / simple arithmetic over other constants (engine folding),
    else the expression evaluated by the finite-model interpreter in the class' own context - `len(("p", "g.a", ...))`,
    `Parent.FIELDS + len(EXTRA)`, `struct.calcsize(fmt)`, `Struct(fmt).size`, `sha256().digest_size` ARE the number they evaluate to (the
    expression has no run-time inputs: it is evaluated once at class creation).  NOCONST when neither reading gives an int / str / bytes.
    """
    e = cls.lookup_attr(attr)
    if e is None:
        return NOCONST
    v = repo.resolve_const(cls.module, e, cls)
    if v is not NOCONST:
        return v
    if any(isinstance(x, (ast.Lambda, ast.Await, ast.Yield, ast.YieldFrom, ast.NamedExpr)) for x in ast.walk(e)):
        return NOCONST
    try:
        v = _Model(repo, budget=4000).attr_of(("@class", cls), attr, None)
    except (_NoModel, _Raised, _Return, _Break, _Continue, RecursionError):
        return NOCONST
    except Exception:  # noqa: BLE001
        return NOCONST
    return v if isinstance(v, (int, str, bytes)) and not isinstance(v, bool) else NOCONST


_NOVIEW = object()


_ABSENT = object()           # a default for _view that means "this object has no such field" (distinct from _NOVIEW = raise)


def _view(repo, obj, name: str, default=_NOVIEW):
    """
    obj.name for a model object: the stored attribute, or - when the class exposes it as a read-only @property (a view over a small state
    holder) - what the getter returns when it is interpreted on the object.  KeyError (or `default`) when the object has no such field.
    """
    if isinstance(obj, _Obj):
        if name in obj.attrs:
            return obj.attrs[name]
        t = obj.cls.lookup(name) if obj.cls is not None else None
        if t is not None and "property" in t.decorator_names():
            try:
                return _Model(repo, budget=5000).call(t, [obj], {})
            except (_NoModel, _Raised, _Return, _Break, _Continue):
                pass
    if default is _NOVIEW:
        raise KeyError(name)
    return default


def _ref_unpack_all(data: bytes, limit: int = 64):
    """The integers of a byte string in the documented layout [1 byte: len(L)][L: big-endian len(P)][P: big-endian number]; None if malformed."""
    out = []
    while data and len(out) < limit:
        ll = data[0]
        if len(data) < 1 + ll:
            return None
        ln = int.from_bytes(data[1:1 + ll], "big")
        if len(data) < 1 + ll + ln:
            return None
        out.append(int.from_bytes(data[1 + ll:1 + ll + ln], "big"))
        data = data[1 + ll + ln:]
    return out


class _CodecModel:
    """
    Finite-model round trips of the key / bit-pair / integer codecs (syntax trees interpreted on model values, see _Model).
    Used where the symbolic reading of a codec function does not recognise its shape: a round trip that fails on a model
    value refutes "keys and attestations survive serialisation"; one that holds on values of every size class (one-byte,
    multi-byte, 300-byte numbers, zero) decides the arity / order / pairing questions the symbolic rules ask.
    """

    P = 2 ** 127 - 1

    def __init__(self, ctx: Ctx) -> None:
        self.repo = ctx.repo
        self.fp = self.repo.cls("FP2Value", VP)
        self.memo: dict = {}

    def _m(self) -> "_Model":
        return _Model(self.repo, budget=400000)

    def _run(self, key, fn):
        if key not in self.memo:
            try:
                self.memo[key] = fn()
            except _NoModel as e:
                self.memo[key] = AnalysisError(f"undecided: model evaluation of the {key[0]} codec stopped at {e}")
        r = self.memo[key]
        if isinstance(r, AnalysisError):
            raise r
        return r

    def _key(self, m: "_Model", cls):
        vals = [self.P, 5, 2 ** 100 + 7, 2 ** 64 + 11, 255, 2 ** 300 + 1, 256]
        n = _class_const(self.repo, cls, "FIELDS")
        g = m.instantiate(self.fp, [vals[0], vals[1], vals[2]], {})
        h = m.instantiate(self.fp, [vals[0], vals[3], vals[4]], {})
        init = cls.lookup("__init__")
        extra = max(0, len(init.params()) - 4) if init is not None else 0
        obj = m.instantiate(cls, [vals[0], g, h, *vals[5:5 + extra]], {})
        return obj, vals[:5 + extra], n

    def _key_fields(self, obj) -> list | None:
        try:
            v = lambda o, k: _view(self.repo, o, k)  # noqa: E731
            out = [v(obj, "p"), v(v(obj, "g"), "a"), v(v(obj, "g"), "b"), v(v(obj, "h"), "a"), v(v(obj, "h"), "b")]
            out += [v(obj, k) for k in ("n", "t1") if _view(self.repo, obj, k, _ABSENT) is not _ABSENT]
            return out
        except (KeyError, AttributeError):
            return None

    def key_emits(self, cls):
        """the integers serialize() writes for a model key (None: not a sequence of integers in the documented layout), and the model values"""
        def go():
            m = self._m()
            obj, vals, _ = self._key(m, cls)
            try:
                data = m.call(cls.lookup("serialize"), [obj], {})
            except _Raised as r:
                return f"raises {r.kind}", vals
            return (_ref_unpack_all(data) if isinstance(data, bytes) else None), vals
        return self._run(("key", cls.name, "emits"), go)

    def key_arity(self, cls):
        """(ok, explanation): unserialize gives None for fewer than FIELDS integers, else exactly the first FIELDS fields"""
        def go():
            m = self._m()
            obj, vals, n = self._key(m, cls)
            pack = self.repo.func(PS, "ipack")
            stream = [*vals, 3, 2 ** 70, 9][:max(len(vals), n) + 3]
            for k in range(len(stream) + 1):
                data = b"".join(m.call(pack, [v], {}) for v in stream[:k])
                try:
                    back = m.call(cls.lookup("unserialize"), [("@class", cls), data], {})
                    got = None if back is None else self._key_fields(back) if isinstance(back, _Obj) else "?"
                except _Raised as r:
                    got = f"raises {r.kind}"
                want = None if k < n else stream[:n]
                if got != want:
                    return False, f"for {k} serialized integers {cls.name}.unserialize gives {got if not isinstance(got, list) else 'a key with fields ' + str(got)[:80]}"
            return True, ""
        return self._run(("key", cls.name, "arity"), go)

    def bitpair(self, bp):
        """(written integers | None, fields read back | text, lengths agree)"""
        def go():
            m = self._m()
            p = 1000003
            vs = [m.instantiate(self.fp, [p, 3 + 2 * i, 2 ** 18 + 4 + 2 * i], {}) for i in range(3)]
            obj = m.instantiate(bp, vs, {})
            want = [3, 2 ** 18 + 4, 5, 2 ** 18 + 6, 7, 2 ** 18 + 8]
            try:
                data = m.call(bp.lookup("serialize"), [obj], {})
            except _Raised as r:
                return f"raises {r.kind}", None, want
            written = _ref_unpack_all(data) if isinstance(data, bytes) else None
            try:
                back = m.call(bp.lookup("unserialize"), [("@class", bp), data + m.call(self.repo.func(PS, "ipack"), [99], {}), p], {})
                got = [_view(self.repo, _view(self.repo, back, k), c) for k in ("a", "b", "complement") for c in ("a", "b")]
            except _Raised as r:
                got = f"raises {r.kind}"
            except (KeyError, AttributeError):
                got = "an object without a / b / complement values"
            return written, got, want
        return self._run(("bitpair", bp.name), go)

    def integers(self):
        """(ok, explanation): iunpack(ipack(n) + tail) == (n, tail) for every size class"""
        def go():
            m = self._m()
            ip, iu = self.repo.func(PS, "ipack"), self.repo.func(PS, "iunpack")
            for n in (0, 1, 127, 128, 255, 256, 65535, 65536, 2 ** 64, 2 ** 2048 + 12345, 2 ** (8 * 300) + 77):
                for tail in (b"", b"\x01\x01\x07rest"):
                    try:
                        data = m.call(ip, [n], {})
                        if _ref_unpack_all(data) != [n]:
                            return False, f"ipack({n if n < 10 ** 6 else 'a ' + str(n.bit_length()) + '-bit number'}) is not [len-of-len][len][number]"
                        got = m.call(iu, [data + tail], {})
                    except _Raised as r:
                        got = f"raises {r.kind}"
                    if got != (n, tail):
                        return False, f"iunpack(ipack(n) + tail) != (n, tail) for a {n.bit_length()}-bit n"
            return True, ""
        return self._run(("integer",), go)


def _read_bound(fi: FuncInfo):
    """[(list variable, bound expression, slack)] of the `while ... len(X) < K` read loops of a decoder"""
    out = []
    for l in walk_no_nested(fi.node):
        if isinstance(l, ast.While):
            b = _len_bound(fi, l.test)
            if b is not None:
                out.append(b)
    return out


def rule_codec(ctx: Ctx) -> None:  # noqa: C901, PLR0912, PLR0915
    _use(ctx)
    repo = ctx.repo
    model = _CodecModel(ctx)
    for name in ("BonehPublicKey", "BonehPrivateKey"):
        c = repo.cls(name, PS)
        fields = _class_const(repo, c, "FIELDS")
        try:
            n = _ipack_count(ctx, c.lookup("serialize"))
            how = ""
        except AnalysisError:
            # the serializer is not a plain concatenation of ipack() terms: count what it writes for a model key
            emitted, vals = model.key_emits(c)
            n = len(emitted) if isinstance(emitted, list) else -1
            how = " (model key)"
            if isinstance(emitted, list) and emitted != vals:
                n = -1
        ctx.check(fields == n, "codec-arity", c.where, "FIELDS", f"{name}.serialize emits {n} integers == FIELDS ({fields}){how}",
                  f"{name}.serialize emits {n if n >= 0 else 'something other than its'} integers but unserialize reads FIELDS={fields}")
    # key unserialize: the read loop stops at FIELDS integers and nothing but None is returned unless exactly FIELDS were read
    un = repo.method("BonehPublicKey", "unserialize", PS)
    bounds = [b[0] for b in _read_bound(un) if b[2] == 0 and norm(resolve(un, b[1])) == "cls.FIELDS"]
    if len(bounds) == 1:
        ok = True
        built = 0
        nums = bounds[0]
        want = ast.Compare(left=ast.Call(func=ast.Name(id="len", ctx=ast.Load()), args=[ast.Name(id=nums, ctx=ast.Load())], keywords=[]),
                           ops=[ast.Eq()], comparators=[ast.Attribute(value=ast.Name(id="cls", ctx=ast.Load()), attr="FIELDS", ctx=ast.Load())])
        for st, ret in _paths(un):
            if isinstance(ret, ast.Constant) and ret.value is None:
                continue
            built += 1
            if _decide(want, _known(st.conds)) is not True:
                ok = False
        ok = ok and built > 0
        why = "key unserialize accepts a wrong number of fields"
        if not ok:
            # the guard is not literally `len(nums) == cls.FIELDS` (e.g. `<` after a loop that cannot overshoot): the question is about
            # counts only, and byte strings with 0 .. FIELDS+3 integers answer it completely
            try:
                verdicts = [model.key_arity(repo.cls(name, PS)) for name in ("BonehPublicKey", "BonehPrivateKey")]
                ok = all(v for v, _ in verdicts)
                why = why + ": " + "; ".join(w for v, w in verdicts if not v)
            except AnalysisError:
                pass
    else:
        # no `while len(nums) < cls.FIELDS` loop (for/range, a shared reader, a generator): decide on model byte strings with 0 .. FIELDS+3 integers
        ok, why = True, ""
        for name in ("BonehPublicKey", "BonehPrivateKey"):
            k_ok, k_why = model.key_arity(repo.cls(name, PS))
            if not k_ok and ok:
                ok, why = False, "key unserialize accepts a wrong number of fields: " + k_why
    ctx.check(ok, "codec-arity", un, un.node, "key unserialize reads exactly FIELDS integers, else None", why)
    bp = repo.cls("BitPairAttestation", "ipv8/attestation/wallet/bonehexact/structs.py")
    ser = bp.methods["serialize"]
    u = bp.methods["unserialize"]
    want_order = ["self.a.a", "self.a.b", "self.b.a", "self.b.b", "self.complement.a", "self.complement.b"]
    try:
        parts = _serialize_parts(ctx, ser)
    except AnalysisError:
        parts = None
    symbolic = parts is not None and all(_is_ipack(p) for p in parts)
    lims = [(b[0], const_value(resolve(u, b[1])) + b[2]) for b in _read_bound(u) if isinstance(const_value(resolve(u, b[1])), int)]
    pname = u.params()[2] if len(u.params()) > 2 else "p"
    args = None
    numsvar = lims[0][0] if len(lims) == 1 else None
    if symbolic and numsvar is not None:
        upaths = [(st, ret) for st, ret in _paths(u) if not (isinstance(ret, ast.Constant) and ret.value is None)]
        if len(upaths) == 1 and isinstance(upaths[0][1], ast.Call) and chain(upaths[0][1].func) in ("cls", bp.name) and not upaths[0][1].keywords:
            args = _star_args(upaths[0][1])
            args = [_simp(a) for a in args] if args is not None else None

    def pair_of(a):
        """(i, j) for FP2Value(p, nums[i], nums[j])"""
        if isinstance(a, ast.Call) and chain(a.func) == "FP2Value" and len(a.args) == 3 and not a.keywords and norm(a.args[0]) == pname:
            ij = []
            for x in a.args[1:]:
                if isinstance(x, ast.Subscript) and chain(x.value) == numsvar and _int_const(x.slice) is not None:
                    ij.append(_int_const(x.slice))
            if len(ij) == 2:
                return tuple(ij)
        return None
    pairs = [pair_of(a) for a in args] if args is not None else None
    if pairs and all(p is not None for p in pairs):
        # symbolic reading: concatenation of ipack() terms, one bounded read loop, constructor arguments nums[i]
        n = len(parts)
        order = [norm(p.args[0]) for p in parts]
        ctx.check(order == want_order, "codec-arity", ser, ser.node, "BitPairAttestation field order a, b, complement", f"BitPairAttestation field order changed: {order}")
        lim = [x[1] for x in lims]
        idx = sorted({k for p in pairs for k in p} |
                     {_int_const(_simp(x.slice)) for x in ast.walk(u.node) if isinstance(x, ast.Subscript) and chain(x.value) == numsvar
                      and _int_const(_simp(x.slice)) is not None})
        ctx.check(lim == [n] and idx == list(range(n)), "codec-arity", u, u.node, f"BitPairAttestation: {n} integers written, {lim} read, indices {idx}",
                  f"BitPairAttestation serialize/unserialize arity mismatch: writes {n}, reads {lim}, uses {idx}")
        inits = [norm(a) for a in args]
        ctx.check(pairs == [(2 * i, 2 * i + 1) for i in range(3)], "codec-arity", u, u.node,
                  "unserialize rebuilds (a, b, complement) from consecutive pairs", f"unserialize pairs fields differently: {inits}")
    else:
        # another spelling (shared reader, generator, zip of slices, ...): the same three questions on a model attestation
        written, got, want = model.bitpair(bp)
        ctx.check(written == want, "codec-arity", ser, ser.node, "BitPairAttestation field order a, b, complement",
                  f"BitPairAttestation field order changed: a model attestation with (a.a, a.b, b.a, b.b, complement.a, complement.b) = {want} is written as {written}")
        nread = len(got) if isinstance(got, list) else got
        ctx.check(isinstance(written, list) and isinstance(got, list) and len(written) == 6, "codec-arity", u, u.node,
                  f"BitPairAttestation: {len(written) if isinstance(written, list) else written} integers written, {nread} read back (model attestation)",
                  f"BitPairAttestation serialize/unserialize arity mismatch: writes {written}, reading it back gives {got}")
        ctx.check(got == want, "codec-arity", u, u.node, "unserialize rebuilds (a, b, complement) from consecutive pairs",
                  f"unserialize pairs fields differently: the model attestation {want} comes back as {got}")
    _check_int_layout(ctx, repo, model)


def _check_int_layout(ctx: Ctx, repo, model=None) -> None:
    """
    ipack writes [1 byte: len(L)] [L = big-endian length of P] [P = big-endian number]; iunpack reads llen = byte 0,
    l = number in s[1 : 1+llen], the value from s[1+llen : 1+llen+l] and returns the rest s[1+llen+l :].  The slice
    bounds are compared as polynomials in llen and l, so hoisted offsets and reordered sums are the same layout.
    """
    ip, iu = repo.func(PS, "ipack"), repo.func(PS, "iunpack")
    ok = False
    rec1 = rec2 = False                      # the two functions have the shape the symbolic reading understands
    pp = _paths(ip)
    if len(pp) == 1:
        parts = _bytes_parts(ctx, ip, pp[0][1])
        num = ip.params()[0]
        if len(parts) == 3:
            rec1 = True
            head, ll, pn = parts
            ok = norm(pn) == f"_num_to_str({num})" and norm(ll) == f"_num_to_str(len({norm(pn)}))" and \
                norm(head) in (f"struct.pack('>B', len({norm(ll)}))", f"bytes([len({norm(ll)})])")
    up = _paths(iu)
    ok2 = False
    if len(up) == 1 and isinstance(up[0][1], ast.Tuple) and len(up[0][1].elts) == 2:
        s = iu.params()[0]
        val, rest = up[0][1].elts

        def bounds(e):
            if isinstance(e, ast.Subscript) and norm(e.value) == s and isinstance(e.slice, ast.Slice) and e.slice.step is None:
                return e.slice.lower, e.slice.upper
            return None

        def is_llen(e):
            return norm(e) in (f"struct.unpack('>B', {s}[0:1])[0]", f"struct.unpack('>B', {s}[:1])[0]", f"{s}[0]")

        def poly(e):
            if e is None:
                return None

            def symbol(x):
                if is_llen(x):
                    return "llen"
                if isinstance(x, ast.Call) and chain(x.func) == "_str_to_num" and len(x.args) == 1:
                    b = bounds(x.args[0])
                    if b is not None and b[0] is not None and b[1] is not None:
                        lo, hi = poly(b[0]), poly(b[1])
                        if lo is not None and hi is not None and (lo - Poly.const(1)).is_zero() and (hi - Poly.const(1) - Poly.var("llen")).is_zero():
                            return "l"
                    return "some_other_number"
                return None
            try:
                return eval_expr(e, {}, symbol)
            except AnalysisError:
                return None
        vb = bounds(val.args[0]) if isinstance(val, ast.Call) and chain(val.func) == "_str_to_num" and len(val.args) == 1 else None
        rb = bounds(rest)
        if vb is not None and rb is not None and rb[1] is None:
            lo, hi, ro = poly(vb[0]), poly(vb[1]), poly(rb[0])
            start = Poly.const(1) + Poly.var("llen")
            end = start + Poly.var("l")
            rec2 = lo is not None and hi is not None and ro is not None
            ok2 = rec2 and (lo - start).is_zero() and (hi - end).is_zero() and (ro - end).is_zero()
    why = "ipack and iunpack disagree on the integer layout"
    verdict = ok and ok2
    if model is not None and (not (rec1 and rec2) or verdict):
        # shape not recognised: decided by round trips of model integers of every size class; shape recognised and consistent: the round
        # trip (which also runs the digit conversions the symbolic reading takes as primitives) must hold as well, when it can be evaluated
        try:
            verdict, m_why = model.integers()
            why = why + ": " + m_why
        except AnalysisError:
            if not (rec1 and rec2):
                raise
    ctx.check(verdict, "codec-arity", ip, ip.node, "ipack/iunpack agree on [1-byte len-of-len][len][number]", why)


# ------------------------------------------------------------------------------------------------------------------
# Finite-model evaluation of small pure functions.
#
# Some clauses are statements about what a small fold computes ("certainty 1 only if there is a verified response and no
# failed one").  Such a function is decided by evaluating its syntax tree on a finite set of model inputs built from
# builtin values (dicts of booleans, bytes, integers), following calls into helpers of the repository by interpreting
# their syntax trees too.  Nothing of /repo is imported or run: the interpreter below walks the trees; the only code that
# really executes is the Python builtins / struct / operator / functools on model values.  Whatever the interpreter does
# not understand is reported as undecided, never as a verdict.
# ------------------------------------------------------------------------------------------------------------------
class _NoModel(Exception):
    """syntax / callee outside the finite-model interpreter"""


class _Raised(Exception):
    """the interpreted code raises (exception class name kept)"""

    def __init__(self, kind: str, exc: BaseException | None = None) -> None:
        super().__init__(kind)
        self.kind = kind
        self.exc = exc


class _Return(Exception):
    def __init__(self, value) -> None:
        super().__init__()
        self.value = value


class _Break(Exception):
    pass


class _Continue(Exception):
    pass


class _Obj:
    """An opaque model object (self, an attestation): attributes only if given."""

    def __init__(self, label: str, cls=None, **attrs) -> None:
        self.label = label
        self.cls = cls                                     # ClassInfo of the modelled instance, if any
        self.attrs = dict(attrs)

    def __repr__(self) -> str:
        return f"<{self.label}>"


import binascii as _binascii  # noqa: E402
import builtins as _builtins  # noqa: E402
import collections as _collections  # noqa: E402
import functools as _functools  # noqa: E402
import hashlib as _hashlib  # noqa: E402
import itertools as _itertools  # noqa: E402
import math as _math  # noqa: E402
import operator as _operator  # noqa: E402
import struct as _struct  # noqa: E402

_MODEL_BUILTINS = {k: getattr(_builtins, k) for k in (
    "len", "all", "any", "bool", "int", "float", "sum", "min", "max", "list", "tuple", "set", "frozenset", "dict", "sorted", "next", "iter", "zip",
    "enumerate", "range", "reversed", "abs", "str", "bytes", "bytearray", "filter", "map", "divmod", "isinstance", "round", "pow", "ord", "chr", "repr",
    "hex", "bin", "oct", "format", "slice", "callable",
    "KeyError", "IndexError", "ValueError", "TypeError", "RuntimeError", "Exception", "StopIteration", "AssertionError", "NotImplementedError",
    "LookupError", "ArithmeticError", "ZeroDivisionError", "OverflowError", "AttributeError")}
# pure standard-library modules whose functions run on model values (nothing of the analysed repository is imported)
_MODEL_MODULES = {"binascii": _binascii, "struct": _struct, "operator": _operator, "functools": _functools, "itertools": _itertools, "math": _math,
                  "collections": _collections, "hashlib": _hashlib}
_MODEL_FROM = {"reduce": _functools.reduce, "and_": _operator.and_, "or_": _operator.or_, "mul": _operator.mul, "add": _operator.add,
               "itemgetter": _operator.itemgetter, "chain": _itertools.chain, "islice": _itertools.islice, "prod": _math.prod,
               "unpack": _struct.unpack, "pack": _struct.pack, "hexlify": _binascii.hexlify, "unhexlify": _binascii.unhexlify}
# library VALUES (not functions) whose public methods / attributes may be used: precompiled formats, partial applications, getters
_MODEL_LIB_TYPES = (_struct.Struct, _functools.partial, _operator.itemgetter, _collections.Counter, _collections.OrderedDict, _collections.defaultdict,
                    _collections.deque, bytearray)
_IMPURE_LIB = {"lru_cache", "cache", "cached_property", "wraps", "singledispatch", "total_ordering", "update_wrapper", "tee"}
_MODEL_VALUE_TYPES = (dict, list, tuple, set, frozenset, str, bytes, int, float, bool, range, type(None), type({}.items()), type({}.keys()),
                      type({}.values()), type(_hashlib.sha256()), type(_hashlib.sha1()), *_MODEL_LIB_TYPES)
_BINOPS = {ast.Add: _operator.add, ast.Sub: _operator.sub, ast.Mult: _operator.mul, ast.Div: _operator.truediv, ast.FloorDiv: _operator.floordiv,
           ast.Mod: _operator.mod, ast.Pow: _operator.pow, ast.BitAnd: _operator.and_, ast.BitOr: _operator.or_, ast.BitXor: _operator.xor,
           ast.LShift: _operator.lshift, ast.RShift: _operator.rshift}
_DUNDER = {ast.Add: "__add__", ast.Sub: "__sub__", ast.Mult: "__mul__", ast.FloorDiv: "__floordiv__", ast.Div: "__truediv__", ast.Mod: "__mod__"}
_CMPOPS = {ast.Eq: _operator.eq, ast.NotEq: _operator.ne, ast.Lt: _operator.lt, ast.LtE: _operator.le, ast.Gt: _operator.gt, ast.GtE: _operator.ge,
           ast.Is: _operator.is_, ast.IsNot: _operator.is_not, ast.In: lambda a, b: a in b, ast.NotIn: lambda a, b: a not in b}


_LOST: dict = {}


def _lost_function(repo, module, name: str):
    """
    A module-level function that `module` imports from another module of the repository but that is no longer in that module's
    (normalised) tree: the load-time inliner drops a NEW helper once its calls inside its own module are inlined, also when
    other modules import it.  It is recovered from the defining module's source text.
    """
    imp = module.imports.get(name)
    if imp is None or imp[1] is None:
        return None
    target = repo.modules.get(imp[0])                      # import targets are stored as absolute module names
    if target is None or imp[1] in target.functions:
        return None
    key = (id(repo), target.relpath, imp[1])
    if key not in _LOST:
        found = None
        try:
            tree = ast.parse(target.src)
            for st in tree.body:
                if isinstance(st, (ast.FunctionDef, ast.AsyncFunctionDef)) and st.name == imp[1]:
                    set_parents(tree)
                    found = FuncInfo(name=st.name, qualname=st.name, node=st, module=target, cls=None)
        except SyntaxError:
            found = None
        _LOST[key] = found
    return _LOST[key]


def _late_raise(values: list, r: "_Raised"):
    """a generator body that raised after producing `values`: the consumer gets the values and then the exception (laziness of a pure generator)"""
    yield from values
    raise r


class _RecTuple(tuple):
    """model value of a NamedTuple class of the analysed code: a real tuple that remembers its class (methods, properties) and field names"""

    def __new__(cls, values, ci, fields):
        self = super().__new__(cls, values)
        self.ci = ci
        self.fields = tuple(fields)
        return self


def _decorated_dataclass(node: ast.ClassDef) -> bool:
    for d in node.decorator_list:
        f = d.func if isinstance(d, ast.Call) else d
        if (chain(f) or "").rsplit(".", 1)[-1] == "dataclass":
            return True
    return False


def _record_kind(ci) -> str | None:
    """'namedtuple' | 'dataclass' | 'plain' (an __init__ that only stores its parameters) | 'enum' | None"""
    bases = {b.rsplit(".", 1)[-1] for b in ci.base_names}
    if bases & {"Enum", "IntEnum", "StrEnum", "Flag", "IntFlag"}:
        return "enum"
    if "NamedTuple" in bases:
        return "namedtuple"
    if any(_record_kind(b) == "namedtuple" for b in ci.bases):
        return None                                          # subclass of a NamedTuple class: fields are inherited, not declared
    if _decorated_dataclass(ci.node) and "__init__" not in ci.methods:
        return "dataclass"
    if not ci.bases and all(b in ("object",) for b in ci.base_names) and "__init__" in ci.methods and _plain_init(ci.methods["__init__"]) is not None:
        return "plain"
    return None


def _plain_init(init: FuncInfo):
    """[(parameter, attribute, default)] when __init__ is nothing but `self.attr = parameter` stores (each parameter stored once); None otherwise"""
    a = init.node.args
    if a.vararg or a.kwarg or a.kwonlyargs or a.posonlyargs or not a.args:
        return None
    me = a.args[0].arg
    names = [x.arg for x in a.args[1:]]
    defaults = dict(zip(names[len(names) - len(a.defaults):], a.defaults))
    stored: dict[str, str] = {}
    for st in init.node.body:
        if isinstance(st, ast.Expr) and isinstance(st.value, ast.Constant):
            continue
        if isinstance(st, ast.AnnAssign) and st.value is not None:
            tg, val = st.target, st.value
        elif isinstance(st, ast.Assign) and len(st.targets) == 1:
            tg, val = st.targets[0], st.value
        else:
            return None
        val = strip_cast(val)
        if not (isinstance(tg, ast.Attribute) and isinstance(tg.value, ast.Name) and tg.value.id == me and isinstance(val, ast.Name) and val.id in names):
            return None
        if val.id in stored or tg.attr in stored.values():
            return None
        stored[val.id] = tg.attr
    if set(stored) != set(names):
        return None
    return [(n, stored[n], defaults.get(n)) for n in names]


def _record_fields(ci):
    """[(constructor parameter, attribute, default expression | None)] of a record class in positional order; None when not decidable from the class body"""
    kind = _record_kind(ci)
    if kind == "plain":
        return _plain_init(ci.methods["__init__"])
    if kind not in ("namedtuple", "dataclass"):
        return None
    if kind == "dataclass" and any(_record_kind(b) is not None or _decorated_dataclass(b.node) for b in ci.bases):
        return None                                          # inherited dataclass fields: order spans several classes
    if kind == "dataclass":
        for d in ci.node.decorator_list:
            if isinstance(d, ast.Call) and any(k.arg in ("init", "kw_only") for k in d.keywords):
                return None
    out = []
    for st in ci.node.body:
        if not (isinstance(st, ast.AnnAssign) and isinstance(st.target, ast.Name)):
            continue
        if "ClassVar" in norm(st.annotation):
            continue
        default = st.value
        if isinstance(default, ast.Call) and (chain(default.func) or "").rsplit(".", 1)[-1] == "field":
            kws = {k.arg: k.value for k in default.keywords}
            if set(kws) - {"default", "repr", "compare", "hash", "metadata"}:
                return None                                  # default_factory / init=False / kw_only: not a plain positional field
            default = kws.get("default")
        out.append((st.target.id, st.target.id, default))
    return out or None


def _bind_record(fields, nargs: int, kwnames) -> list | None:
    """per field: ('pos', i) | ('kw', name) | ('default',) for a constructor call with nargs positional arguments and the given keyword names; None if ill-formed"""
    if nargs > len(fields):
        return None
    out = []
    kwnames = list(kwnames)
    for i, (pname, _, default) in enumerate(fields):
        if i < nargs:
            if pname in kwnames:
                return None
            out.append(("pos", i))
        elif pname in kwnames:
            out.append(("kw", pname))
        elif default is not None:
            out.append(("default",))
        else:
            return None
    if set(kwnames) - {f[0] for f in fields}:
        return None
    return out


class _Model:
    def __init__(self, repo, budget: int = 50000) -> None:
        self.repo = repo
        self.budget = budget
        self.depth = 0
        self._closure_fi = None
        self.globals: dict = {}                 # module-level values are created once per model (a module-level table / memo keeps its state)
        self.enums: dict = {}
        self.same_address: dict = {}            # id(model object) -> id(an earlier, freed model object whose address it was given)
        self.stubs: dict = {}                   # (relpath, qualname) -> python callable(args, kwargs) standing for a function that is NOT interpreted

    def model_id(self, o):
        """id() in the interpreted code: the address of a model object; an object created after another one was freed may get its address"""
        if not isinstance(o, (_Obj, _RecTuple)):
            raise _NoModel("id() of a non-object value")
        return self.same_address.get(id(o), id(o))

    # ---- functions
    def call(self, fi: FuncInfo, args: list, kwargs: dict | None = None, _raw: bool = False):
        """Interpret fi on model values (args include the receiver for methods / classmethods, not for staticmethods)."""
        kwargs = dict(kwargs or {})
        if self.stubs:
            stub = self.stubs.get((fi.module.relpath, fi.qualname))
            if stub is not None:
                return stub(list(args), kwargs)
        if not _raw and fi.node.decorator_list:
            layers = getattr(fi.node, "_c18_decorators", None)
            if layers is None:
                layers = [(d, _resolve_decorator_in(self.repo, fi, d)) for d in fi.node.decorator_list]
                fi.node._c18_decorators = layers
            if any(g is not None for _, g in layers):
                # NEW decorators of the repository are applied (innermost first) to the undecorated function; what they return is what is called
                fv = ("@raw", fi)
                for d, got in reversed(layers):
                    if got is None:
                        continue                              # reviewed / library decorators: as in the reviewed tree (transparent for the values)
                    dv = ("@func", got[0])
                    if got[1] is not None:
                        fa, fk = self._args(got[1], {}, fi)
                        dv = self._invoke(dv, fa, fk, fi)
                    fv = self._invoke(dv, [fv], {}, fi)
                return self._invoke(fv, list(args), kwargs, fi)
        a = fi.node.args
        if a.vararg or a.kwarg:
            raise _NoModel(f"{fi.qualname}: *args / **kwargs")
        names = [x.arg for x in a.posonlyargs + a.args]
        if len(args) > len(names):
            raise _NoModel(f"{fi.qualname}: too many arguments")
        env = dict(zip(names, args))
        defaults = dict(zip(names[len(names) - len(a.defaults):], a.defaults))
        for k, d in zip(a.kwonlyargs, a.kw_defaults):
            names.append(k.arg)
            if d is not None:
                defaults[k.arg] = d
        for nme in names:
            if nme in env:
                continue
            if nme in kwargs:
                env[nme] = kwargs.pop(nme)
            elif nme in defaults:
                env[nme] = self.ev(defaults[nme], {}, fi)
            else:
                raise _NoModel(f"{fi.qualname}: parameter {nme} not bound")
        if kwargs:
            raise _NoModel(f"{fi.qualname}: unknown keyword")
        self.depth += 1
        if self.depth > 12:
            raise _NoModel("call depth")
        try:
            is_gen = any(isinstance(x, (ast.Yield, ast.YieldFrom)) for x in walk_no_nested(fi.node, include_root_defs=False))
            if is_gen:
                env["@yields"] = []
            try:
                self.block(fi.node.body, env, fi)
                ret = None
            except _Return as r:
                ret = r.value
            except _Raised as r:
                if not is_gen:
                    raise
                return _late_raise(env["@yields"], r)
            return iter(env["@yields"]) if is_gen else ret
        except (_NoModel, _Raised, _Return, _Break, _Continue):
            raise
        except RecursionError:
            raise _NoModel("recursion depth") from None
        except Exception as e:  # noqa: BLE001 - a construct the interpreter mishandles is "not interpreted", never a verdict
            raise _NoModel(f"interpreter error {type(e).__name__}: {str(e)[:60]}") from None
        finally:
            self.depth -= 1

    def _tick(self) -> None:
        self.budget -= 1
        if self.budget < 0:
            raise _NoModel("step budget exhausted")

    # ---- statements
    def block(self, stmts, env, fi) -> None:
        for s in stmts:
            self.stmt(s, env, fi)

    def stmt(self, s, env, fi) -> None:  # noqa: C901, PLR0912, PLR0915
        self._tick()
        if isinstance(s, (ast.Pass, ast.Import, ast.ImportFrom)):
            return
        if isinstance(s, ast.Expr):
            if isinstance(s.value, ast.Constant):
                return
            if isinstance(s.value, ast.Yield):
                env["@yields"].append(self.ev(s.value.value, env, fi) if s.value.value is not None else None)
                return
            if isinstance(s.value, ast.YieldFrom):
                env["@yields"].extend(self.ev(s.value.value, env, fi))
                return
            self.ev(s.value, env, fi)
            return
        if isinstance(s, ast.Assign):
            v = self.ev(s.value, env, fi)
            for t in s.targets:
                self.assign(t, v, env, fi)
            return
        if isinstance(s, ast.AnnAssign):
            if s.value is not None:
                self.assign(s.target, self.ev(s.value, env, fi), env, fi)
            return
        if isinstance(s, ast.AugAssign):
            load = clone(s.target)
            for x in ast.walk(load):
                if hasattr(x, "ctx"):
                    x.ctx = ast.Load()
            cur = self.ev(load, env, fi)
            op = _BINOPS.get(type(s.op))
            if op is None:
                raise _NoModel(f"operator in `{norm(s)[:50]}`")
            rhs = self.ev(s.value, env, fi)
            if isinstance(cur, list) and isinstance(s.op, ast.Add):
                cur.extend(rhs)
                new = cur
            else:
                new = self._binop(s.op, cur, rhs)
            self.assign(s.target, new, env, fi)
            return
        if isinstance(s, ast.Return):
            raise _Return(self.ev(s.value, env, fi) if s.value is not None else None)
        if isinstance(s, ast.If):
            self.block(s.body if self.ev(s.test, env, fi) else s.orelse, env, fi)
            return
        if isinstance(s, ast.For):
            broke = False
            for item in self._iter(self.ev(s.iter, env, fi)):
                self._tick()
                self.assign(s.target, item, env, fi)
                try:
                    self.block(s.body, env, fi)
                except _Break:
                    broke = True
                    break
                except _Continue:
                    continue
            if not broke:
                self.block(s.orelse, env, fi)
            return
        if isinstance(s, ast.While):
            broke = False
            while self.ev(s.test, env, fi):
                self._tick()
                try:
                    self.block(s.body, env, fi)
                except _Break:
                    broke = True
                    break
                except _Continue:
                    continue
            if not broke:
                self.block(s.orelse, env, fi)
            return
        if isinstance(s, ast.Break):
            raise _Break
        if isinstance(s, ast.Continue):
            raise _Continue
        if isinstance(s, ast.Assert):
            if not self.ev(s.test, env, fi):
                raise _Raised("AssertionError")
            return
        if isinstance(s, ast.Raise):
            kind = "Exception"
            if s.exc is not None:
                c = s.exc.func if isinstance(s.exc, ast.Call) else s.exc
                kind = chain(c) or "Exception"
            raise _Raised(kind.rsplit(".", 1)[-1])
        if isinstance(s, ast.Try):
            try:
                try:
                    self.block(s.body, env, fi)
                except _Raised as r:
                    for h in s.handlers:
                        if self._handles(h, r.kind):
                            if h.name:
                                env[h.name] = r.exc if r.exc is not None else _Obj(r.kind)
                            self.block(h.body, env, fi)
                            break
                    else:
                        raise
                else:
                    self.block(s.orelse, env, fi)
            finally:
                self.block(s.finalbody, env, fi)
            return
        if isinstance(s, ast.Delete):
            for t in s.targets:
                if isinstance(t, ast.Name):
                    env.pop(t.id, None)
                elif isinstance(t, ast.Subscript):
                    c = self.ev(t.value, env, fi)
                    if not isinstance(c, (dict, list)):
                        raise _NoModel("del on a non-container")
                    self._apply(_operator.delitem, c, self._index(t.slice, env, fi))
                else:
                    raise _NoModel("del target")
            return
        if isinstance(s, (ast.FunctionDef, ast.AsyncFunctionDef)):
            for d in s.decorator_list:
                if not (isinstance(d, ast.Call) and (chain(d.func) or "").rsplit(".", 1)[-1] == "wraps"):
                    raise _NoModel(f"nested function {s.name} decorated with `{norm(d)[:40]}`")
            env[s.name] = ("@closure", s, env)
            self._closure_fi = fi
            return
        if isinstance(s, ast.With):
            caught: list = []
            for i in s.items:                             # `with <module-level lock>:` and `with suppress(<exception classes>):` only
                ce = i.context_expr
                if i.optional_vars is None and isinstance(ce, ast.Call) and not ce.keywords and self._lib_name(ce.func, fi) == ("contextlib", "suppress"):
                    caught.extend(ce.args)
                    continue
                if i.optional_vars is None and isinstance(ce, ast.Attribute) and _CTX is not None and _is_lock_expr(_CTX, _Frame(fi), ce) is True:
                    continue                                  # a lock kept in an attribute of a state holder: no effect on the values computed
                if i.optional_vars is None and isinstance(ce, ast.Call) and not ce.args and not ce.keywords and self._lock_only_cm(ce, fi):
                    continue                                  # a NEW @contextmanager helper that only takes and releases locks around its yield
                if i.optional_vars is not None or not (isinstance(ce, ast.Name) and ce.id not in env):
                    raise _NoModel(f"statement `{head(s)[:60]}`")
            try:
                self.block(s.body, env, fi)
            except _Raised as r:
                if not self._kind_caught(caught, r.kind):
                    raise
            return
        if isinstance(s, ast.Match):
            subject = self.ev(s.subject, env, fi)
            for case in s.cases:
                if self._match(case.pattern, subject, env, fi) and (case.guard is None or self.ev(case.guard, env, fi)):
                    self.block(case.body, env, fi)
                    return
            return
        raise _NoModel(f"statement `{head(s)[:60]}`")

    def _lock_only_cm(self, ce: ast.Call, fi) -> bool:
        """ce calls a @contextmanager generator of the repository whose body does nothing but acquire / release locks around one bare `yield`"""
        if _CTX is None or not isinstance(ce.func, ast.Name):
            return False
        try:
            t = self.repo.resolve_name(fi.module, ce.func.id)
        except Exception:  # noqa: BLE001
            return False
        if not isinstance(t, FuncInfo) or not any(d.rsplit(".", 1)[-1] == "contextmanager" for d in t.decorator_names()) or t.params():
            return False
        fr = _Frame(t)

        def inert(stmts) -> bool:
            for st in stmts:
                if isinstance(st, ast.Expr) and isinstance(st.value, ast.Constant):
                    continue
                if isinstance(st, ast.Expr) and isinstance(st.value, ast.Yield) and st.value.value is None:
                    continue
                if isinstance(st, ast.Expr) and isinstance(st.value, ast.Call) and isinstance(st.value.func, ast.Attribute) and st.value.func.attr in ("acquire", "release") \
                        and not st.value.args and not st.value.keywords and _is_lock_expr(_CTX, fr, st.value.func.value) is True:
                    continue
                if isinstance(st, ast.Try) and not st.handlers and not st.orelse and inert(st.body) and inert(st.finalbody):
                    continue
                if isinstance(st, ast.With) and all(i.optional_vars is None and _is_lock_expr(_CTX, fr, i.context_expr) is True for i in st.items) and inert(st.body):
                    continue
                return False
            return True
        return inert(t.node.body) and sum(isinstance(x, ast.Yield) for x in walk_no_nested(t.node)) == 1

    def _match(self, pat, v, env, fi) -> bool:  # noqa: C901, PLR0911
        """structural pattern matching on model values (value / singleton / capture / or / sequence / class patterns)"""
        if isinstance(pat, ast.MatchValue):
            return bool(self._compare(ast.Eq(), v, self.ev(pat.value, env, fi)))
        if isinstance(pat, ast.MatchSingleton):
            return v is pat.value
        if isinstance(pat, ast.MatchAs):
            if pat.pattern is not None and not self._match(pat.pattern, v, env, fi):
                return False
            if pat.name is not None:
                env[pat.name] = v
            return True
        if isinstance(pat, ast.MatchOr):
            return any(self._match(x, v, env, fi) for x in pat.patterns)
        if isinstance(pat, ast.MatchSequence):
            if not isinstance(v, (list, tuple)) or any(isinstance(x, ast.MatchStar) for x in pat.patterns) or len(v) != len(pat.patterns):
                if isinstance(v, (list, tuple)) and any(isinstance(x, ast.MatchStar) for x in pat.patterns):
                    raise _NoModel("starred sequence pattern")
                return False
            return all(self._match(x, y, env, fi) for x, y in zip(pat.patterns, v))
        if isinstance(pat, ast.MatchClass):
            k = self.ev(pat.cls, env, fi)
            if _is_class(k):
                if not self._isinstance(v, k):
                    return False
                fields = _record_fields(k[1])
                if pat.patterns and (fields is None or len(pat.patterns) > len(fields)):
                    raise _NoModel("positional class pattern")
                subs = [(fields[i][1], x) for i, x in enumerate(pat.patterns)] + list(zip(pat.kwd_attrs, pat.kwd_patterns))
                return all(self._match(x, self.attr_of(v, name, fi), env, fi) for name, x in subs)
            if isinstance(k, type) and not pat.patterns and not pat.kwd_attrs:
                return not isinstance(v, _Obj) and not _is_class(v) and isinstance(v, k)
            if isinstance(k, type) and len(pat.patterns) == 1 and not pat.kwd_attrs and k in (int, str, bytes, bool, float, list, tuple, dict, set, frozenset):
                return not isinstance(v, _Obj) and not _is_class(v) and isinstance(v, k) and self._match(pat.patterns[0], v, env, fi)
            raise _NoModel("class pattern")
        raise _NoModel(f"pattern `{type(pat).__name__}`")

    def _kind_caught(self, type_exprs, kind: str) -> bool:
        raised = getattr(_builtins, kind, None)
        for t in type_exprs:
            for one in (t.elts if isinstance(t, ast.Tuple) else [t]):
                nm = (chain(one) or "").rsplit(".", 1)[-1]
                if nm == kind:
                    return True
                caught = getattr(_builtins, nm, None)
                if isinstance(raised, type) and isinstance(caught, type) and issubclass(raised, caught):
                    return True
        return False

    def _lib_name(self, f: ast.AST, fi):
        """(module, name) of the standard-library object a callee expression names through this module's imports, else None"""
        if isinstance(f, ast.Name):
            imp = fi.module.imports.get(f.id)
            return (imp[0], imp[1]) if imp is not None and imp[1] is not None and imp[0].split(".")[0] not in ("ipv8",) else None
        if isinstance(f, ast.Attribute) and isinstance(f.value, ast.Name):
            imp = fi.module.imports.get(f.value.id)
            if imp is not None and imp[1] is None:
                return (imp[0], f.attr)
        return None

    @staticmethod
    def _handles(h: ast.ExceptHandler, kind: str) -> bool:
        if h.type is None:
            return True
        types = h.type.elts if isinstance(h.type, ast.Tuple) else [h.type]
        raised = getattr(_builtins, kind, None)
        for t in types:
            nm = (chain(t) or "").rsplit(".", 1)[-1]
            if nm == kind:
                return True
            caught = getattr(_builtins, nm, None)
            if isinstance(raised, type) and isinstance(caught, type) and issubclass(raised, caught):
                return True
        return False

    def assign(self, t, v, env, fi) -> None:
        if isinstance(t, ast.Name):
            env[t.id] = v
        elif isinstance(t, (ast.Tuple, ast.List)):
            if any(isinstance(x, ast.Starred) for x in t.elts):
                raise _NoModel("starred target")
            vals = list(self._iter(v))
            if len(vals) != len(t.elts):
                raise _Raised("ValueError")
            for x, y in zip(t.elts, vals):
                self.assign(x, y, env, fi)
        elif isinstance(t, ast.Subscript):
            c = self.ev(t.value, env, fi)
            if not isinstance(c, (dict, list)):
                raise _NoModel("item store into a non-container")
            self._apply(_operator.setitem, c, self._index(t.slice, env, fi), v)
        elif isinstance(t, ast.Attribute):
            o = self.ev(t.value, env, fi)
            if not isinstance(o, _Obj):
                raise _NoModel("attribute store")
            o.attrs[t.attr] = v
        else:
            raise _NoModel("assignment target")

    # ---- expressions
    @staticmethod
    def _iter(v):
        if isinstance(v, _Obj) or not hasattr(v, "__iter__"):
            raise _NoModel("iteration over a non-model value")
        return v

    @staticmethod
    def _apply(f, *args, **kw):
        try:
            return f(*args, **kw)
        except (_NoModel, _Raised, _Return, _Break, _Continue):
            raise
        except Exception as e:  # noqa: BLE001 - the interpreted code would raise this
            raise _Raised(type(e).__name__, e) from None

    def _index(self, sl, env, fi):
        if isinstance(sl, ast.Slice):
            return slice(*(self.ev(x, env, fi) if x is not None else None for x in (sl.lower, sl.upper, sl.step)))
        return self.ev(sl, env, fi)

    def _args(self, call, env, fi):
        args = []
        for a in call.args:
            if isinstance(a, ast.Starred):
                args.extend(self._iter(self.ev(a.value, env, fi)))
            else:
                args.append(self.ev(a, env, fi))
        kw = {}
        for k in call.keywords:
            if k.arg is None:
                d = self.ev(k.value, env, fi)
                if not isinstance(d, dict) or not all(isinstance(x, str) for x in d):
                    raise _NoModel("**kwargs call")
                kw.update(d)
                continue
            kw[k.arg] = self.ev(k.value, env, fi)
        return args, kw

    def _callable(self, f):
        """A model callable: Python builtin, or a closure / lambda of the interpreted code wrapped into a Python function."""
        if isinstance(f, tuple) and f and f[0] == "@lambda":
            _, node, env, fi = f
            params = [x.arg for x in node.args.posonlyargs + node.args.args]

            def run(*a, **k):
                if node.args.vararg or node.args.kwarg or node.args.kwonlyargs or len(a) > len(params):
                    raise _NoModel("lambda arity")
                bound = dict(zip(params, a))
                for nm, v in k.items():
                    if nm not in params or nm in bound:
                        raise _NoModel("lambda arity")
                    bound[nm] = v
                defaults = dict(zip(params[len(params) - len(node.args.defaults):], node.args.defaults))
                for nm in params:
                    if nm not in bound:
                        if nm not in defaults:
                            raise _NoModel("lambda arity")
                        bound[nm] = self.ev(defaults[nm], env, fi)
                return self.ev(node.body, {**env, **bound}, fi)
            return run
        if isinstance(f, tuple) and f and f[0] == "@func":
            return lambda *a, **k: self.call(f[1], list(a), k)
        if isinstance(f, tuple) and f and f[0] == "@bound":
            return lambda *a, **k: self.call(f[1], [f[2], *a], k)
        if isinstance(f, _Obj) and f.cls is not None and f.cls.lookup("__call__") is not None:
            return lambda *a, **k: self.call(f.cls.lookup("__call__"), [f, *a], k)
        if _is_class(f):
            return lambda *a, **k: self.instantiate(f[1], list(a), k)
        if isinstance(f, tuple) and f and f[0] == "@raw":
            return lambda *a, **k: self.call(f[1], list(a), k, _raw=True)
        if isinstance(f, tuple) and f and f[0] == "@closure":
            def run_closure(*a, **k):
                return self._invoke(f, list(a), k, self._closure_fi)
            return run_closure
        return f

    def ev(self, e, env, fi):  # noqa: C901, PLR0911, PLR0912, PLR0915
        self._tick()
        if isinstance(e, ast.Constant):
            return e.value
        if isinstance(e, ast.Name):
            if e.id in env:
                return env[e.id]
            if e.id in _MODEL_BUILTINS:
                return _MODEL_BUILTINS[e.id]
            if e.id == "id" and fi.module.imports.get("id") is None and self.repo.resolve_name(fi.module, "id") is None:
                return self.model_id
            imp = fi.module.imports.get(e.id)
            if imp is not None and imp[0] in _MODEL_MODULES:
                if imp[1] is None:
                    return _MODEL_MODULES[imp[0]]
                return self._lib(imp[0], imp[1])
            if imp is not None and imp == ("typing", "NamedTuple"):
                import typing
                return typing.NamedTuple
            if imp is not None and imp == ("dataclasses", "astuple"):
                return self._astuple
            if imp is not None and imp == ("dataclasses", "asdict"):
                return lambda o: dict(zip([f[1] for f in self._fields_of(o)], self._astuple(o)))
            if imp is not None and imp == ("dataclasses", "replace"):
                return self._replace_rec
            if imp is None and e.id in _MODEL_MODULES:
                return _MODEL_MODULES[e.id]
            r = self.repo.resolve_name(fi.module, e.id)
            if isinstance(r, tuple) and r and r[0] == "const":
                key = (r[1].relpath, norm(r[2]), id(r[2]))
                if key not in self.globals:
                    self.globals[key] = self.ev(r[2], {}, self._module_context(r[1], fi))
                return self.globals[key]
            if isinstance(r, FuncInfo):
                return ("@func", r)
            if r is not None and not isinstance(r, tuple) and hasattr(r, "mro") and hasattr(r, "methods"):
                return ("@class", r)
            lost = _lost_function(self.repo, fi.module, e.id)
            if lost is not None:
                return ("@func", lost)
            if e.id in _MODEL_FROM:
                return _MODEL_FROM[e.id]
            raise _NoModel(f"name `{e.id}`")
        if isinstance(e, (ast.Tuple, ast.List, ast.Set)):
            out = []
            for x in e.elts:
                if isinstance(x, ast.Starred):
                    out.extend(self._iter(self.ev(x.value, env, fi)))
                else:
                    out.append(self.ev(x, env, fi))
            return tuple(out) if isinstance(e, ast.Tuple) else out if isinstance(e, ast.List) else set(out)
        if isinstance(e, ast.Dict):
            d = {}
            for k, v in zip(e.keys, e.values):
                if k is None:
                    d.update(self.ev(v, env, fi))
                else:
                    d[self.ev(k, env, fi)] = self.ev(v, env, fi)
            return d
        if isinstance(e, ast.BoolOp):
            v = None
            for x in e.values:
                v = self.ev(x, env, fi)
                if bool(v) != isinstance(e.op, ast.And):
                    return v
            return v
        if isinstance(e, ast.UnaryOp):
            v = self.ev(e.operand, env, fi)
            if isinstance(e.op, ast.Not):
                return not v
            return self._apply({ast.USub: _operator.neg, ast.UAdd: _operator.pos, ast.Invert: _operator.invert}[type(e.op)], v)
        if isinstance(e, ast.BinOp):
            if _BINOPS.get(type(e.op)) is None:
                raise _NoModel("operator")
            le, ri = self.ev(e.left, env, fi), self.ev(e.right, env, fi)
            return self._binop(e.op, le, ri)
        if isinstance(e, ast.Compare):
            left = self.ev(e.left, env, fi)
            for op, r in zip(e.ops, e.comparators):
                right = self.ev(r, env, fi)
                res = self._compare(op, left, right)
                if not res:
                    return False
                left = right
            return True
        if isinstance(e, ast.IfExp):
            return self.ev(e.body if self.ev(e.test, env, fi) else e.orelse, env, fi)
        if isinstance(e, ast.NamedExpr):
            v = self.ev(e.value, env, fi)
            env[e.target.id] = v
            return v
        if isinstance(e, ast.Subscript):
            c = self.ev(e.value, env, fi)
            if isinstance(c, _Obj):
                raise _NoModel("subscript of an opaque object")
            return self._apply(_operator.getitem, c, self._index(e.slice, env, fi))
        if isinstance(e, ast.Attribute):
            return self.attr_of(self.ev(e.value, env, fi), e.attr, fi)
        if isinstance(e, ast.Lambda):
            return ("@lambda", e, env, fi)
        if isinstance(e, (ast.ListComp, ast.SetComp, ast.GeneratorExp, ast.DictComp)):
            out: list = []
            self._comp(e, 0, dict(env), fi, out)
            if isinstance(e, ast.ListComp):
                return out
            if isinstance(e, ast.SetComp):
                return set(out)
            if isinstance(e, ast.DictComp):
                return dict(out)
            return iter(out)
        if isinstance(e, ast.Call):
            return self._call(e, env, fi)
        if isinstance(e, ast.JoinedStr):
            out = []
            for part in e.values:
                if isinstance(part, ast.Constant):
                    out.append(str(part.value))
                    continue
                v = self.ev(part.value, env, fi)
                if isinstance(v, _Obj) or _is_class(v):
                    out.append(repr(v))
                    continue
                if part.conversion in (115, 114, 97):
                    v = {115: str, 114: repr, 97: ascii}[part.conversion](v)
                spec = self.ev(part.format_spec, env, fi) if part.format_spec is not None else ""
                out.append(self._apply(format, v, spec))
            return "".join(out)
        raise _NoModel(f"expression `{norm(e)[:60]}`")

    def _compare(self, op, left, right):
        if isinstance(left, _Obj) and isinstance(op, (ast.Eq, ast.NotEq)) and left.cls is not None and left.cls.lookup("__eq__") is not None:
            return bool(self.call(left.cls.lookup("__eq__"), [left, right], {})) == isinstance(op, ast.Eq)
        if isinstance(left, _Obj) and isinstance(right, _Obj) and isinstance(op, (ast.Eq, ast.NotEq)) and left.cls is not None and right.cls is not None \
                and left.cls.node is right.cls.node and _record_kind(left.cls) == "dataclass":
            same = list(left.attrs) == list(right.attrs) and all(self._compare(ast.Eq(), left.attrs[k], right.attrs[k]) for k in left.attrs)
            return same == isinstance(op, ast.Eq)                      # a dataclass compares field by field
        if (isinstance(left, _Obj) or isinstance(right, _Obj)) and not isinstance(op, (ast.Is, ast.IsNot, ast.Eq, ast.NotEq, ast.In, ast.NotIn)):
            raise _NoModel("ordering of opaque objects")
        return self._apply(_CMPOPS[type(op)], left, right)

    def _isinstance(self, v, k) -> bool:
        """k: one class value of the analysed code"""
        vc = v.cls if isinstance(v, _Obj) else v.ci if isinstance(v, _RecTuple) else None
        return vc is not None and any(x.node is k[1].node for x in vc.mro())

    def _module_context(self, module, fi: FuncInfo) -> FuncInfo:
        """a context for evaluating a module-level expression: names resolve in the module that defines it"""
        if module is fi.module:
            return fi
        return FuncInfo(name="<module>", qualname="<module>", node=module.tree, module=module, cls=None)

    def _lib(self, mod: str, name: str):
        """the standard-library object mod.name, with attribute / method getters replaced by versions that understand model objects"""
        if name in _IMPURE_LIB or name.startswith("_"):
            raise _NoModel(f"library name {mod}.{name}")
        if mod == "operator" and name == "attrgetter":
            def attrgetter(*names):
                def get(o):
                    vals = []
                    for nm in names:
                        v = o
                        for part in nm.split("."):
                            v = self.attr_of(v, part, None)
                        vals.append(v)
                    return vals[0] if len(vals) == 1 else tuple(vals)
                return get
            return attrgetter
        if mod == "operator" and name == "methodcaller":
            def methodcaller(nm, *a, **k):
                return lambda o: self.call_method(o, nm, list(a), k, None)
            return methodcaller
        if mod == "operator" and name in ("eq", "ne"):
            return lambda a, b: self._compare(ast.Eq() if name == "eq" else ast.NotEq(), a, b)
        if mod == "operator" and name in ("mul", "add", "sub", "floordiv", "truediv", "mod"):
            opnode = {"mul": ast.Mult, "add": ast.Add, "sub": ast.Sub, "floordiv": ast.FloorDiv, "truediv": ast.Div, "mod": ast.Mod}[name]
            return lambda a, b: self._binop(opnode(), a, b)
        try:
            return getattr(_MODEL_MODULES[mod], name)
        except AttributeError:
            raise _NoModel(f"library name {mod}.{name}") from None

    def _fields_of(self, o):
        ci = o.cls if isinstance(o, _Obj) else o.ci if isinstance(o, _RecTuple) else None
        fields = _record_fields(ci) if ci is not None else None
        if fields is None:
            raise _NoModel("fields of a non-record object")
        return fields

    def _astuple(self, o):
        return tuple(self.attr_of(o, f[1], None) for f in self._fields_of(o))

    def _replace_rec(self, o, **changes):
        fields = self._fields_of(o)
        ci = o.cls if isinstance(o, _Obj) else o.ci
        vals = {f[0]: self.attr_of(o, f[1], None) for f in fields}
        if set(changes) - set(vals):
            raise _Raised("TypeError")
        vals.update(changes)
        return self.instantiate(ci, [], vals)

    def _binop(self, opnode, le, ri):
        op = _BINOPS.get(type(opnode))
        if op is None:
            raise _NoModel("operator")
        if isinstance(le, _Obj) or isinstance(ri, _Obj):
            dn = _DUNDER.get(type(opnode))
            t = le.cls.lookup(dn) if isinstance(le, _Obj) and le.cls is not None and dn else None
            if t is None:
                raise _NoModel("arithmetic on an opaque object")
            return self.call(t, [le, ri], {})
        return self._apply(op, le, ri)

    def attr_of(self, o, attr: str, fi):  # noqa: C901, PLR0911, PLR0912
        """value of o.attr for a model value o"""
        if isinstance(o, _RecTuple):
            if attr in o.fields:
                return o[o.fields.index(attr)]
            if attr == "_fields":
                return o.fields
            if attr == "_asdict":
                return lambda: dict(zip(o.fields, o))
            if attr == "_replace":
                return lambda **kw: self._replace_rec(o, **kw)
            t = o.ci.lookup(attr)
            if t is not None and "property" in t.decorator_names():
                return self.call(t, [o], {})
            if t is not None:
                return ("@bound", t, o)
            cx = o.ci.lookup_attr(attr)
            if cx is not None:
                return self.ev(cx, {}, self._class_context(o.ci, fi))
            if attr in ("count", "index"):
                return getattr(o, attr)
            raise _NoModel(f"attribute .{attr} of a {o.ci.name}")
        if isinstance(o, _Obj) or _is_class(o):
            if isinstance(o, _Obj) and attr in o.attrs:
                return o.attrs[attr]
            ci = o.cls if isinstance(o, _Obj) else o[1]
            if ci is not None:
                if _is_class(o) and _record_kind(ci) == "enum" and attr in ci.attrs:
                    return self._enum_member(ci, attr, fi)
                cx = ci.lookup_attr(attr)
                if cx is not None:
                    return self.ev(cx, {}, self._class_context(ci, fi))
                t = ci.lookup(attr)
                if t is not None and "property" in t.decorator_names() and isinstance(o, _Obj):
                    return self.call(t, [o], {})
                if t is not None and isinstance(o, _Obj) and not ({"staticmethod", "classmethod"} & set(t.decorator_names())):
                    return ("@bound", t, o)
                if t is not None:
                    raise _NoModel(f"method object .{attr}")
            raise _NoModel(f"attribute .{attr} of {o!r}")
        if any(o is m for m in _MODEL_MODULES.values()):
            name = next(k for k, m in _MODEL_MODULES.items() if m is o)
            return self._lib(name, attr)
        if any(o is t for t in (int, bytes, str, dict, float, list, tuple)) and not attr.startswith("_"):
            return self._apply(getattr, o, attr)
        if isinstance(o, _MODEL_VALUE_TYPES) and not attr.startswith("_"):
            return self._apply(getattr, o, attr)
        if isinstance(o, tuple) and hasattr(o, "_fields") and attr in ("_fields", "_asdict", "_replace"):
            return getattr(o, attr)                                   # a collections.namedtuple value created by the interpreted code
        raise _NoModel(f"attribute .{attr}")

    def _enum_member(self, ci, name: str, fi):
        """one object per member of an Enum class (identity comparisons work); IntEnum / StrEnum members are their plain values"""
        key = (id(ci.node), name)
        if key not in self.enums:
            members = [k for k, v in ci.attrs.items() if not k.startswith("_") and not isinstance(v, ast.Lambda)]
            expr = ci.attrs[name]
            if isinstance(expr, ast.Call) and (chain(expr.func) or "").rsplit(".", 1)[-1] == "auto" and not expr.args:
                value = members.index(name) + 1
            else:
                value = self.ev(expr, {}, self._class_context(ci, fi))
            bases = {b.rsplit(".", 1)[-1] for b in ci.base_names}
            for other, (ov, obj) in [(k[1], v) for k, v in self.enums.items() if k[0] == id(ci.node)]:
                if not isinstance(ov, _Obj) and ov == value and type(ov) is type(value):
                    self.enums[key] = (value, obj)                  # an alias: same value, same member
                    break
            else:
                plain = bases & {"IntEnum", "StrEnum", "IntFlag"} or len(ci.base_names) > 1
                if plain and len(ci.base_names) > 1 and not bases & {"IntEnum", "StrEnum", "IntFlag"} and not {"int", "str"} & set(ci.base_names):
                    raise _NoModel(f"enum {ci.name} with a mixed-in base")
                self.enums[key] = (value, value if plain else _Obj(f"{ci.name}.{name}", cls=ci, name=name, value=value))
        return self.enums[key][1]

    def call_method(self, rv, attr: str, args: list, kw: dict, fi):
        """rv.attr(*args, **kw) on a model value"""
        fv = self.attr_of(rv, attr, fi) if not (isinstance(rv, _Obj) or _is_class(rv)) else None
        if fv is None:
            ci = rv.cls if isinstance(rv, _Obj) else rv[1]
            t = ci.lookup(attr) if ci is not None else None
            if t is not None:
                return self.call(t, self._bound(rv, t, args), kw)
            if isinstance(rv, _Obj) and attr in rv.attrs:
                fv = rv.attrs[attr]
            else:
                raise _NoModel(f"method .{attr} of {rv!r}")
        return self._invoke(fv, args, kw, fi)

    def _comp(self, e, i, env, fi, out) -> None:
        if i == len(e.generators):
            out.append((self.ev(e.key, env, fi), self.ev(e.value, env, fi)) if isinstance(e, ast.DictComp) else self.ev(e.elt, env, fi))
            return
        g = e.generators[i]
        if g.is_async:
            raise _NoModel("async comprehension")
        for item in self._iter(self.ev(g.iter, env, fi)):
            self._tick()
            self.assign(g.target, item, env, fi)
            if all(self.ev(c, env, fi) for c in g.ifs):
                self._comp(e, i + 1, env, fi, out)

    def instantiate(self, ci, args, kw):
        kind = _record_kind(ci)
        if kind == "enum":
            # Enum lookup by value: the member whose value equals the argument, ValueError when there is none (plain Enum / IntEnum / StrEnum
            # classes with literal member values and without a _missing_ hook; flags compose values and are not modelled)
            bases = {b.rsplit(".", 1)[-1] for b in ci.base_names}
            names = [k for k, v in ci.attrs.items() if not k.startswith("_") and not isinstance(v, ast.Lambda)]
            if len(args) != 1 or kw or bases & {"Flag", "IntFlag"} or any(k.lookup("_missing_") is not None for k in [ci]) or not names \
                    or any(isinstance(ci.attrs[k], ast.Call) for k in names) or isinstance(args[0], (_Obj, _RecTuple)) or _is_class(args[0]):
                raise _NoModel(f"enum lookup by value {ci.name}(...)")
            for nm in names:
                member = self._enum_member(ci, nm, None)
                value = self.enums[(id(ci.node), nm)][0]
                if isinstance(value, (int, str, bytes, bool, float, tuple)) and type(value) is type(args[0]) and value == args[0]:
                    return member
                if not isinstance(value, (int, str, bytes, bool, float, tuple)):
                    raise _NoModel(f"enum lookup by value {ci.name}(...)")
            if any(type(self.enums[(id(ci.node), nm)][0]) is not type(args[0]) for nm in names):
                raise _NoModel(f"enum lookup by value {ci.name}(...) with a value of another type")
            raise _Raised("ValueError")
        if kind in ("namedtuple", "dataclass"):
            fields = _record_fields(ci)
            how = _bind_record(fields, len(args), kw) if fields is not None else None
            if fields is None:
                raise _NoModel(f"constructor of the record class {ci.name}")
            if how is None:
                raise _Raised("TypeError")
            ctx_fi = self._class_context(ci, None)
            vals = [args[h[1]] if h[0] == "pos" else kw[h[1]] if h[0] == "kw" else self.ev(f[2], {}, ctx_fi) for h, f in zip(how, fields)]
            if kind == "namedtuple":
                return _RecTuple(vals, ci, [f[1] for f in fields])
            obj = _Obj(ci.name, cls=ci, **{f[1]: v for f, v in zip(fields, vals)})
            post = ci.lookup("__post_init__")
            if post is not None:
                self.call(post, [obj], {})
            return obj
        obj = _Obj(ci.name, cls=ci)
        init = ci.lookup("__init__")
        if init is not None:
            self.call(init, [obj, *args], kw)
        elif args or kw:
            raise _NoModel(f"constructor of {ci.name}")
        return obj

    def _class_context(self, ci, fi: FuncInfo) -> FuncInfo:
        m = next(iter(ci.methods.values()), None)
        return m if m is not None else FuncInfo(name="<class>", qualname=ci.name, node=ci.node, module=ci.module, cls=ci)

    def _bound(self, rv, t: FuncInfo, args: list) -> list:
        """argument list for calling method t through receiver value rv (an object or a class value)"""
        decs = t.decorator_names()
        if "staticmethod" in decs:
            return args
        if "classmethod" in decs:
            return [("@class", rv.cls) if isinstance(rv, _Obj) else rv, *args]
        return [rv, *args] if isinstance(rv, _Obj) else args

    def _call(self, e: ast.Call, env, fi):  # noqa: C901, PLR0911, PLR0912, PLR0915
        f = e.func
        c = chain(f) or ""
        if c == "cast" and len(e.args) == 2:
            return self.ev(e.args[1], env, fi)
        if ".logger." in "." + c or c.startswith("logging."):
            return None
        if isinstance(f, ast.Attribute) and f.attr in ("acquire", "release") and isinstance(f.value, ast.Name) and f.value.id not in env and not e.args:
            return True                                   # a module-level lock: no effect on the values computed
        if c in ("setattr", "getattr", "hasattr") and c not in env and len(e.args) in (2, 3) and not e.keywords:
            vals = [self.ev(a, env, fi) for a in e.args]
            if isinstance(vals[0], _Obj) and isinstance(vals[1], str):
                if c == "setattr" and len(vals) == 3:
                    vals[0].attrs[vals[1]] = vals[2]
                    return None
                if c == "hasattr" and len(vals) == 2:
                    return vals[1] in vals[0].attrs
                if c == "getattr":
                    if vals[1] in vals[0].attrs:
                        return vals[0].attrs[vals[1]]
                    if len(vals) == 3:
                        return vals[2]
                    return self.ev(ast.Attribute(value=e.args[0], attr=vals[1], ctx=ast.Load()), env, fi)
            raise _NoModel(f"{c}() on a non-model object")
        if c == "isinstance" and len(e.args) == 2 and "isinstance" not in env:
            v, k = self.ev(e.args[0], env, fi), self.ev(e.args[1], env, fi)
            ks = list(k) if isinstance(k, tuple) and not _is_class(k) else [k]
            for one in ks:
                if _is_class(one):
                    if self._isinstance(v, one):
                        return True
                elif isinstance(one, type):
                    if not isinstance(v, _Obj) and not _is_class(v) and isinstance(v, one):
                        return True
                else:
                    raise _NoModel("isinstance() on a non-class")
            return False
        # super().method(...)
        if isinstance(f, ast.Attribute) and isinstance(f.value, ast.Call) and chain(f.value.func) == "super" and not f.value.args and fi.cls is not None:
            me = env.get("self", env.get("cls"))
            dyn = me.cls if isinstance(me, _Obj) else me[1] if _is_class(me) else None
            mro = (dyn or fi.cls).mro()
            idx = next((i for i, k in enumerate(mro) if k.node is fi.cls.node), None)
            t = next((k.methods[f.attr] for k in mro[idx + 1:] if f.attr in k.methods), None) if idx is not None else None
            if t is None:
                raise _NoModel(f"super().{f.attr}")
            args, kw = self._args(e, env, fi)
            return self.call(t, self._bound(me, t, args), kw)
        if isinstance(f, ast.Attribute):
            rv = self.ev(f.value, env, fi)
            if isinstance(rv, _Obj) or _is_class(rv):
                ci = rv.cls if isinstance(rv, _Obj) else rv[1]
                t = ci.lookup(f.attr) if ci is not None else None
                if t is None and isinstance(rv, _Obj) and ci is None and fi.cls is not None and isinstance(f.value, ast.Name) and f.value.id in ("self", "cls"):
                    t = fi.cls.lookup(f.attr)
                if t is not None and "property" in t.decorator_names() and isinstance(rv, _Obj):
                    fv = self.call(t, [rv], {})                # a property that returns a callable
                elif t is not None:
                    args, kw = self._args(e, env, fi)
                    return self.call(t, self._bound(rv, t, args), kw)
                elif isinstance(rv, _Obj) and f.attr in rv.attrs:
                    fv = rv.attrs[f.attr]
                elif _is_class(rv) and ci is not None and ci.lookup_attr(f.attr) is not None:
                    fv = self.attr_of(rv, f.attr, fi)          # a class-level table entry / callable constant
                else:
                    raise _NoModel(f"method .{f.attr} of {rv!r}")
            elif isinstance(rv, _RecTuple):
                fv = self.attr_of(rv, f.attr, fi)
            elif any(rv is m for m in _MODEL_MODULES.values()):
                fv = self.attr_of(rv, f.attr, fi)
            elif any(rv is t for t in (int, bytes, str, dict, float, list, tuple)) and not f.attr.startswith("_"):
                fv = self._apply(getattr, rv, f.attr)
            elif isinstance(rv, _MODEL_VALUE_TYPES) and not f.attr.startswith("_"):
                fv = self._apply(getattr, rv, f.attr)
            elif isinstance(rv, tuple) and hasattr(rv, "_fields") and f.attr in ("_asdict", "_replace"):
                fv = getattr(rv, f.attr)
            elif hasattr(rv, "__next__") and f.attr in ("__next__",):
                fv = getattr(rv, f.attr)
            elif f.attr == "from_iterable" and rv is _itertools.chain:
                fv = _itertools.chain.from_iterable
            else:
                raise _NoModel(f"method .{f.attr}")
        else:
            fv = self.ev(f, env, fi)
        args, kw = self._args(e, env, fi)
        return self._invoke(fv, args, kw, fi, e)

    def _bind_closure(self, node, args: list, kw: dict, cenv: dict, fi) -> dict:
        """parameters of a nested function bound to call arguments: positional, keyword, defaults, *args, **kwargs"""
        a = node.args
        params = [x.arg for x in a.posonlyargs + a.args]
        kwonly = [x.arg for x in a.kwonlyargs]
        bound: dict = {}
        if len(args) > len(params):
            if a.vararg is None:
                raise _NoModel("closure arity")
            bound[a.vararg.arg] = tuple(args[len(params):])
        elif a.vararg is not None:
            bound[a.vararg.arg] = ()
        bound.update(zip(params, args))
        extra: dict = {}
        for k, v in kw.items():
            if k in params or k in kwonly:
                if k in bound:
                    raise _NoModel("closure arity")
                bound[k] = v
            elif a.kwarg is not None:
                extra[k] = v
            else:
                raise _NoModel("closure keyword")
        if a.kwarg is not None:
            bound[a.kwarg.arg] = extra
        defaults = dict(zip(params[len(params) - len(a.defaults):], a.defaults))
        defaults.update({k.arg: d for k, d in zip(a.kwonlyargs, a.kw_defaults) if d is not None})
        for nm in params + kwonly:
            if nm not in bound:
                if nm not in defaults:
                    raise _NoModel("closure arity")
                bound[nm] = self.ev(defaults[nm], cenv, fi if fi is not None else self._closure_fi)
        return bound

    def _invoke(self, fv, args: list, kw: dict, fi, e=None):  # noqa: C901, PLR0911
        """call a model callable (function / class / bound method / closure / lambda / callable object of the analysed code, or a library function)"""
        if isinstance(fv, tuple) and fv and fv[0] == "@func":
            return self.call(fv[1], args, kw)
        if isinstance(fv, tuple) and fv and fv[0] == "@bound":
            return self.call(fv[1], [fv[2], *args], kw)
        if _is_class(fv):
            return self.instantiate(fv[1], args, kw)
        if isinstance(fv, tuple) and fv and fv[0] == "@raw":
            return self.call(fv[1], args, kw, _raw=True)
        if isinstance(fv, tuple) and fv and fv[0] == "@closure":
            _, node, cenv = fv
            if any(isinstance(x, (ast.Yield, ast.YieldFrom)) for x in walk_no_nested(node, include_root_defs=False)):
                raise _NoModel("generator closure")
            if isinstance(node, ast.AsyncFunctionDef):
                raise _NoModel("coroutine closure")
            cfi = getattr(node, "_info", None) or (fi if fi is not None else self._closure_fi)      # names resolve in the module that defines the closure
            inner = {**cenv, **self._bind_closure(node, list(args), dict(kw), cenv, cfi)}
            try:
                self.block(node.body, inner, cfi)
            except _Return as r:
                return r.value
            return None
        if isinstance(fv, tuple) and fv and fv[0] == "@lambda":
            return self._callable(fv)(*args, **kw)
        if isinstance(fv, (_Obj, _RecTuple)):
            ci = fv.cls if isinstance(fv, _Obj) else fv.ci
            t = ci.lookup("__call__") if ci is not None else None
            if t is None:
                raise _NoModel(f"call of the non-callable object {fv!r}")
            return self.call(t, [fv, *args], kw)
        if callable(fv):
            args = [self._callable(a) for a in args]
            kw = {k: self._callable(v) for k, v in kw.items()}
            opaque = any(_has_opaque(a) for a in args) or any(_has_opaque(v) for v in kw.values())
            if any(_has_opaque(a, 0) for a in args) and fv in (str, repr, bytes, int, float, len, sorted, min, max, sum, abs):
                raise _NoModel(f"builtin {getattr(fv, '__name__', fv)}() on an opaque object")
            try:
                return self._apply(fv, *args, **kw)
            except _Raised as r:
                if opaque and r.kind in ("TypeError", "AttributeError"):
                    # the library function met a model object it cannot work with (no real methods): not what the analysed code would do
                    raise _NoModel(f"library call {getattr(fv, '__name__', fv)}() on an opaque object") from None
                raise
        raise _NoModel(f"call `{norm(e)[:60]}`" if e is not None else "call of a non-callable value")


def _has_opaque(v, depth: int = 2) -> bool:
    if isinstance(v, (_Obj, _RecTuple)) or _is_class(v):
        return True
    if depth and isinstance(v, (list, tuple, set, frozenset)):
        return any(_has_opaque(x, depth - 1) for x in v)
    if depth and isinstance(v, dict):
        return any(_has_opaque(x, depth - 1) for x in v.values())
    return False


def _is_class(v) -> bool:
    return isinstance(v, tuple) and len(v) == 2 and v[0] == "@class"


# ------------------------------------------------------------------------------------------------------------------
# Sites: a construct of interest inside an anchor function or inside a NEW helper it (transitively) calls.
#
# A frame is a function analysed in the context of the call that reached it: the helper's parameters stand for the
# caller's argument expressions, the facts that dominate the call hold inside the helper.  Expressions are compared in
# canonical form (cast() stripped, pure single-assignment locals expanded, parameters replaced by the caller's expressions),
# so a guard / lookup key / removal that moved into a helper, a hoisted alias or a generator is the same construct.
# ------------------------------------------------------------------------------------------------------------------
_V = "__the_value__"
_PURE_FUNCS = {"str", "bytes", "len", "int", "sha1", "sha256", "sha512", "hexlify", "unhexlify", "tuple", "bool"}
_PURE_ATTRS = {"encode", "decode", "digest", "hexdigest", "hex", "id_from_hash", "id_from_address"}


def _is_new(fi: FuncInfo) -> bool:
    """Not part of the reviewed tree: introduced by the change under analysis."""
    tab = load_table().get(fi.module.relpath)
    return tab is None or fi.qualname not in tab


def _pure_value(e: ast.AST) -> bool:
    for x in ast.walk(e):
        if isinstance(x, (ast.Await, ast.Yield, ast.YieldFrom, ast.NamedExpr)):
            return False
        if isinstance(x, ast.Call):
            f = x.func
            if isinstance(f, ast.Name) and f.id in _PURE_FUNCS | {"cast"}:
                continue
            if isinstance(f, ast.Attribute) and f.attr in _PURE_ATTRS:
                continue
            return False
    return True


class _Frame:
    def __init__(self, fi: FuncInfo, bind: dict | None = None, raw: dict | None = None, caller: "_Frame | None" = None, call: ast.Call | None = None) -> None:
        self.fi = fi
        self.bind: dict[str, ast.AST] = bind or {}          # parameter -> canonical expression in the outermost caller's terms
        self.raw: dict[str, ast.AST] = raw or {}            # parameter -> the caller's argument node (with parent links)
        self.caller = caller
        self.call = call

    is_wrapper = False                                  # the wrapper a NEW decorator returns (its inner call enters the decorated body)

    def depth(self) -> int:
        if self.caller is None:
            return 0
        return (0 if self.caller.is_wrapper else 1) + self.caller.depth()


def _canon(frame: _Frame, e: ast.AST, extra: dict | None = None, depth: int = 6) -> ast.AST:
    """Canonical copy of e (see above).  `extra` binds further names (a comprehension / lambda variable -> placeholder)."""
    fi = frame.fi

    def go(n, d, shadow):  # noqa: PLR0911
        if isinstance(n, list):
            return [go(x, d, shadow) for x in n]
        if not isinstance(n, ast.AST):
            return n
        if isinstance(n, ast.Call) and isinstance(n.func, ast.Name) and n.func.id == "cast" and len(n.args) == 2 and not n.keywords:
            return go(n.args[1], d, shadow)
        if isinstance(n, ast.Name):
            if isinstance(n.ctx, ast.Load) and n.id not in shadow:
                if extra and n.id in extra:
                    return extra[n.id]
                if n.id in frame.bind:
                    return frame.bind[n.id]
                if d > 0:
                    sd = single_def(fi, n.id)
                    if sd is not None and sd[1] is None and _pure_value(sd[0]):
                        return go(sd[0], d - 1, shadow)
                    if sd is not None and sd[1] is not None and isinstance(strip_cast(sd[0]), ast.Call) and _pure_value(sd[0]):
                        return ast.Subscript(value=go(sd[0], d - 1, shadow), slice=ast.Constant(value=sd[1]), ctx=ast.Load())
            return ast.Name(id=n.id, ctx=ast.Load())
        if isinstance(n, _COMPS):
            bound: set[str] = set()
            for g in n.generators:
                bound |= names_in(g.target)
            shadow = shadow | bound
        elif isinstance(n, ast.Lambda):
            shadow = shadow | _lambda_params(n)
        new = n.__class__()
        for f in n._fields:
            if hasattr(n, f):
                setattr(new, f, go(getattr(n, f), d, shadow))
        if isinstance(new, ast.Subscript) and isinstance(new.value, ast.Tuple) and isinstance(getattr(n, "ctx", None), ast.Load) \
                and not any(isinstance(x, ast.Starred) for x in new.value.elts):
            k = _int_const(new.slice)                          # (a, b, c)[-1] is c: element of a tuple display (a wrapper's *args written out)
            if k is not None and -len(new.value.elts) <= k < len(new.value.elts) and all(_pure_value(x) for x in new.value.elts):
                return new.value.elts[k]
        return new
    return go(e, depth, frozenset())


def _ctext(frame: _Frame, e: ast.AST, extra: dict | None = None) -> str:
    return norm(_canon(frame, e, extra))


def _bind_call(ctx: Ctx, frame: _Frame, call: ast.Call, target: FuncInfo) -> _Frame | None:
    a = target.node.args
    if a.vararg or a.kwarg or any(isinstance(x, ast.Starred) for x in call.args) or any(k.arg is None for k in call.keywords):
        return None
    names = [x.arg for x in a.posonlyargs + a.args]
    raw: dict[str, ast.AST] = {}
    idx = 0
    if target.cls is not None and "staticmethod" not in target.decorator_names() and names:
        callee = getattr(target, "_c18_callee_expr", None)
        callee = callee if callee is not None else call.func
        if isinstance(callee, ast.Attribute):
            raw[names[0]] = callee.value
        idx = 1
    for x in call.args:
        if idx >= len(names):
            return None
        raw[names[idx]] = x
        idx += 1
    allowed = set(names) | {x.arg for x in a.kwonlyargs}
    for k in call.keywords:
        if k.arg not in allowed:
            return None
        raw[k.arg] = k.value
    bind = {k: _canon(frame, v) for k, v in raw.items()}
    return _Frame(target, bind, raw, frame, call)


def _callee_exprs(fi: FuncInfo, f: ast.AST, depth: int = 4) -> list[ast.AST]:
    """
    The expressions a callee expression may denote: itself, or - for a callable picked from a dict / tuple / list display
    (dispatch table, directly or through a local), a conditional expression or a local alias - every candidate.
    """
    f = strip_cast(f)
    if depth <= 0:
        return [f]
    if isinstance(f, ast.Name):
        sd = single_def(fi, f.id)
        if sd is not None and sd[1] is None and isinstance(strip_cast(sd[0]), (ast.Subscript, ast.IfExp, ast.Attribute, ast.Name, ast.Call, ast.Dict, ast.Tuple, ast.List)):
            v = strip_cast(sd[0])
            if isinstance(v, ast.Call) and not (isinstance(v.func, ast.Attribute) and v.func.attr == "get"):
                return [f]
            return _callee_exprs(fi, v, depth - 1)
        return [f]
    if isinstance(f, ast.IfExp):
        return _callee_exprs(fi, f.body, depth - 1) + _callee_exprs(fi, f.orelse, depth - 1)
    table = None
    if isinstance(f, ast.Subscript):
        table = f.value
    elif isinstance(f, ast.Call) and isinstance(f.func, ast.Attribute) and f.func.attr == "get" and f.args:
        table = f.func.value
        extra = f.args[1:2]
    if table is not None:
        t = strip_cast(table)
        if isinstance(t, ast.Name):
            sd = single_def(fi, t.id)
            t = strip_cast(sd[0]) if sd is not None and sd[1] is None else t
        vals = list(t.values) if isinstance(t, ast.Dict) else list(t.elts) if isinstance(t, (ast.Tuple, ast.List)) else None
        if vals is not None:
            out = []
            for v in vals + (extra if isinstance(f, ast.Call) else []):
                out.extend(_callee_exprs(fi, v, depth - 1))
            return out
    return [f]


def _new_callees(ctx: Ctx, frame: _Frame, call: ast.Call) -> list[FuncInfo]:
    """NEW helpers a call may reach (resolved; by unique name among the new functions when the receiver's type is unknown)."""
    out: list[FuncInfo] = []
    for f in _callee_exprs(frame.fi, call.func):
        probe = call if f is strip_cast(call.func) else ast.Call(func=f, args=call.args, keywords=call.keywords)
        try:
            targets = [t for t in ctx.repo.resolve_call(frame.fi, probe) if _is_new(t)]
        except Exception:  # noqa: BLE001
            targets = []
        if not targets and isinstance(f, ast.Attribute) and not (isinstance(f.value, ast.Name) and f.value.id in ("self", "cls")):
            named = [g for g in ctx.repo.all_functions() if g.name == f.attr and g.cls is not None and _is_new(g)]
            if len(named) == 1:
                targets = named
        for t in targets:
            if t.node is not frame.fi.node and t not in out:
                t._c18_callee_expr = f
                out.append(t)
    return out


# ---- NEW private decorators: a function decorated with `@d` / `@d(args)` (d introduced by the change under analysis) denotes the wrapper
# ---- that d returns; the wrapper's inner call `func(self, ...)` stands for the decorated body.  Wrapper and body are analysed as a chain
# ---- of frames (wrapper = caller, body = callee bound through the inner call), so guards / pops / facts of the wrapper dominate the body.
_WRAP_TRANSPARENT = {"wraps", "functools.wraps"}


def _returned_def(fn: ast.AST):
    """the nested def a decorator (or decorator factory) returns on every return path - `return w`, `return wraps(f)(w)`, `return cast(T, w)`,
    `return update_wrapper(w, f)` - else None"""
    defs = {st.name: st for st in walk_no_nested(fn) if isinstance(st, (ast.FunctionDef, ast.AsyncFunctionDef)) and st is not fn}
    found = None
    nret = 0
    for r in walk_no_nested(fn):
        if not isinstance(r, ast.Return):
            continue
        nret += 1
        v = strip_cast(r.value) if r.value is not None else None
        if isinstance(v, ast.Call) and isinstance(v.func, ast.Call) and (chain(v.func.func) or "").rsplit(".", 1)[-1] == "wraps" and len(v.args) == 1:
            v = strip_cast(v.args[0])
        elif isinstance(v, ast.Call) and (chain(v.func) or "").rsplit(".", 1)[-1] == "update_wrapper" and v.args:
            v = strip_cast(v.args[0])
        if not isinstance(v, ast.Name) or v.id not in defs or len(local_defs_by_node(fn, v.id)) != 1:
            return None
        if found is not None and found is not defs[v.id]:
            return None
        found = defs[v.id]
    return found if nret else None


def local_defs_by_node(fn: ast.AST, name: str) -> list:
    """binding sites of `name` in fn's own scope: nested defs of that name and stores to it"""
    out = []
    for x in walk_no_nested(fn):
        if x is fn:
            continue
        if isinstance(x, (ast.FunctionDef, ast.AsyncFunctionDef, ast.ClassDef)) and x.name == name:
            out.append(x)
        elif isinstance(x, ast.Name) and x.id == name and isinstance(x.ctx, (ast.Store, ast.Del)):
            out.append(x)
    return out


def _resolve_decorator(ctx: Ctx, fi: FuncInfo, d: ast.AST):
    return _resolve_decorator_in(ctx.repo, fi, d)


def _resolve_decorator_in(repo, fi: FuncInfo, d: ast.AST):
    """(decorator function, factory call | None) for a NEW decorator of the repository; None for reviewed / library decorators"""
    call = d if isinstance(d, ast.Call) else None
    f = d.func if call is not None else d
    target = None
    if isinstance(f, ast.Name):
        try:
            r = repo.resolve_name(fi.module, f.id)
        except Exception:  # noqa: BLE001
            r = None
        if isinstance(r, FuncInfo):
            target = r
        elif fi.cls is not None and f.id in fi.cls.methods:
            target = fi.cls.methods[f.id]                        # a plain function of the class body used as a decorator further down
    elif isinstance(f, ast.Attribute):
        named = [g for g in repo.all_functions() if g.name == f.attr and _is_new(g) and "." not in g.qualname.replace(f"{g.cls.name}." if g.cls else "", "", 1)]
        if len(named) == 1:
            target = named[0]
    if target is None or not _is_new(target):
        return None
    return target, call


def _decorator_layers(ctx: Ctx, fi: FuncInfo) -> list:
    """[(wrapper FuncInfo, name the wrapper calls the decorated function by, {factory parameter: argument expression})], outermost first,
    for the NEW decorators of fi.  A new decorator that cannot be read is undecided, never skipped."""
    out = []
    for d in fi.node.decorator_list:
        got = _resolve_decorator(ctx, fi, d)
        if got is None:
            continue
        dec, call = got
        node = dec.node
        binds: dict[str, ast.AST] = {}
        if call is not None:
            a = node.args
            names = [x.arg for x in a.posonlyargs + a.args]
            if dec.cls is not None and "staticmethod" not in dec.decorator_names() and names and names[0] in ("self", "cls"):
                names = names[1:]
            if a.vararg or a.kwarg or len(call.args) > len(names) or any(isinstance(x, ast.Starred) for x in call.args) or any(k.arg is None for k in call.keywords):
                raise AnalysisError(f"undecided: {fi.qualname}: arguments of the new decorator `{norm(d)[:60]}` are not read")
            binds = dict(zip(names, call.args))
            binds.update({k.arg: k.value for k in call.keywords})
            defaults = dict(zip(names[len(names) - len(a.defaults):], a.defaults))
            for nme in names:
                if nme not in binds and nme in defaults:
                    binds[nme] = defaults[nme]
            node = _returned_def(node)
            if node is None:
                raise AnalysisError(f"undecided: {fi.qualname}: the new decorator factory `{norm(d)[:60]}` does not return one nested decorator")
        ps = [x.arg for x in node.args.posonlyargs + node.args.args]
        if dec.cls is not None and node is dec.node and "staticmethod" not in dec.decorator_names() and len(ps) == 2 and ps[0] in ("self", "cls"):
            ps = ps[1:]
        w = _returned_def(node)
        if len(ps) != 1 or w is None or not hasattr(w, "_info"):
            raise AnalysisError(f"undecided: {fi.qualname}: the new decorator `{norm(d)[:60]}` is not a function that returns one wrapper of its argument")
        if any(_resolve_decorator(ctx, w._info, x) is not None for x in w.decorator_list):
            raise AnalysisError(f"undecided: {fi.qualname}: the wrapper of the new decorator `{norm(d)[:60]}` is itself decorated")
        out.append((w._info, ps[0], binds))
    return out


def _bind_wrapper(ctx: Ctx, caller: _Frame | None, call: ast.Call | None, w: FuncInfo, binds: dict, method_like: bool, target: FuncInfo | None = None) -> _Frame | None:
    """frame of a decorator's wrapper: the anchor itself (no caller) or bound to the call site that reaches the decorated function"""
    a = w.node.args
    names = [x.arg for x in a.posonlyargs + a.args]
    frame_binds = {k: clone(v) for k, v in binds.items()}        # factory arguments are written in the decorated function's module: constants
    if caller is None or call is None:
        if a.vararg is not None and target is not None and not a.kwonlyargs:
            # an anchor is called positionally by its dispatcher: *args are the decorated function's own positional parameters that follow
            ta = target.node.args
            tnames = [x.arg for x in ta.posonlyargs + ta.args]
            if not ta.vararg and len(tnames) >= len(names):
                frame_binds[a.vararg.arg] = ast.Tuple(elts=[ast.Name(id=t, ctx=ast.Load()) for t in tnames[len(names):]], ctx=ast.Load())
        fr = _Frame(w, frame_binds)
        fr.is_wrapper = True
        fr.rest, fr.restkw = None, None
        return fr
    raw: dict[str, ast.AST] = {}
    rest: list[ast.AST] = []
    restkw: dict[str, ast.AST] = {}
    idx = 0
    if method_like and names:
        callee = getattr(w, "_c18_callee_expr", None)
        callee = callee if callee is not None else call.func
        if isinstance(callee, ast.Attribute):
            raw[names[0]] = callee.value
            idx = 1
    if any(isinstance(x, ast.Starred) for x in call.args) or any(k.arg is None for k in call.keywords):
        return None
    for x in call.args:
        if idx < len(names):
            raw[names[idx]] = x
            idx += 1
        elif a.vararg:
            rest.append(_canon(caller, x))
        else:
            return None
    allowed = set(names) | {x.arg for x in a.kwonlyargs}
    for k in call.keywords:
        if k.arg in allowed:
            raw[k.arg] = k.value
        elif a.kwarg:
            restkw[k.arg] = _canon(caller, k.value)
        else:
            return None
    bind = {k: _canon(caller, v) for k, v in raw.items()}
    bind.update(frame_binds)
    if a.vararg is not None:
        bind[a.vararg.arg] = ast.Tuple(elts=list(rest), ctx=ast.Load())
    fr = _Frame(w, bind, raw, caller, call)
    fr.is_wrapper = True
    fr.rest, fr.restkw = rest, restkw
    return fr


def _bind_inner(ctx: Ctx, wframe: _Frame, call: ast.Call, target: FuncInfo) -> _Frame | None:
    """frame of the decorated body (or of the next wrapper) for the wrapper's inner call `func(self, a, *args, **kwargs)`: positional from
    the first parameter; the wrapper's own *args / **kwargs pass on what its caller gave (unknown for an anchor: those parameters keep their names)"""
    a = target.node.args
    wa = wframe.fi.node.args
    names = [x.arg for x in a.posonlyargs + a.args]
    raw: dict[str, ast.AST] = {}
    bind: dict[str, ast.AST] = {}
    idx = 0
    rest = getattr(wframe, "rest", None)
    restkw = getattr(wframe, "restkw", None)
    open_tail = False
    for x in call.args:
        if open_tail:
            return None
        if isinstance(x, ast.Starred):
            if not (isinstance(x.value, ast.Name) and wa.vararg is not None and x.value.id == wa.vararg.arg):
                return None
            if rest is None:
                open_tail = True                                  # anchor wrapper: the remaining parameters are the handler's own
                continue
            for r in rest:
                if idx >= len(names):
                    return None
                bind[names[idx]] = r
                idx += 1
            continue
        if idx >= len(names):
            if a.vararg:
                continue
            return None
        raw[names[idx]] = x
        idx += 1
    allowed = set(names) | {x.arg for x in a.kwonlyargs}
    for k in call.keywords:
        if k.arg is None:
            if not (isinstance(k.value, ast.Name) and wa.kwarg is not None and k.value.id == wa.kwarg.arg):
                return None
            for kk, vv in (restkw or {}).items():
                if kk in allowed:
                    bind[kk] = vv
            continue
        if k.arg not in allowed:
            if a.kwarg:
                continue
            return None
        raw[k.arg] = k.value
    bind.update({k: _canon(wframe, v) for k, v in raw.items()})
    return _Frame(target, bind, raw, wframe, call)


def _entry_frames(ctx: Ctx, target: FuncInfo, caller: _Frame | None, call: ast.Call | None) -> list[_Frame]:
    """The frame(s) through which `target` is entered: its own frame, or - when it carries NEW decorators - the chain wrapper(s) -> body."""
    layers = _decorator_layers(ctx, target)
    if not layers:
        if caller is None or call is None:
            return [_Frame(target)]
        nf = _bind_call(ctx, caller, call, target)
        return [nf] if nf is not None else []
    method_like = target.cls is not None and "staticmethod" not in target.decorator_names()
    out: list[_Frame] = []

    def enter(level: int, cur_caller, cur_call, via_site: bool) -> None:
        if level == len(layers):
            body = _bind_inner(ctx, cur_caller, cur_call, target)
            if body is None:
                raise AnalysisError(f"undecided: {target.qualname}: the call `{norm(cur_call)[:60]}` of the decorated function inside its new wrapper is not read")
            out.append(body)
            return
        w, fname, binds = layers[level]
        if via_site:
            if cur_caller is not None:
                w._c18_callee_expr = getattr(target, "_c18_callee_expr", None)
            fr = _bind_wrapper(ctx, cur_caller, cur_call, w, binds, method_like, target)
        else:
            fr = _bind_inner(ctx, cur_caller, cur_call, w)
            if fr is not None:
                fr.bind.update({k: clone(v) for k, v in binds.items()})
                fr.is_wrapper = True
                fr.rest, fr.restkw = getattr(cur_caller, "rest", None), getattr(cur_caller, "restkw", None)
        if fr is None:
            raise AnalysisError(f"undecided: {target.qualname}: the arguments that reach the wrapper of its new decorator are not read")
        out.append(fr)
        inner = [c for c in walk_no_nested(w.node) if isinstance(c, ast.Call) and isinstance(c.func, ast.Name) and c.func.id == fname]
        others = [n for n in walk_no_nested(w.node) if isinstance(n, ast.Name) and n.id == fname and not any(c.func is n for c in inner)
                  and not (isinstance(parent(n), ast.Call) and (chain(parent(n).func) or "").rsplit(".", 1)[-1] in ("wraps", "update_wrapper", "iscoroutinefunction"))
                  and not (isinstance(parent(n), ast.Attribute) and parent(n).attr in ("__name__", "__qualname__", "__doc__"))]
        if others or len(inner) > 4:
            raise AnalysisError(f"undecided: {target.qualname}: the wrapper of its new decorator uses the decorated function other than by calling it")
        for c in inner:
            enter(level + 1, fr, c, False)
    enter(0, caller, call, True)
    return out


def _root_params(frames: list[_Frame], root: FuncInfo) -> list[str]:
    """parameter names of the anchor as its callers see them: the outermost new wrapper's when it spells them out, else the function's own"""
    f0 = frames[0].fi if frames else root
    a = f0.node.args
    if f0.node is not root.node and not a.vararg and not a.kwarg:
        return [x.arg for x in a.posonlyargs + a.args]
    return root.params()


def _frames(ctx: Ctx, root: FuncInfo, max_depth: int = 3) -> list[_Frame]:
    """The anchor's frame and the frames of every NEW helper reachable from it (each call site gives its own frame); a NEW decorator on the
    anchor or on a helper contributes its wrapper as the frame that calls the decorated body."""
    out = _entry_frames(ctx, root, None, None)
    i = 0
    while i < len(out):
        fr = out[i]
        i += 1
        if fr.depth() >= max_depth:
            continue
        for c in walk_no_nested(fr.fi.node):
            if isinstance(c, ast.Call):
                for t in _new_callees(ctx, fr, c):
                    for nf in _entry_frames(ctx, t, fr, c):
                        if len(out) < 40:
                            out.append(nf)
    return out


def _context_facts(site: ast.AST) -> list[Fact]:
    """Facts that hold whenever `site` is evaluated, from the expressions around it: and/or, conditional expressions, comprehension filters."""
    out: list[Fact] = []
    cur, p = site, parent(site)
    while p is not None and not isinstance(p, ast.stmt):
        if isinstance(p, ast.BoolOp):
            idx = next((i for i, v in enumerate(p.values) if v is cur), None)
            if idx:
                for v in p.values[:idx]:
                    out.extend(_atoms_with_polarity(v, isinstance(p.op, ast.And)))
        elif isinstance(p, ast.IfExp):
            if cur is p.body:
                out.extend(_atoms_with_polarity(p.test, True))
            elif cur is p.orelse:
                out.extend(_atoms_with_polarity(p.test, False))
        elif isinstance(p, _COMPS) and not isinstance(cur, ast.comprehension):
            for g in p.generators:                        # the element expression: every filter passed
                for c in g.ifs:
                    out.extend(_atoms_with_polarity(c, True))
        elif isinstance(p, ast.comprehension):
            comp = parent(p)
            gens = comp.generators if comp is not None else [p]
            for g in gens:
                if g is p:
                    break
                for c in g.ifs:
                    out.extend(_atoms_with_polarity(c, True))
            if cur is not p.iter and cur is not p.target:
                for c in p.ifs:
                    if c is cur:
                        break
                    out.extend(_atoms_with_polarity(c, True))
        elif isinstance(p, ast.Lambda):
            break
        cur, p = p, parent(p)
    return out


def _site_facts(ctx: Ctx, frame: _Frame, site: ast.AST) -> list[Fact]:
    """Canonical facts that hold at a site: dominating conditions of its function, expression context, and what dominates the call chain."""
    raw = list(_context_facts(site))
    try:
        raw.extend(facts_at(ctx.cfg(frame.fi), site))
    except AnalysisError:
        pass
    out = []
    for f in raw:
        out.append(Fact(f.op, _canon(frame, f.left), _canon(frame, f.right) if f.right is not None else None, f.pos, f.atom))
    if frame.caller is not None and frame.call is not None:
        out.extend(_site_facts(ctx, frame.caller, frame.call))
    return out


def _renamed_facts(frame: _Frame, conds, var: str, pol: bool = True) -> list[Fact]:
    out = []
    for c in conds:
        for f in _atoms_with_polarity(c, pol):
            ex = {var: ast.Name(id=_V, ctx=ast.Load())}
            out.append(Fact(f.op, _canon(frame, f.left, ex), _canon(frame, f.right, ex) if f.right is not None else None, f.pos, f.atom))
    return out


def _elem_facts(ctx: Ctx, frame: _Frame, it: ast.AST, depth: int = 5) -> list[Fact]:  # noqa: C901, PLR0911, PLR0912
    """Facts about every element an iterable expression yields (the element is the placeholder _V)."""
    it = strip_cast(it)
    if depth <= 0:
        return []
    if isinstance(it, (ast.ListComp, ast.GeneratorExp, ast.SetComp)):
        g0 = it.generators[0]
        if isinstance(it.elt, ast.Name) and isinstance(g0.target, ast.Name) and it.elt.id == g0.target.id and len(it.generators) == 1:
            return _renamed_facts(frame, g0.ifs, g0.target.id) + _elem_facts(ctx, frame, g0.iter, depth - 1)
        return []
    if isinstance(it, ast.Call):
        c = chain(it.func) or ""
        if c.rsplit(".", 1)[-1] in ("filter", "takewhile") and len(it.args) == 2 and not it.keywords:
            pred, src = it.args                             # every element that comes out satisfied the predicate
            out = _elem_facts(ctx, frame, src, depth - 1)
            lam = _as_predicate(ctx, frame, pred)
            if lam is not None:
                out = out + _renamed_facts(frame, [lam[1]], lam[0])
            return out
        if c.rsplit(".", 1)[-1] == "filterfalse" and len(it.args) == 2 and not it.keywords:
            pred, src = it.args
            out = _elem_facts(ctx, frame, src, depth - 1)
            lam = _as_predicate(ctx, frame, pred)
            if lam is not None:
                out = out + _renamed_facts(frame, [lam[1]], lam[0], False)
            return out
        if c.rsplit(".", 1)[-1] in ("islice", "dropwhile") and len(it.args) >= 2 and not it.keywords:
            return _elem_facts(ctx, frame, it.args[0] if c.endswith("islice") else it.args[1], depth - 1)     # a sub-sequence of the source
        if c in ("list", "tuple", "sorted", "iter", "reversed", "set", "frozenset") and len(it.args) >= 1:
            return _elem_facts(ctx, frame, it.args[0], depth - 1)
        out = None
        for t in _new_callees(ctx, frame, it):
            nf = _bind_call(ctx, frame, it, t)
            if nf is None:
                return []
            got = _produced_facts(ctx, nf, depth - 1)
            out = got if out is None else [f for f in out if any(_fkey(f) == _fkey(g) and f.pos == g.pos for g in got)]
        return out or []
    if isinstance(it, ast.Subscript) and isinstance(it.slice, ast.Slice):
        return _elem_facts(ctx, frame, it.value, depth - 1)
    if isinstance(it, ast.IfExp):
        a, b = _elem_facts(ctx, frame, it.body, depth - 1), _elem_facts(ctx, frame, it.orelse, depth - 1)
        if isinstance(strip_cast(it.orelse), (ast.List, ast.Tuple)) and not strip_cast(it.orelse).elts:
            return a
        if isinstance(strip_cast(it.body), (ast.List, ast.Tuple)) and not strip_cast(it.body).elts:
            return b
        return [f for f in a if any(_fkey(f) == _fkey(g) and f.pos == g.pos for g in b)]
    if isinstance(it, (ast.List, ast.Tuple)) and len(it.elts) == 1 and not isinstance(it.elts[0], ast.Starred):
        return _value_facts(ctx, frame, it.elts[0], depth - 1) + _about(ctx, frame, it.elts[0])
    if isinstance(it, ast.Name):
        if it.id in frame.raw and frame.caller is not None:
            return _elem_facts(ctx, frame.caller, frame.raw[it.id], depth - 1)
        defs = local_defs(frame.fi, it.id)
        if len(defs) != 1 or defs[0][1] is None or defs[0][2] is not None:
            return []
        val = strip_cast(defs[0][1])
        empty = (isinstance(val, (ast.List, ast.Tuple)) and not val.elts) or \
            (isinstance(val, ast.Call) and chain(val.func) == "list" and not val.args and not val.keywords)
        if not empty:
            return _elem_facts(ctx, frame, val, depth - 1)
        # a list filled by append() calls: every appended value has the facts of its site
        apps = list(calls(frame.fi, f"{it.id}.append"))
        others = [c for c in calls(frame.fi) if isinstance(c.func, ast.Attribute) and isinstance(c.func.value, ast.Name) and c.func.value.id == it.id
                  and c.func.attr in ("extend", "insert", "__iadd__")]
        augs = [x for x in walk_no_nested(frame.fi.node) if isinstance(x, ast.AugAssign) and isinstance(x.target, ast.Name) and x.target.id == it.id]
        if apps and not others and not augs and all(len(c.args) == 1 for c in apps):
            res = None
            for c in apps:
                got = _value_facts(ctx, frame, c.args[0], depth - 1) + _about(ctx, frame, c.args[0])
                res = got if res is None else [f for f in res if any(_fkey(f) == _fkey(g) and f.pos == g.pos for g in got)]
            return res or []
        return []
    return []


def _single_return(fi: FuncInfo):
    """the expression a function made of one `return E` (after a docstring) returns, else None"""
    body = [st for st in fi.node.body if not (isinstance(st, ast.Expr) and isinstance(st.value, ast.Constant))]
    if len(body) == 1 and isinstance(body[0], ast.Return) and body[0].value is not None:
        return body[0].value
    return None


def _as_predicate(ctx: Ctx, frame: _Frame, pred: ast.AST, depth: int = 3):
    """
    (variable, condition over it) for a one-argument predicate however it is spelled: a lambda, a local bound to one, a NEW
    one-expression function, functools.partial of such a function with its leading arguments bound, or an instance of a small
    NEW class whose __call__ is one expression (its attributes are the constructor arguments).  None when it cannot be read.
    """
    pred = strip_cast(pred)
    if depth <= 0:
        return None
    if isinstance(pred, ast.Lambda):
        if len(_lambda_params(pred)) == 1 and len(pred.args.args) == 1:
            return pred.args.args[0].arg, pred.body
        return None
    if isinstance(pred, ast.Name):
        sd = single_def(frame.fi, pred.id)
        if sd is not None and sd[1] is None:
            return _as_predicate(ctx, frame, sd[0], depth - 1)

    def new_function(f: ast.AST):
        try:
            if isinstance(f, ast.Name):
                r = ctx.repo.resolve_name(frame.fi.module, f.id)
                if isinstance(r, FuncInfo) and _is_new(r):
                    return r, None
            if isinstance(f, ast.Attribute) and isinstance(f.value, ast.Name) and f.value.id in ("self", "cls") and frame.fi.cls is not None:
                t = frame.fi.cls.lookup(f.attr)
                if t is not None and _is_new(t):
                    return t, f.value
        except Exception:  # noqa: BLE001
            return None
        return None

    def instantiate(t: FuncInfo, recv, bound: list[ast.AST], kws: dict):
        ret = _single_return(t)
        a = t.node.args
        if ret is None or a.vararg or a.kwarg or a.kwonlyargs:
            return None
        names = [x.arg for x in a.posonlyargs + a.args]
        env: dict[str, ast.AST] = {}
        if t.cls is not None and "staticmethod" not in t.decorator_names():
            if not names:
                return None
            if recv is not None and not (isinstance(recv, ast.Name) and recv.id == names[0]):
                env[names[0]] = recv
            names = names[1:]
        if len(bound) > len(names) or set(kws) - set(names):
            return None
        env.update(zip(names, bound))
        env.update(kws)
        free = [n for n in names if n not in env]
        if len(free) != 1:
            return None
        return free[0], _simp(_subst(ret, env))
    got = new_function(pred)
    if got is not None:
        return instantiate(got[0], got[1], [], {})
    if isinstance(pred, ast.Call) and _libfn(pred.func) == "partial" and pred.args and not any(isinstance(x, ast.Starred) for x in pred.args) \
            and not any(k.arg is None for k in pred.keywords):
        got = new_function(strip_cast(pred.args[0]))
        if got is not None:
            return instantiate(got[0], got[1], [_canon(frame, x) for x in pred.args[1:]], {k.arg: _canon(frame, k.value) for k in pred.keywords})
    if isinstance(pred, ast.Call):
        rec = _record_ctor(pred)
        if rec is not None and _is_new_class(rec[0]) and rec[0].lookup("__call__") is not None and "__post_init__" not in rec[0].methods:
            canon_call = ast.Call(func=pred.func, args=[_canon(frame, x) for x in pred.args],
                                  keywords=[ast.keyword(arg=k.arg, value=_canon(frame, k.value)) for k in pred.keywords])
            return instantiate(rec[0].lookup("__call__"), canon_call, [], {})
    if isinstance(pred, ast.Call):
        # a combinator of the standard library applied to the element: partial(eq, wanted)(x) is wanted == x, methodcaller / itemgetter likewise
        var = "__elem__"
        applied = _simp(ast.Call(func=pred, args=[ast.Name(id=var, ctx=ast.Load())], keywords=[]))
        if isinstance(applied, (ast.Compare, ast.BoolOp, ast.UnaryOp, ast.BinOp)):
            return var, applied
    return None


def _is_new_class(ci) -> bool:
    tab = load_table().get(ci.module.relpath)
    return tab is None or not any(q.split(".")[0] == ci.name for q in tab)


def _about(ctx: Ctx, frame: _Frame, e: ast.AST) -> list[Fact]:
    """Site facts that speak about the value of expression e, rewritten over the placeholder _V."""
    txt = _ctext(frame, e)
    out = []
    for f in _site_facts(ctx, frame, e):
        le, ri = _rewrite_text(f.left, txt), _rewrite_text(f.right, txt) if f.right is not None else None
        if le is not f.left or (ri is not None and ri is not f.right):
            out.append(Fact(f.op, le, ri, f.pos, f.atom))
    return out


def _rewrite_text(e: ast.AST, txt: str) -> ast.AST:
    """e with every sub-expression whose text is txt replaced by the placeholder (e itself when nothing matched)."""
    hits = [x for x in ast.walk(e) if isinstance(x, ast.expr) and norm(x) == txt]
    if not hits:
        return e
    out = e
    for h in hits[:1]:
        out = _replace(out, h, ast.Name(id=_V, ctx=ast.Load()))
    while True:
        more = [x for x in ast.walk(out) if isinstance(x, ast.expr) and not (isinstance(x, ast.Name) and x.id == _V) and norm(x) == txt]
        if not more:
            return out
        out = _replace(out, more[0], ast.Name(id=_V, ctx=ast.Load()))


def _produced_facts(ctx: Ctx, frame: _Frame, depth: int) -> list[Fact]:
    """Facts about every element a helper produces: its yields, or the iterable it returns."""
    per = []
    fn = frame.fi.node
    ys = [x for x in walk_no_nested(fn) if isinstance(x, ast.Yield) and x.value is not None]
    yf = [x for x in walk_no_nested(fn) if isinstance(x, ast.YieldFrom)]
    if ys or yf:
        for y in ys:
            per.append(_value_facts(ctx, frame, y.value, depth) + _about(ctx, frame, y.value))
        for y in yf:
            per.append(_elem_facts(ctx, frame, y.value, depth))
    else:
        for r in [x for x in walk_no_nested(fn) if isinstance(x, ast.Return) and x.value is not None]:
            v = strip_cast(r.value)
            if isinstance(v, (ast.List, ast.Tuple)) and not v.elts:
                continue
            per.append(_elem_facts(ctx, frame, r.value, depth))
    if not per:
        return []
    out = per[0]
    for other in per[1:]:
        out = [f for f in out if any(_fkey(f) == _fkey(g) and f.pos == g.pos for g in other)]
    return out


def _binding_of(fi: FuncInfo, use: ast.Name):
    """How the name read at `use` is bound: ('comp', comprehension) | ('for', For stmt) | ('assign', value, index) | ('param',) | None."""
    cur, p = use, parent(use)
    while p is not None and not isinstance(p, ast.stmt):
        if isinstance(p, _COMPS):
            for g in p.generators:
                if use.id in names_in(g.target) and cur is not g:
                    return ("comp", g)
            # `cur` may be one of the generators: names bound by EARLIER generators are visible in it
            if isinstance(cur, ast.comprehension):
                for g in p.generators:
                    if g is cur:
                        break
                    if use.id in names_in(g.target):
                        return ("comp", g)
        cur, p = p, parent(p)
    defs = local_defs(fi, use.id)
    if use.id in fi.params():
        return ("param",) if not defs else None
    if len(defs) > 1 and _CTX is not None:
        defs = _reaching(fi, use, defs)
    if len(defs) == 1:
        st, val, idx = defs[0]
        if isinstance(st, (ast.For, ast.AsyncFor)):
            return ("for", st)
        if val is not None:
            return ("assign", val, idx)
    return None


_CTX: Ctx | None = None          # the rule context of the running check (for CFGs in helpers that only get a FuncInfo)


def _use(ctx: Ctx) -> None:
    global _CTX  # noqa: PLW0603
    _CTX = ctx


def _reaching(fi: FuncInfo, use: ast.AST, defs: list) -> list:
    """The definitions of a local that can reach `use` (paths that do not pass another definition of it)."""
    try:
        cfg = _CTX.cfg(fi)
        use_nodes = set(cfg.nodes_for(use))
        if not use_nodes:
            return defs
        out = []
        for st, val, idx in defs:
            dn = cfg.nodes_for(st)
            others = {n for s2, _, _ in defs if s2 is not st for n in cfg.nodes_for(s2)} - use_nodes - set(dn)
            starts = [v for d in dn for v, lab in d.succ if lab != "exc"]
            if use_nodes & set(dn) and isinstance(st, (ast.For, ast.AsyncFor, ast.While)):
                out.append((st, val, idx))
                continue
            r = cfg.reach(starts, cut_nodes=others)
            if use_nodes & r:
                out.append((st, val, idx))
        return out
    except AnalysisError:
        return defs


def _target_elem(target: ast.AST, it: ast.AST, name: str):
    """The iterable whose ELEMENTS `name` ranges over, for `for <target> in <it>`: sees through enumerate()."""
    it = strip_cast(it)
    if isinstance(target, ast.Name) and target.id == name:
        return it
    if isinstance(target, (ast.Tuple, ast.List)) and len(target.elts) == 2 and isinstance(target.elts[1], ast.Name) and target.elts[1].id == name \
            and isinstance(it, ast.Call) and chain(it.func) == "enumerate" and it.args:
        return it.args[0]
    return None


def _value_facts(ctx: Ctx, frame: _Frame, e: ast.AST, depth: int = 5) -> list[Fact]:  # noqa: PLR0911
    """Facts about the value of expression e that follow from where the value comes from (filtered iterable, helper, alias)."""
    e = strip_cast(e)
    if depth <= 0:
        return []
    if isinstance(e, ast.Name):
        b = _binding_of(frame.fi, e)
        if b is None:
            return []
        if b[0] == "comp":
            src = _target_elem(b[1].target, b[1].iter, e.id)
            return _elem_facts(ctx, frame, src, depth - 1) if src is not None else []
        if b[0] == "for":
            src = _target_elem(b[1].target, b[1].iter, e.id)
            return _elem_facts(ctx, frame, src, depth - 1) if src is not None else []
        if b[0] == "param":
            if e.id in frame.raw and frame.caller is not None:
                return _value_facts(ctx, frame.caller, frame.raw[e.id], depth - 1) + _about(ctx, frame.caller, frame.raw[e.id])
            return []
        if b[0] == "assign" and b[2] is None:
            return _value_facts(ctx, frame, b[1], depth - 1)
        return []
    if isinstance(e, ast.Call) and chain(e.func) == "next" and e.args:
        src = strip_cast(e.args[0])
        if isinstance(src, ast.Name):
            sd = single_def(frame.fi, src.id)
            src = strip_cast(sd[0]) if sd is not None and sd[1] is None else src
        if isinstance(src, ast.Call) and (chain(src.func) or "").rsplit(".", 1)[-1] == "dropwhile" and len(src.args) == 2 and not src.keywords:
            lam = _as_predicate(ctx, frame, src.args[0])          # next(dropwhile(p, xs)): the first element that does not satisfy p
            first = _renamed_facts(frame, [lam[1]], lam[0], False) if lam is not None else []
            return first + _elem_facts(ctx, frame, src.args[1], depth - 1)
        return _elem_facts(ctx, frame, e.args[0], depth - 1)
    if isinstance(e, ast.Subscript) and not isinstance(e.slice, ast.Slice):
        return _elem_facts(ctx, frame, e.value, depth - 1)
    if isinstance(e, ast.IfExp):
        a, b = _value_facts(ctx, frame, e.body, depth - 1), _value_facts(ctx, frame, e.orelse, depth - 1)
        if isinstance(strip_cast(e.orelse), ast.Constant) and strip_cast(e.orelse).value is None:
            return a
        if isinstance(strip_cast(e.body), ast.Constant) and strip_cast(e.body).value is None:
            return b
        return [f for f in a if any(_fkey(f) == _fkey(g) and f.pos == g.pos for g in b)]
    return []


def _holds_eq(ctx: Ctx, frame: _Frame, value: ast.AST, site: ast.AST, shape, want: str) -> bool:
    """
    Is `shape(value) == want` known at site?  shape(text) gives the text of the compared term for a value spelled `text`
    (identity for a plain equality, lambda t: f"sha1({t}).digest()" for a hash).  `want` is canonical text.
    """
    vt = _ctext(frame, value)
    if shape(vt) == want:
        return True
    for f in _site_facts(ctx, frame, site):
        if f.op == "eq" and f.pos and f.right is not None and {norm(f.left), norm(f.right)} == {shape(vt), want}:
            return True
    for f in _value_facts(ctx, frame, value):
        if f.op == "eq" and f.pos and f.right is not None and {norm(f.left), norm(f.right)} == {shape(_V), want}:
            return True
    return False


def _check_answer_counted(ctx: Ctx) -> None:
    """
    BonehExactAlgorithm.process_challenge_response(aggregate, challenge, response) is evaluated (finite-model interpretation,
    the module-level helper followed) for each possible decoded answer 0, 1, 2, 3 on aggregates with different counts: the
    aggregate the caller passed in (the community ignores the return value) must afterwards count exactly one more answer in
    exactly that answer's bucket.  The profile is reconstructed by counting; bucket 3 ("neither 0, 1 nor 2") is the one no
    value's profile contains, so counting it is what makes a value with another profile score zero.
    """
    fi = ctx.repo.method("BonehExactAlgorithm", "process_challenge_response", "ipv8/attestation/wallet/bonehexact/algorithm.py")
    if len(fi.params()) != 4:
        raise AnalysisError(f"anchor-lost: {fi.qualname} no longer takes (aggregate, challenge, response)")
    bad = None
    runs = 0
    try:
        for start in ((0, 0, 0, 0), (2, 0, 1, 0), (1, 3, 2, 1)):
            for answer in range(4):
                agg = dict(enumerate(start))
                try:
                    ret = _Model(ctx.repo).call(fi, [_Obj("self", cls=fi.cls), agg, b"challenge", bytes([answer])])
                except _Raised as r:
                    ret = None
                    agg = f"raises {r.kind}"
                runs += 1
                want = dict(enumerate(start))
                want[answer] += 1
                if agg != want or (isinstance(ret, dict) and ret != want):
                    bad = bad or (answer, dict(enumerate(start)), agg)
    except _NoModel as e:
        raise AnalysisError(f"undecided: {fi.qualname}: finite-model evaluation stopped at {e}") from None
    why = ""
    if bad is not None:
        why = (f"BonehExactAlgorithm.process_challenge_response does not count every answer exactly once in its own bucket: for the decoded answer {bad[0]} the "
               f"aggregate {bad[1]} becomes {bad[2]}. The bit-pair profile is reconstructed by counting answers; an answer that is dropped (in particular 3 = 'not a "
               "bit-pair sum', the bucket no value's profile contains) lets a prover hide the bit-pairs that contradict the claimed value, and a value with another "
               "profile gets a non-zero score")
    ctx.check(bad is None, "protocol-shape", fi, fi.node, "every challenge answer (0, 1, 2, 3) is counted once in its bucket of the aggregate", why,
              facts=[f"{runs} model runs"])


def _check_range_certainty(ctx: Ctx, pb: FuncInfo) -> None:
    """
    certainty(value, aggregate) is evaluated (finite-model interpretation, helpers followed) on every aggregate with zero to
    three recorded check results, for an attestation entry that is None or an object, and for both claimed values: it must be
    "in range" exactly when at least one response was recorded and none of them failed.  How the fold is spelled (loop,
    all()/sum()/reduce, a helper, keys()+lookup, continue guards) is irrelevant.
    """
    if len(pb.params()) != 3:
        raise AnalysisError(f"anchor-lost: {pb.qualname} no longer takes (value, aggregate)")
    keys = (b"challenge-1", b"challenge-2", b"challenge-3")
    vacuous = wrong = None
    runs = 0
    try:
        for att in (None, "obj"):
            for nresp in range(4):
                for verdicts in itertools.product((True, False), repeat=nresp):
                    for claimed in (True, False):
                        agg = {"attestation": None if att is None else _Obj("attestation")}
                        agg.update(zip(keys, verdicts))
                        try:
                            got = _Model(ctx.repo).call(pb, [_Obj("self", cls=pb.cls), _struct.pack(">?", claimed), agg])
                        except _Raised as r:
                            got = f"raises {r.kind}"
                        runs += 1
                        in_range = nresp >= 1 and all(verdicts)
                        want = 1.0 if in_range == claimed else 0.0
                        if isinstance(got, (int, float)) and not isinstance(got, _Obj) and got == want:
                            continue
                        if nresp == 0 and claimed and vacuous is None:
                            vacuous = got
                        elif wrong is None:
                            wrong = (dict(zip(keys, verdicts)), claimed, got, want)
    except _NoModel as e:
        raise AnalysisError(f"undecided: {pb.qualname}: finite-model evaluation stopped at {e}") from None
    ok = vacuous is None and wrong is None
    if vacuous is not None:
        why = ("PengBaoRangeAlgorithm.certainty accepts vacuously: with no verified challenge response the aggregate yields certainty "
               f"{vacuous}, so a proof built for a value outside the range is accepted before any answer was checked")
    elif wrong is not None:
        why = (f"PengBaoRangeAlgorithm.certainty is not 'at least one response and every response verified': for the recorded check results "
               f"{list(wrong[0].values())} and the claim in-range={wrong[1]} it yields {wrong[2]} instead of {wrong[3]}, so a failed range check is "
               "accepted (or a fully verified proof rejected)")
    else:
        why = ""
    ctx.check(ok, "protocol-shape", pb, pb.node, "range certainty is 1 only with at least one response and all responses verified", why,
              facts=[f"{runs} model aggregates evaluated"])


_MUTABLE_CTORS = {"dict", "list", "set", "defaultdict", "OrderedDict", "Counter", "deque", "WeakValueDictionary", "WeakKeyDictionary", "bytearray", "ChainMap"}


def _module_state_reads(ctx: Ctx, root: FuncInfo) -> list[str]:
    """
    Module-level MUTABLE state a function (or a NEW helper it calls) can read or write: names of module-level containers (dict /
    list / set displays, comprehensions, dict() / defaultdict() / ... calls) it mentions, `global` declarations, and parameters
    with a mutable default (the def-time object is shared by all calls).  Constants (tuples, numbers, strings, frozen tables that
    are only read are still containers - they are reported too and the caller decides by evaluation).
    """
    out: list[str] = []

    def mutable(e: ast.AST) -> bool:
        e = strip_cast(e)
        if isinstance(e, (ast.Dict, ast.List, ast.Set, ast.DictComp, ast.ListComp, ast.SetComp)):
            return True
        return isinstance(e, ast.Call) and (chain(e.func) or "").rsplit(".", 1)[-1] in _MUTABLE_CTORS
    for fr in _frames(ctx, root):
        fi = fr.fi
        a = fi.node.args
        for d in list(a.defaults) + [d for d in a.kw_defaults if d is not None]:
            if mutable(d):
                out.append(f"{fi.qualname}: mutable default `{norm(d)[:30]}`")
        bound = set(fi.params())
        for n in ast.walk(fi.node):
            if isinstance(n, ast.Name) and isinstance(n.ctx, (ast.Store, ast.Del)):
                bound.add(n.id)
        declared_global = {g for n in ast.walk(fi.node) if isinstance(n, (ast.Global, ast.Nonlocal)) for g in n.names}
        for g in sorted(declared_global):
            out.append(f"{fi.qualname}: global {g}")
        for n in ast.walk(fi.node):
            if isinstance(n, ast.Name) and isinstance(n.ctx, ast.Load) and n.id not in bound - declared_global:
                try:
                    r = ctx.repo.resolve_name(fi.module, n.id)
                except Exception:  # noqa: BLE001
                    r = None
                if isinstance(r, tuple) and r and r[0] == "const" and mutable(r[2]):
                    text = f"{fi.qualname}: module-level `{n.id} = {norm(r[2])[:30]}`"
                    if text not in out:
                        out.append(text)
            if isinstance(n, ast.Attribute) and isinstance(n.value, ast.Name) and n.value.id == fi.name and fi.cls is None:
                out.append(f"{fi.qualname}: function attribute {fi.name}.{n.attr}")
    return out


def _check_decode_stateless(ctx: Ctx) -> None:
    """
    boneh.decode(privkey, msgspace, c) is what the honest prover answers challenges with (and what opens the private range data): the
    message it finds must be a function of the key, the message space and the ciphertext it was GIVEN.  If decode (or a new helper
    it calls) touches module-level mutable state, it is interpreted twice on model values - in a fresh interpreter, and in one that
    has already decoded under another private key whose objects were freed and whose addresses the new key's objects received
    (CPython recycles id() values) - and both runs must give the same answer.  A function without such state is trivially so.
    """
    bp = "ipv8/attestation/wallet/primitives/boneh.py"
    fi = ctx.repo.func(bp, "decode")
    if len(fi.params()) != 3:
        raise AnalysisError(f"anchor-lost: {fi.qualname} no longer takes (privkey, msgspace, c)")
    state = _module_state_reads(ctx, fi)
    bad = ""
    facts = ["reads no module-level mutable state"]
    if state:
        facts = state[:4]
        fp = ctx.repo.cls("FP2Value", VP)
        key_cls = ctx.repo.cls("BonehPrivateKey", PS)
        p, n, t1, space = 1000003, 35, 5, [0, 1, 2]

        def scenario(with_history: bool):
            m = _Model(ctx.repo, budget=3000000)

            def key(ga, gb):
                g = m.instantiate(fp, [p, ga, gb], {})
                h = m.instantiate(fp, [p, gb + 1, ga + 2], {})
                return m.instantiate(key_cls, [p, g, h, n, t1], {}), g, h

            def run(k, g, msg):
                c = m.call(fp.methods["intpow"], [g, msg], {})
                try:
                    return m.call(fi, [k, list(space), c], {})
                except _Raised as r:
                    return f"raises {r.kind}"
            first = None
            if with_history:
                old = key(2, 3)
                first = run(old[0], old[1], 1)
            new = key(5, 7)
            if with_history:
                for o, nobj in zip(old, new):                    # the old key was freed; the new key's objects were allocated at its addresses
                    m.same_address[id(nobj)] = id(o)
            return first, [run(new[0], new[1], msg) for msg in (2, 1, 0)]
        try:
            _, fresh = scenario(False)
            first, stale = scenario(True)
        except _NoModel as e:
            raise AnalysisError(f"undecided: {fi.qualname} keeps state between calls ({state[0]}) and model evaluation of two consecutive keys stopped at {e}") from None
        if fresh != [2, 1, 0]:
            raise AnalysisError(f"undecided: {fi.qualname}: the model ciphertexts g^2, g^1, g^0 decode to {fresh} in a fresh interpreter")
        if stale != fresh:
            bad = (f"boneh.decode keeps state between calls ({'; '.join(state[:2])}) and its answer depends on it: after decoding under one private key, the ciphertexts "
                   f"g^2, g^1, g^0 of a second key whose objects received the freed key's addresses (id() values are recycled) decode to {stale} instead of {fresh}. "
                   "The honest prover then answers bit-pair challenges with the wrong / no message (or crashes on the modulus assertion), so the true value no longer "
                   "scores 1-2^-n; PengBaoCommitmentPrivate.decode is hit the same way")
    ctx.check(not bad, "protocol-shape", fi, fi.node, "decode's answer depends only on the key, message space and ciphertext it is given (no state carried between keys)", bad,
              facts=facts)


_LOCK_CTORS = {"Lock", "RLock"}


def _is_lock_expr(ctx: Ctx, frame: _Frame, e: ast.AST, _depth: int = 0):
    """True: e names a threading.Lock / RLock object (module-level constant, class or instance attribute); False: something else; None: not known"""
    e = strip_cast(e)
    if isinstance(e, ast.Name) and e.id not in frame.fi.params():
        sd = single_def(frame.fi, e.id)
        if sd is not None and sd[1] is None:
            return _is_lock_expr(ctx, frame, sd[0])
        if local_defs(frame.fi, e.id):
            return None
        try:
            r = ctx.repo.resolve_name(frame.fi.module, e.id)
        except Exception:  # noqa: BLE001
            return None
        if isinstance(r, tuple) and r and r[0] == "const":
            v = strip_cast(r[2])
            if isinstance(v, ast.Call):
                return (chain(v.func) or "").rsplit(".", 1)[-1] in _LOCK_CTORS and not v.args and not v.keywords
            return False if isinstance(v, ast.Constant) else None
        return None
    if isinstance(e, ast.Attribute):
        found = None
        for ci in ctx.repo.all_classes():
            vals = []
            if e.attr in ci.attrs:
                vals.append(ci.attrs[e.attr])
            for m in ci.methods.values():
                for st in walk_no_nested(m.node):
                    if isinstance(st, (ast.Assign, ast.AnnAssign)) and st.value is not None:
                        tg = st.targets if isinstance(st, ast.Assign) else [st.target]
                        if any(isinstance(t, ast.Attribute) and t.attr == e.attr and isinstance(t.value, ast.Name) and t.value.id == "self" for t in tg):
                            vals.append(st.value)
            getter = ci.methods.get(e.attr)
            if getter is not None and "property" in getter.decorator_names() and _depth < 3:
                r = _single_return(getter)
                r = strip_cast(r) if r is not None else None
                back = _is_lock_expr(ctx, frame, r, _depth + 1) if isinstance(r, ast.Attribute) and isinstance(r.value, ast.Name) and r.value.id == "self" else None
                if found is not None and found != back or back is None:
                    return None
                found = back
            for v in vals:
                v = strip_cast(v)
                is_l = isinstance(v, ast.Call) and (chain(v.func) or "").rsplit(".", 1)[-1] in _LOCK_CTORS and not v.args and not v.keywords
                if found is not None and found != is_l:
                    return None
                found = is_l
        return found
    return None


def _check_count_atomic(ctx: Ctx) -> None:
    """
    bonehexact.attestation.process_challenge_response(relativity_map, response) counts one answer: `relativity_map[response] += 1` reads the
    count and writes it back.  The relativity map of one verification is shared by everything that feeds answers into it, and the module
    provides multithread_update_lock for exactly this update: every statement that updates the map (in the function, in a NEW helper it
    calls, or in the body behind a NEW decorator) must execute while a threading.Lock / RLock is held - inside `with lock:`, between
    lock.acquire() and lock.release() on every path, inside a wrapper that holds it around the call, or (closed set of callers) because every
    call of the function in the repository is made with the lock held.  Without it two answers processed by different threads can both
    read the old count and one of them is lost: the counted profile falls short of the true value's profile.
    """
    ap = "ipv8/attestation/wallet/bonehexact/attestation.py"
    fi = ctx.repo.func(ap, "process_challenge_response")
    frames = _frames(ctx, fi)
    params = _root_params(frames, fi)
    if len(params) != 2:
        raise AnalysisError(f"anchor-lost: {fi.qualname} no longer takes (relativity_map, response)")
    mp = params[0]
    sites = []
    for fr in frames:
        for n in walk_no_nested(fr.fi.node):
            tgts = []
            if isinstance(n, ast.AugAssign):
                tgts = [n.target]
            elif isinstance(n, ast.Assign):
                tgts = list(n.targets)
            elif isinstance(n, ast.AnnAssign) and n.value is not None:
                tgts = [n.target]
            elif isinstance(n, ast.Delete):
                tgts = list(n.targets)
            elif isinstance(n, ast.Call) and isinstance(n.func, ast.Attribute) and n.func.attr in ("update", "__setitem__", "setdefault", "pop", "clear", "subtract", "popitem"):
                if _ctext(fr, n.func.value) == mp:
                    sites.append((fr, n))
                continue
            elif isinstance(n, ast.Call) and (chain(n.func) or "").rsplit(".", 1)[-1] in ("setitem", "delitem") and n.args and _ctext(fr, n.args[0]) == mp:
                sites.append((fr, n))
                continue
            flat = []
            for t in tgts:
                flat.extend(t.elts if isinstance(t, (ast.Tuple, ast.List)) else [t])
            if any(isinstance(t, ast.Subscript) and _ctext(fr, t.value) == mp for t in flat):
                sites.append((fr, n))
    ctx.anchor(sites, "bonehexact.attestation.process_challenge_response updates the relativity map it is given")
    unknown: list[str] = []

    def held(fr: _Frame, node: ast.AST, depth: int = 0) -> bool:
        for anc in [node, *ancestors(node)]:
            if anc is fr.fi.node:
                break
            if isinstance(anc, (ast.FunctionDef, ast.AsyncFunctionDef, ast.Lambda)):
                return False                                  # a nested function: runs whenever it is called, not under the enclosing `with`
            if isinstance(anc, (ast.With, ast.AsyncWith)):
                for it in anc.items:
                    ce = strip_cast(it.context_expr)
                    if isinstance(ce, ast.Call) and isinstance(anc, ast.With) and depth < 3:
                        # `with helper():` where helper is a NEW @contextmanager generator: its body up to the yield runs before the block, so the
                        # block runs under whatever lock is held at (every) yield
                        cms = [t for t in _new_callees(ctx, fr, ce) if any(d.rsplit(".", 1)[-1] == "contextmanager" for d in t.decorator_names())]
                        if len(cms) == 1:
                            cf = _bind_call(ctx, fr, ce, cms[0])
                            ys = [y for y in walk_no_nested(cms[0].node) if isinstance(y, ast.Yield)]
                            if cf is not None and ys and all(held(_Frame(cms[0], cf.bind, cf.raw), y, 3) for y in ys):
                                return True
                            continue
                    k = _is_lock_expr(ctx, fr, it.context_expr)
                    if k is True and isinstance(anc, ast.With):
                        return True
                    if k is None:
                        unknown.append(f"`with {norm(it.context_expr)[:40]}:` in {fr.fi.qualname}")
        cfg = ctx.cfg(fr.fi)
        acq, rel = [], []
        for c in calls(fr.fi):
            if isinstance(c.func, ast.Attribute) and c.func.attr in ("acquire", "release"):
                k = _is_lock_expr(ctx, fr, c.func.value)
                if k is None:
                    unknown.append(f"`{norm(c)[:40]}` in {fr.fi.qualname}")
                if k is True and c.func.attr == "release":
                    rel.extend(cfg.nodes_for(c))
                elif k is True and not c.args and not c.keywords:
                    acq.extend(cfg.nodes_for(c))
        here = [n for n in cfg.nodes_for(node) if cfg.reachable(n)]
        if acq and here:
            after_release = cfg.reach([v for r in rel for v, lab in r.succ if lab != "exc"], cut_nodes=acq) if rel else set()
            if all(cfg.must_complete(n, acq) and n not in after_release for n in here):
                return True
        if fr.caller is not None and fr.call is not None:
            return held(fr.caller, fr.call, depth)
        if depth == 0:
            # closed set of callers: every call of the function in the repository is made with the lock held
            outer = []
            for site in ctx.repo.callers_of_name(fr.fi.name):
                caller, call = site[-2], site[-1]
                if caller is None:
                    return False
                try:
                    targets = ctx.repo.resolve_call(caller, call)
                except Exception:  # noqa: BLE001
                    targets = []
                if any(t.node is fi.node for t in targets):
                    outer.append((caller, call))
            if outer and fr.fi.node is fi.node and all(held(_Frame(c), k, 1) for c, k in outer):
                return True
        return False

    for fr, n in sites:
        ok = held(fr, n)
        if not ok and unknown:
            raise AnalysisError(f"undecided: {fi.qualname}: the relativity map is updated under {unknown[0]}, which is not known to be a lock")
        ctx.check(ok, "protocol-shape", fi, n, "the answer count in the relativity map is updated while a lock is held",
                  f"{fr.fi.qualname}: `{norm(n)[:60]}` updates the relativity map without holding a lock (not inside `with lock:`, not between acquire() and "
                  "release() on every path, no wrapper or caller holds one): the update reads the count and writes it back, so two answers of one verification that are "
                  "processed by different threads can both read the old count and one honest answer is lost - the verifier no longer reconstructs the bit-pair profile "
                  "of the true value, which then scores below 1-2^-n after all n answers")


_BX_PKG = "ipv8/attestation/wallet/bonehexact/"
_BX_ALG = _BX_PKG + "algorithm.py"
_BX_ATT = _BX_PKG + "attestation.py"
_FORMATS = "ipv8/attestation/default_identity_formats.py"


def _honest_profile(value, bitspace) -> dict:
    """
    The answer counts an honest prover produces for attest(PK, value, bitspace): the bits of value, left-padded to bitspace,
    taken in adjacent pairs; each pair is answered with the sum of its two bits (0, 1 or 2).  Reference arithmetic of the
    check, written from the definition of the bit-pair attestation - not read from the analysed code.
    """
    if not (isinstance(value, int) and not isinstance(value, bool) and value >= 0 and isinstance(bitspace, int) and not isinstance(bitspace, bool) and 0 < bitspace <= 4096):
        raise _NoModel(f"attest() reached with value/bitspace outside the modelled domain ({type(value).__name__}, {bitspace!r})")
    bits = [int(c) for c in bin(value)[2:]]
    bits = [0] * (bitspace - len(bits)) + bits
    out = {0: 0, 1: 0, 2: 0, 3: 0}
    for i in range(0, len(bits) - 1, 2):
        out[bits[i] + bits[i + 1]] += 1
    return out


def _hash_mode_candidates(repo) -> list[str]:
    """every short string constant of the bonehexact package and of the shipped format table: the hash modes the constructor could name"""
    out: list[str] = []
    for rel, m in sorted(repo.by_relpath.items()):
        if not (rel.startswith(_BX_PKG) or rel == _FORMATS):
            continue
        for n in ast.walk(m.tree):
            if isinstance(n, ast.Constant) and isinstance(n.value, str) and 0 < len(n.value) <= 32 and " " not in n.value and n.value not in out:
                out.append(n.value)
    for reviewed in ("sha256", "sha256_4", "sha512"):
        if reviewed not in out:
            out.append(reviewed)
    return out


def _check_hash_pairing(ctx: Ctx) -> None:
    """
    REFUTE-ONLY (model evaluation on sample values; a pass claims nothing beyond the runs made).  For every hash mode that
    BonehExactAlgorithm.__init__ accepts (candidates: the string constants of the bonehexact package and of the shipped format
    table) an algorithm object is built by finite-model interpretation and its two public faces are interpreted on a few byte
    strings: attest(PK, value) - with the randomised module-level attest(PK, int, bitspace) replaced by a recorder - tells which
    integer over how many bits is attested, i.e. which answers an honest prover gives; certainty(value, aggregate) is then
    interpreted on exactly that aggregate of honest answers.  It must score 1 - 2^-n for the attested value (n bit pairs), and 0
    for a sample value whose attested profile differs.  How the mode is wired to its (attest, reference profile) functions -
    if/elif chain, table, getattr, partial, a spec object - is irrelevant; a mode whose reference profile is computed from another
    hash or another bit count than its attestation scores the true value 0.
    """
    repo = ctx.repo
    ci = repo.cls("BonehExactAlgorithm", _BX_ALG)
    generic = repo.func(_BX_ATT, "attest")
    init = ci.lookup("__init__")
    for nm in ("attest", "certainty"):
        if ci.lookup(nm) is None:
            raise AnalysisError(f"anchor-lost: BonehExactAlgorithm.{nm}")
    gparams = generic.params()
    if init is None or len(gparams) != 3:
        raise AnalysisError("anchor-lost: BonehExactAlgorithm.__init__ / attest(PK, value, bitspace)")
    samples = (b"attribute value", b"", b"\x00\xff" * 24)
    accepted: list[str] = []
    bad = None
    runs = 0
    try:
        for mode in _hash_mode_candidates(repo):
            profiles = []
            for v in samples:
                rec: list = []

                def record(args, kwargs, rec=rec):
                    bound = dict(zip(gparams, args))
                    bound.update(kwargs)
                    if set(bound) != set(gparams):
                        raise _NoModel("attest() called with another signature")
                    rec.append((bound[gparams[1]], bound[gparams[2]]))
                    return _Obj("attestation", serialize=lambda: b"<attestation>")
                model = _Model(repo, budget=400000)
                model.stubs[(generic.module.relpath, generic.qualname)] = record
                try:
                    alg = model.instantiate(ci, ["fmt", {"fmt": {"algorithm": "bonehexact", "key_size": 32, "hash": mode}}], {})
                except _Raised:
                    break                                         # the constructor refuses this mode
                model.call_method(alg, "attest", [_Obj("PK"), v], {}, None)
                if len(rec) != 1:
                    raise _NoModel(f"BonehExactAlgorithm.attest reached attest(PK, value, bitspace) {len(rec)} times")
                prof = _honest_profile(*rec[0])
                profiles.append((v, prof, alg, model))
            else:
                accepted.append(mode)
                for v, prof, alg, model in profiles:
                    n = sum(prof.values())
                    want = 1 - 0.5 ** n
                    model.budget = 400000
                    try:
                        got = model.call_method(alg, "certainty", [v, dict(prof)], {}, None)
                    except _Raised as r:
                        got = f"raises {r.kind}"
                    runs += 1
                    if not (isinstance(got, (int, float)) and not isinstance(got, bool) and abs(got - want) < 1e-12) and bad is None:
                        bad = (mode, v, n, got, f"1 - 2^-{n}", "the attested value itself")
                    for w, other, _, _ in profiles:
                        if other == prof:
                            continue
                        model.budget = 400000
                        try:
                            got = model.call_method(alg, "certainty", [w, dict(prof)], {}, None)
                        except _Raised as r:
                            got = f"raises {r.kind}"
                        runs += 1
                        if not (isinstance(got, (int, float)) and not isinstance(got, bool) and got == 0) and bad is None:
                            bad = (mode, w, n, got, "0", f"a value with another bit-pair profile than the attested {v!r}")
    except _NoModel as e:
        raise AnalysisError(f"undecided: BonehExactAlgorithm hash-mode wiring: finite-model evaluation stopped at {e}") from None
    if not accepted:
        raise AnalysisError("anchor-lost: BonehExactAlgorithm.__init__ accepts none of the candidate hash modes")
    why = ""
    if bad is not None:
        why = (f"BonehExactAlgorithm wired for the hash mode {bad[0]!r}: attest() attests {bad[2]} bit pairs of the value's hash, but on the aggregate of exactly the "
               f"honest prover's {bad[2]} answers certainty({bad[1]!r}, aggregate) - {bad[5]} - yields {bad[3]} instead of {bad[4]}. The reference profile the "
               "verifier's aggregate is compared with (self.aggregate_reference / whatever certainty() derives it from) is not the bit-pair profile of the hash that "
               "attest() attests (self.attest_function): another hash function or another bit count, so the true value is not accepted (or another one is)")
    ctx.check(bad is None, "protocol-shape", init, init.node,
              "for every accepted hash mode certainty() scores the aggregate of the honest answers to attest()'s attestation 1 - 2^-n (refute-only, sample values)", why,
              facts=[f"modes accepted by the constructor: {', '.join(accepted)}", f"{runs} model runs"])


_FRESH_CTORS = {"dict", "defaultdict", "OrderedDict", "Counter", "list", "set", "dict.fromkeys", "collections.defaultdict", "collections.OrderedDict",
                "collections.Counter", "OrderedDict.fromkeys", "collections.OrderedDict.fromkeys"}
_COPY_FUNCS = {"copy", "deepcopy", "copy.copy", "copy.deepcopy"}
_MEMO_DECORATORS = {"cache", "lru_cache", "cached_property", "functools.cache", "functools.lru_cache", "functools.cached_property"}


def _scope_of(n: ast.AST):
    """the function / lambda / class / module whose namespace a binding at node n goes to (comprehension scopes ignored: they bind no outer name)"""
    for a in ancestors(n):
        if isinstance(a, (ast.FunctionDef, ast.AsyncFunctionDef, ast.Lambda, ast.ClassDef, ast.Module)):
            return a
    return None


def _created_in_call(ctx: Ctx, fi: FuncInfo, e: ast.AST, binds: dict | None = None, depth: int = 4, seen: frozenset = frozenset()):  # noqa: C901, PLR0911, PLR0912
    """
    Is the value of expression e (inside function fi) an object CREATED by the current call?  (True, "") when every way to compute
    it builds a new object (a dict / list / set display or comprehension, a call of a container constructor, a copy, a merge `a | b`,
    an instantiation of a class, a call of a function / a read of a property all of whose returns are created in that call and
    which is not memoised); (False, what) when some way to compute it yields an object that exists outside the call (an attribute
    of the instance / class / module, a module-level name, an entry of such a table, a parameter, a memoised helper); (None, what)
    when the expression is outside this reading.  `binds` maps the parameters of a followed helper to (caller FuncInfo, argument
    expression, caller's binds).  Immutable constants count as created (they cannot carry state).
    """
    repo = ctx.repo
    e = strip_cast(e)
    if isinstance(e, (ast.Dict, ast.DictComp, ast.List, ast.ListComp, ast.Set, ast.SetComp)):
        return True, ""
    if isinstance(e, ast.Constant):
        return True, ""
    if isinstance(e, ast.NamedExpr):
        return _created_in_call(ctx, fi, e.value, binds, depth, seen)
    if isinstance(e, ast.BinOp) and isinstance(e.op, ast.BitOr):
        return True, ""                                                     # dict | dict, set | set: a new object whatever the operands are
    if isinstance(e, (ast.IfExp, ast.BoolOp)):
        parts = [e.body, e.orelse] if isinstance(e, ast.IfExp) else list(e.values)
        verdicts = [_created_in_call(ctx, fi, p, binds, depth, seen) for p in parts]
        for want in (False, None):
            for v in verdicts:
                if v[0] is want:
                    return v
        return True, ""

    def returns_of(target: FuncInfo, tbinds: dict):
        if isinstance(target.node, ast.Lambda):
            return _created_in_call(ctx, target, target.node.body, tbinds, depth - 1, seen | {target})
        memo = [d for d in target.decorator_names() if d in _MEMO_DECORATORS]
        if memo:
            return False, f"the result of {target.qualname}, which @{memo[0]} computes once and then hands out again"
        scope = _scope_of(target.node)                                         # the module / class body the def lives in: the name must denote this def only
        if isinstance(scope, (ast.Module, ast.ClassDef)):
            for s in ast.walk(scope):
                rebound = (isinstance(s, ast.Name) and isinstance(s.ctx, (ast.Store, ast.Del)) and s.id == target.name and _scope_of(s) is scope) or \
                          (isinstance(s, (ast.FunctionDef, ast.AsyncFunctionDef)) and s is not target.node and s.name == target.name and _scope_of(s) is scope)
                if rebound:
                    return None, f"{target.qualname}, whose name is bound a second time in its module / class (line {getattr(s, 'lineno', '?')})"
        extra = [d for d in target.decorator_names() if d not in ("staticmethod", "classmethod", "property", "override", "typing.override")]
        if extra:
            return None, f"{target.qualname} is decorated with @{extra[0]}"
        if any(isinstance(n, (ast.Yield, ast.YieldFrom)) for n in walk_no_nested(target.node, include_root_defs=False)):
            return None, f"{target.qualname} is a generator"
        verdicts = [_created_in_call(ctx, target, r.value, tbinds, depth - 1, seen | {target})
                    for r in walk_no_nested(target.node, include_root_defs=False) if isinstance(r, ast.Return) and r.value is not None]
        for want in (False, None):
            for v in verdicts:
                if v[0] is want:
                    return v
        return True, ""

    if isinstance(e, ast.Call):
        c = chain(e.func) or ""
        target_is_repo = None
        if isinstance(e.func, ast.Name):
            try:
                target_is_repo = repo.resolve_name(fi.module, e.func.id)
            except Exception:  # noqa: BLE001
                target_is_repo = None
            if target_is_repo is not None and not isinstance(target_is_repo, FuncInfo) and not isinstance(target_is_repo, tuple):
                ci = target_is_repo                                            # a class of the repository: instantiation creates an object
                if getattr(ci, "lookup", None) is not None and ci.lookup("__new__") is None:
                    return True, ""
                return None, f"`{norm(e)[:40]}` (a class with its own __new__)"
        if not isinstance(target_is_repo, FuncInfo):
            if c in _FRESH_CTORS and (not isinstance(e.func, ast.Name) or not local_defs(fi, e.func.id)):
                return True, ""
            if c in _COPY_FUNCS and len(e.args) == 1:
                return True, ""
            if isinstance(e.func, ast.Attribute) and e.func.attr == "copy" and not e.args and not e.keywords:
                return True, ""                                               # x.copy(): a new container (dict / list / set / Counter ...)
            if isinstance(e.func, ast.Attribute) and e.func.attr in ("setdefault", "get", "__getitem__"):
                root = e.func.value                                           # table.setdefault(k, d) / table.get(k): an entry of the table, which outlives the call if the table does
                while isinstance(root, (ast.Attribute, ast.Subscript)):
                    root = root.value
                if isinstance(root, ast.Name) and (root.id in ("self", "cls") or (not isinstance(fi.node, ast.Lambda) and not local_defs(fi, root.id) and root.id not in fi.params())):
                    return False, f"`{norm(e)[:50]}`, an entry of a table stored on the instance / class / module: every call hands out the same object"
        if depth <= 0:
            return None, f"`{norm(e)[:40]}` (helper chain too deep)"
        try:
            targets = repo.resolve_call(fi, e)
        except Exception:  # noqa: BLE001
            targets = []
        targets = [t for t in targets if t.name != "__init__" or c.endswith("__init__")]
        if not targets and isinstance(e.func, ast.Attribute) and isinstance(e.func.value, ast.Name) and e.func.value.id in ("self", "cls") and fi.cls is not None:
            # self.factory(...) where `factory` is a FIELD holding a function (self.factory = helper in a method, factory = staticmethod(helper)
            # in the class body): every function the field can hold is followed; anything else assigned to it is outside this reading
            held: list = []
            for kls in fi.cls.mro():
                v = kls.lookup_attr(e.func.attr) if getattr(kls, "lookup_attr", None) is not None and kls is fi.cls else None
                if v is not None:
                    held.append((None, v))
                for meth in kls.methods.values():
                    for n in walk_no_nested(meth.node):
                        tv = None
                        if isinstance(n, ast.Assign):
                            tv = [(t, n.value) for t in n.targets]
                        elif isinstance(n, ast.AnnAssign) and n.value is not None:
                            tv = [(n.target, n.value)]
                        for t, val in tv or []:
                            if isinstance(t, ast.Attribute) and t.attr == e.func.attr and isinstance(t.value, ast.Name) and t.value.id in ("self", "cls"):
                                held.append((meth, val))
                            elif isinstance(t, (ast.Tuple, ast.List)) and any(isinstance(x, ast.Attribute) and x.attr == e.func.attr for x in ast.walk(t)):
                                return None, f"`{norm(e)[:40]}` (the field is bound by unpacking in {meth.qualname})"
            for meth, val in held:
                val = strip_cast(val)
                if isinstance(val, ast.Call) and chain(val.func) == "staticmethod" and len(val.args) == 1:
                    val = val.args[0]
                r = None
                if isinstance(val, ast.Name) and (meth is None or (not local_defs(meth, val.id) and val.id not in meth.params())):
                    try:
                        r = repo.resolve_name(fi.module if meth is None else meth.module, val.id)
                    except Exception:  # noqa: BLE001
                        r = None
                if not isinstance(r, FuncInfo):
                    return None, f"the result of `{norm(e)[:40]}` (the field can hold `{norm(val)[:30]}`)"
                if r not in targets:
                    targets.append(r)
            if targets:
                e = ast.Call(func=ast.Name(id="<field>", ctx=ast.Load()), args=e.args, keywords=e.keywords)   # plain call of the held function: no receiver to skip
        if not targets:
            return None, f"the result of `{norm(e)[:40]}` (callee not resolved)"
        verdicts = []
        for t in targets:
            if t in seen:
                continue
            if "abstractmethod" in " ".join(t.decorator_names()):
                continue
            params = t.params()
            pos = list(params)
            if t.cls is not None and "staticmethod" not in t.decorator_names() and isinstance(e.func, ast.Attribute) and pos:
                pos = pos[1:]
            tb: dict = {}
            if not any(isinstance(a, ast.Starred) for a in e.args) and not any(k.arg is None for k in e.keywords):
                for p, a in zip(pos, e.args):
                    tb[p] = (fi, a, binds)
                for k in e.keywords:
                    if k.arg in params:
                        tb[k.arg] = (fi, k.value, binds)
            verdicts.append(returns_of(t, tb))
        for want in (False, None):
            for v in verdicts:
                if v[0] is want:
                    return v
        return (True, "") if verdicts else (None, f"the result of `{norm(e)[:40]}` (only abstract / recursive targets)")
    if isinstance(e, ast.Name):
        declared = {g for n in ast.walk(fi.node) if isinstance(n, (ast.Global, ast.Nonlocal)) for g in n.names} if not isinstance(fi.node, ast.Lambda) else set()
        if e.id in declared:
            return False, f"`{e.id}`, a global / nonlocal variable of {fi.qualname}"
        defs = local_defs(fi, e.id) if not isinstance(fi.node, ast.Lambda) else []
        if defs:
            verdicts = []
            for _stmt, value, idx in defs:
                if value is None or idx is not None:
                    verdicts.append((None, f"`{e.id}` (bound by a loop / with / unpacking in {fi.qualname})"))
                else:
                    verdicts.append(_created_in_call(ctx, fi, value, binds, depth, seen))
            if e.id in fi.params():
                verdicts.append((False, f"the parameter `{e.id}` of {fi.qualname}") if not binds or e.id not in binds else
                                _created_in_call(ctx, binds[e.id][0], binds[e.id][1], binds[e.id][2], depth - 1, seen))
            for want in (False, None):
                for v in verdicts:
                    if v[0] is want:
                        return v
            return True, ""
        if e.id in fi.params():
            if binds and e.id in binds and depth > 0:
                cfi, arg, cb = binds[e.id]
                return _created_in_call(ctx, cfi, arg, cb, depth - 1, seen)
            if binds is not None:
                return None, f"the parameter `{e.id}` of the helper {fi.qualname}"
            return False, f"the parameter `{e.id}` of {fi.qualname} (the caller's object)"
        try:
            r = repo.resolve_name(fi.module, e.id)
        except Exception:  # noqa: BLE001
            r = None
        if isinstance(r, tuple) and r and r[0] == "const":
            if isinstance(strip_cast(r[2]), ast.Constant):
                return True, ""
            return False, f"the module-level object `{e.id} = {norm(r[2])[:40]}`, which is the same object for every call"
        return None, f"`{e.id}`"
    if isinstance(e, (ast.Attribute, ast.Subscript)):
        base = e
        while isinstance(base, (ast.Attribute, ast.Subscript)):
            base = base.value
        if isinstance(e, ast.Attribute) and isinstance(e.value, ast.Name) and e.value.id in ("self", "cls") and fi.cls is not None:
            getters = [g for g in repo.dispatch(fi.cls, e.attr) if "property" in " ".join(g.decorator_names())] if depth > 0 else []
            if getters:
                verdicts = [returns_of(g, {}) for g in getters if g not in seen]
                for want in (False, None):
                    for v in verdicts:
                        if v[0] is want:
                            return v
                return True, ""
        if isinstance(base, ast.Name):
            if base.id in ("self", "cls"):
                return False, f"`{norm(e)[:50]}`, an object stored on the instance: every call hands out the same object"
            if not isinstance(fi.node, ast.Lambda) and not local_defs(fi, base.id) and base.id not in fi.params():
                return False, f"`{norm(e)[:50]}`, an object stored at module / class level: every call hands out the same object"
        return None, f"`{norm(e)[:50]}`"
    return None, f"`{norm(e)[:50]}`"


def _check_aggregate_fresh(ctx: Ctx) -> None:
    """
    IdentityAlgorithm.create_certainty_aggregate(attestation) starts ONE verification: the community stores what it returns in the
    proving cache of that verification and process_challenge_response() counts the answers into it IN PLACE (checked above: the
    caller's object is updated).  The bit-pair profile the verifier reconstructs is therefore only the profile of the answers of
    this verification if the aggregate is an object created by that call - a dict display / comprehension, dict(...), a copy, or
    the result of a helper that creates one on every call (helpers, properties and parameters are followed) - and not an object
    that lives on the algorithm instance (the community keeps one instance per id_format), on the class or in the module.
    """
    repo = ctx.repo
    anchors = {("BonehExactAlgorithm", "ipv8/attestation/wallet/bonehexact/algorithm.py"), ("PengBaoRangeAlgorithm", "ipv8/attestation/wallet/pengbaorange/algorithm.py")}
    roots: list[FuncInfo] = []
    for name, rel in sorted(anchors):
        cls = repo.cls(name, rel)
        m = cls.lookup("create_certainty_aggregate")
        if m is None or "abstractmethod" in " ".join(m.decorator_names()):
            raise AnalysisError(f"anchor-lost: {name}.create_certainty_aggregate")
        if m not in roots:
            roots.append(m)
    for ci in repo.all_classes():
        if (ci.name, ci.module.relpath) in anchors or not ci.is_subclass_of("IdentityAlgorithm"):
            continue
        m = ci.methods.get("create_certainty_aggregate")
        if m is not None and "abstractmethod" not in " ".join(m.decorator_names()) and m not in roots:
            roots.append(m)
    for m in roots:
        rets = [r for r in walk_no_nested(m.node, include_root_defs=False) if isinstance(r, ast.Return) and r.value is not None]
        if not rets:
            raise AnalysisError(f"anchor-lost: {m.qualname} returns no aggregate")
        shared = None
        for r in rets:
            ok, what = _created_in_call(ctx, m, r.value)
            if ok is None:
                raise AnalysisError(f"undecided: {m.qualname}: cannot tell whether the aggregate it returns, {what}, is created by the call")
            if ok is False and shared is None:
                shared = what
        why = ""
        if shared is not None:
            why = (f"{m.qualname} does not create the aggregate it returns: it hands out {shared}. process_challenge_response() counts the answers of a verification "
                   "into that object in place and the community keeps one algorithm instance per id_format, so the answers of one verification stay in the aggregate "
                   "every later verification starts from: the verifier no longer reconstructs the bit-pair profile of the attested value (the counts exceed the reference "
                   "profile, the true value scores 0 instead of 1-2^-n; a range aggregate keeps the check results of another proof)")
        ctx.check(shared is None, "protocol-shape", m, m.node, "the certainty aggregate of a verification is an object created by create_certainty_aggregate for that verification", why,
                  facts=[f"{len(rets)} return value(s) followed"])


def rule_protocol_shape(ctx: Ctx) -> None:
    """
    Two necessary conditions of the protocol clauses that ARE visible in code shape (they do not make the proofs sound):
    a range proof is accepted only on the evidence of at least one verified response, and an incoming attestation is
    matched to the request whose global time it echoes (each request has its own one-time key); every answer is counted once,
    atomically, into an aggregate created for that verification; and (refute-only) each accepted hash mode scores the honest aggregate of its own attestation 1 - 2^-n.
    """
    _use(ctx)
    repo = ctx.repo
    pb = repo.method("PengBaoRangeAlgorithm", "certainty", "ipv8/attestation/wallet/pengbaorange/algorithm.py")
    _check_range_certainty(ctx, pb)
    _check_answer_counted(ctx)
    _check_aggregate_fresh(ctx)
    _check_hash_pairing(ctx)
    _check_count_atomic(ctx)
    _check_decode_stateless(ctx)
    oc = repo.method("AttestationCommunity", "on_attestation_chunk", "ipv8/attestation/wallet/community.py")
    _check_request_selection(ctx, oc)


_NOT_CONST = object()


def _const_eval(ctx: Ctx, fi: FuncInfo, e: ast.AST):
    """
    The str / bytes / int value of an expression that is assembled from constants only (a literal, a module or class constant, an
    entry of a module-level table, the value of an Enum member, "-".join / f-string / + of such), evaluated by the finite-model
    interpreter without any local environment; _NOT_CONST when it mentions run-time values or is outside the interpreter.
    """
    v = const_value(e)
    if isinstance(v, (str, bytes, int)):
        return v
    if any(isinstance(x, (ast.Lambda, ast.Await, ast.Yield, ast.YieldFrom, ast.NamedExpr)) for x in ast.walk(e)):
        return _NOT_CONST
    if any(isinstance(x, ast.Name) and (x.id in ("self", "cls") or x.id in fi.params()) for x in ast.walk(e)):
        return _NOT_CONST
    try:
        v = _Model(ctx.repo, budget=2000).ev(e, {}, fi)
    except (_NoModel, _Raised, _Return, _Break, _Continue, RecursionError):
        return _NOT_CONST
    except Exception:  # noqa: BLE001
        return _NOT_CONST
    if isinstance(v, _Obj) and "value" in v.attrs and v.cls is not None and _record_kind(v.cls) == "enum":
        return _NOT_CONST                                     # the member itself, not its value
    return v if isinstance(v, (str, bytes, int)) and not isinstance(v, bool) else _NOT_CONST


def _mentions_const(ctx: Ctx, fi: FuncInfo, e: ast.AST, wanted) -> bool:
    """does e contain a sub-expression that is the constant `wanted` (however it is spelled)?"""
    for x in ast.walk(e):
        if isinstance(x, ast.Constant):
            if x.value == wanted and type(x.value) is type(wanted):
                return True
        elif isinstance(x, (ast.Name, ast.Attribute, ast.Subscript, ast.JoinedStr, ast.BinOp, ast.Call)) and not isinstance(getattr(x, "ctx", None), ast.Store):
            v = _const_eval(ctx, fi, x)
            if v is not _NOT_CONST and type(v) is type(wanted) and v == wanted:
                return True
    return False


def _origin(frame: _Frame, e: ast.AST, depth: int = 6):
    """(frame, node) where the value of e is written down: through cast(), single-assignment aliases and helper parameters."""
    while depth > 0:
        depth -= 1
        e = strip_cast(e)
        if not isinstance(e, ast.Name):
            break
        if e.id in frame.raw and frame.caller is not None:
            frame, e = frame.caller, frame.raw[e.id]
            continue
        sd = single_def(frame.fi, e.id)
        if sd is None or sd[1] is not None:
            break
        e = sd[0]
    return frame, e


def _check_request_selection(ctx: Ctx, oc: FuncInfo) -> None:
    """
    Every ReceiveAttestationRequestCache id on_attestation_chunk builds ("receive-request-attestation", peer.mid + G), in its own
    body or in a helper, uses a G that is known to equal the echoed global time str(dist.global_time).encode(): written as
    that expression, guarded by the comparison (if / continue / comprehension filter / filter() / conditional expression, in
    the caller or the helper), or drawn from a collection that was filtered by it.
    """
    oc_frames = _frames(ctx, oc)
    params = _root_params(oc_frames, oc)
    if len(params) < 4:
        raise AnalysisError(f"anchor-lost: {oc.qualname} no longer takes (peer, dist, payload)")
    peer_p, dist_p = params[1], params[2]
    want = f"str({dist_p}.global_time).encode()"
    sites = []
    for fr in oc_frames:
        for c in walk_no_nested(fr.fi.node):
            if isinstance(c, ast.Call) and (chain(c.func) or "").rsplit(".", 1)[-1] in ("id_from_address", "id_from_hash") and len(c.args) == 2 and not c.keywords:
                pre = _canon(fr, c.args[0])
                pv = const_value(pre)
                if not isinstance(pv, str):
                    pv = ctx.repo.resolve_const(fr.fi.module, pre, fr.fi.cls)
                if not isinstance(pv, str):
                    pv = _const_eval(ctx, fr.fi, pre)           # a table entry / enum value / assembled string
                if pv == "receive-request-attestation":
                    sites.append((fr, c))
    ctx.anchor(sites, "on_attestation_chunk builds the id of the ReceiveAttestationRequestCache it looks up")
    bad = None
    for fr, c in sites:
        kf, key = _origin(fr, c.args[1])
        if not (isinstance(key, ast.BinOp) and isinstance(key.op, ast.Add)):
            raise AnalysisError(f"undecided: {fr.fi.qualname}: request cache key `{norm(key)[:60]}` is not <mid> + <global time>")
        if _ctext(kf, key.left) != f"{peer_p}.mid":
            raise AnalysisError(f"undecided: {fr.fi.qualname}: request cache key `{norm(key)[:60]}` does not start with {peer_p}.mid")
        ok = _holds_eq(ctx, kf, key.right, key.right, lambda t: t, want) or (kf is fr and _holds_eq(ctx, fr, key.right, c, lambda t: t, want))
        if not ok and bad is None:
            bad = c
    ctx.check(bad is None, "protocol-shape", oc, bad if bad is not None else sites[0][1], "an incoming attestation is matched to the request whose global time it echoes",
              "on_attestation_chunk no longer selects the outstanding request by the echoed global time: with two requests in flight the attestation is stored under another "
              "request's attribute name and one-time key, and the honest owner's answers score 0 for the true value")


# ------------------------------------------------------------------------------------------------------------------
# range proof: the verification equations of the Peng-Bao proof
# ------------------------------------------------------------------------------------------------------------------
def _last(e: ast.AST) -> str:
    e = strip_cast(e)
    return e.attr if isinstance(e, ast.Attribute) else e.id if isinstance(e, ast.Name) else norm(e)


def _group_term(e: ast.AST, pnames: dict[str, str]) -> dict[str, Poly]:
    """A product of powers of group elements as an exponent vector {element: exponent polynomial}: * adds, // subtracts, intpow scales."""
    e = strip_cast(e)
    if isinstance(e, ast.BinOp) and isinstance(e.op, (ast.Mult, ast.FloorDiv)):
        le, ri = _group_term(e.left, pnames), _group_term(e.right, pnames)
        for k, v in ri.items():
            le[k] = le.get(k, Poly()) + (v if isinstance(e.op, ast.Mult) else -v)
        return le
    if isinstance(e, ast.Call) and isinstance(e.func, ast.Attribute):
        if e.func.attr == "intpow" and len(e.args) == 1 and not e.keywords:
            ex = eval_expr(e.args[0], {}, lambda x: pnames.get(x.id, "?" + x.id) if isinstance(x, ast.Name) else None)
            return {k: v * ex for k, v in _group_term(e.func.value, pnames).items()}
        if e.func.attr == "inverse" and not e.args:
            return {k: -v for k, v in _group_term(e.func.value, pnames).items()}
        if e.func.attr == "normalize" and not e.args:
            return _group_term(e.func.value, pnames)
    if isinstance(e, (ast.Attribute, ast.Name)):
        return {_last(e): Poly.const(1)}
    raise AnalysisError(f"group term: unsupported `{norm(e)[:60]}`")


def _fact_conditions(facts) -> list[ast.AST]:
    """facts that hold, written as the conditions (conjuncts) they state"""
    out = []
    for f in facts:
        if f.op == "truthy" and f.pos:
            out.extend(_and_parts(f.left))
        elif f.op == "truthy" and not f.pos:
            out.extend(_and_parts(ast.UnaryOp(op=ast.Not(), operand=f.left)))
        elif f.op in ("eq", "is") and f.right is not None and isinstance(f.right, ast.Constant) and isinstance(f.right.value, bool):
            if f.pos == f.right.value:                          # e is True / e == True / e is not False (for a bool e): e is required
                if f.pos or f.op == "eq":
                    out.extend(_and_parts(f.left))
            elif not f.pos and f.op == "eq":
                pass
        elif f.op == "eq" and f.pos and f.right is not None:
            out.append(ast.Compare(left=f.left, ops=[ast.Eq()], comparators=[f.right]))
        elif f.op == "lt" and f.right is not None:
            out.append(ast.Compare(left=f.left, ops=[ast.Lt() if f.pos else ast.GtE()], comparators=[f.right]))
    return out


def _required_by_callers(ctx: Ctx, fi: FuncInfo) -> list[ast.AST]:
    """
    Conditions over fi's parameters that hold at EVERY call of fi in the repository (a guard that moved from the verifier into its
    caller is still required before a proof is accepted): the facts that dominate each call site, with the caller's argument
    expressions replaced by the parameters they are bound to.  Empty when there is no call site, one cannot be read, or a
    caller passes something other than plain positional / keyword arguments.
    """
    params = fi.params()[1:] if fi.cls is not None else fi.params()
    per_site: list[list[ast.AST]] = []
    try:
        sites = list(ctx.repo.callers_of_name(fi.name))
    except Exception:  # noqa: BLE001
        return []
    for site in sites:
        caller, call = (site[1], site[2]) if len(site) == 3 else site
        if len(call.args) + len(call.keywords) != len(params) or any(isinstance(a, ast.Starred) for a in call.args) or any(k.arg is None for k in call.keywords):
            continue                                          # another `check` (sub-proofs take 3 / 6 arguments)
        if caller is None:
            return []
        try:
            targets = ctx.repo.resolve_call(caller, call)
        except Exception:  # noqa: BLE001
            targets = []
        if targets and not any(t.node is fi.node for t in targets):
            continue
        fr = _Frame(caller)
        bound = dict(zip(params, call.args))
        bound.update({k.arg: k.value for k in call.keywords})
        if set(bound) != set(params):
            return []
        texts = {}
        for pname, a in bound.items():
            texts.setdefault(_ctext(fr, a), pname)
            texts.setdefault(norm(a), pname)
        try:
            facts = _site_facts(ctx, fr, call)
        except AnalysisError:
            return []
        conds = []
        for f in facts:
            le = _rename_texts(f.left, texts)
            ri = _rename_texts(f.right, texts) if f.right is not None else None
            if (_raw_names(le) | (_raw_names(ri) if ri is not None else set())) - {"min", "max", "abs", "bool", "int", "len"} <= set(params):   # speaks about the arguments only
                conds.extend(_fact_conditions([Fact(f.op, le, ri, f.pos, f.atom)]))
        per_site.append(conds)
    if not per_site:
        return []
    common = per_site[0]
    for other in per_site[1:]:
        texts2 = {norm(x) for x in other}
        common = [x for x in common if norm(x) in texts2]
    return common


def _rename_texts(e: ast.AST, texts: dict[str, str]) -> ast.AST:
    """copy of e with every sub-expression whose text is a key of `texts` replaced by the name it maps to (outermost match first)"""
    if isinstance(e, list):
        return [_rename_texts(x, texts) for x in e]
    if not isinstance(e, ast.AST):
        return e
    if isinstance(e, ast.expr):
        try:
            t = norm(e)
        except Exception:  # noqa: BLE001
            t = None
        if t in texts:
            return ast.Name(id=texts[t], ctx=ast.Load())
    new = e.__class__()
    for f in e._fields:
        if hasattr(e, f):
            setattr(new, f, _rename_texts(getattr(e, f), texts))
    return new


def rule_range_binding(ctx: Ctx) -> None:
    """
    PengBaoPublicData.check(a, b, s, t, x, y, u, v) accepts a range proof only if ALL verification equations hold.  The
    sub-proofs (EL, SQR) and the response equations only speak about c1, c2, ca*; it is the two binding equations
    c1 == c / g^(a-1) and c2 == g^(b+1) / c that tie them to the attested value commitment c and to the verifier's own
    interval [a, b] (c1 commits to m-a+1, c2 to b-m+1; both are then shown non-negative).  Without either, a proof built
    for another interval / another value is accepted.  Equations are compared as exponent vectors over the commitments,
    so `c1 * g^(a-1) == c`, hoisted aliases or a helper for g^m * h^r are the same equation.
    """
    _use(ctx)
    repo = ctx.repo
    fi = repo.method("PengBaoPublicData", "check", "ipv8/attestation/wallet/pengbaorange/structs.py")
    p = fi.params()
    if len(p) != 9:
        raise AnalysisError(f"anchor-lost: {fi.qualname} no longer takes (a, b, s, t, x, y, u, v)")
    pn = dict(zip(p[1:], ("a", "b", "s", "t", "x", "y", "u", "v")))
    paths = _paths(fi)
    # the proof is accepted on the paths that can return something truthy: on each of them the path condition (early `return False`
    # guards, decision helpers) and the returned conjunction together are what was required
    paths = [(st, _simp(ret)) for st, ret in paths]
    accepting = [(st, ret) for st, ret in paths if not (isinstance(ret, ast.Constant) and not ret.value) and _decide(ret, _known(st.conds)) is not False]
    if not accepting or len(accepting) > 16:
        raise AnalysisError(f"undecided: {fi.qualname}: {len(accepting)} accepting return paths")
    at_call = _required_by_callers(ctx, fi)                  # conditions every caller establishes before it calls check()

    def required(st, ret) -> list[ast.AST]:
        out = list(at_call)
        for e, pol in st.conds:
            out.extend(_fact_conditions(_atoms_with_polarity(_simp(e), pol)))
        return out + _and_parts(ret)

    per_path = []
    for st, ret in accepting:
        relations: list[dict[str, Poly]] = []
        positive: set[str] = set()
        subproofs: set[tuple] = set()
        reqs = []
        for c in required(st, ret):
            # `not (x != y)`, `not x <= 0`: read through the negation
            if isinstance(c, ast.UnaryOp) and isinstance(c.op, ast.Not):
                for f in _atoms_with_polarity(c, True):
                    if f.op == "eq" and f.pos and f.right is not None:
                        reqs.append(ast.Compare(left=f.left, ops=[ast.Eq()], comparators=[f.right]))
                    elif f.op == "lt" and f.right is not None:
                        reqs.append(ast.Compare(left=f.left, ops=[ast.Lt() if f.pos else ast.GtE()], comparators=[f.right]))
                    elif f.op == "truthy" and f.pos:
                        reqs.append(f.left)
            elif isinstance(c, ast.Call) and chain(c.func) == "bool" and len(c.args) == 1:
                reqs.extend(_and_parts(c.args[0]))
            else:
                reqs.append(c)
        for c in reqs:
            if isinstance(c, ast.Compare) and len(c.ops) == 1:
                f = fact_of(c, True)
                if f.op == "eq" and f.pos:
                    try:
                        le, ri = _group_term(f.left, pn), _group_term(f.right, pn)
                    except AnalysisError:
                        continue
                    rel = dict(le)
                    for k, v in ri.items():
                        rel[k] = rel.get(k, Poly()) - v
                    relations.append({k: v for k, v in rel.items() if not v.is_zero()})
                elif f.op == "lt" and ((f.pos and const_value(f.left) == 0) or (not f.pos and const_value(f.right) == 1)):
                    tgt = f.right if f.pos else f.left                 # 0 < t  /  not t < 1
                    names = [tgt]
                    if isinstance(tgt, ast.Call) and chain(tgt.func) == "min" and tgt.args and not tgt.keywords and not any(isinstance(a, ast.Starred) for a in tgt.args):
                        names = (_literal_elements(tgt.args[0]) or []) if len(tgt.args) == 1 else list(tgt.args)
                    for nm in names:                                    # min(x, y) > 0 is x > 0 and y > 0
                        if isinstance(nm, ast.Name):
                            positive.add(pn.get(nm.id, nm.id))
            elif isinstance(c, ast.Call) and isinstance(c.func, ast.Attribute) and c.func.attr == "check" and not c.keywords:
                subproofs.add((_last(c.func.value), tuple(_last(a) for a in c.args)))
        per_path.append((relations, positive, subproofs))
    if not any(r for r, _, _ in per_path):
        raise AnalysisError(f"anchor-lost: {fi.qualname}: no verification equation recognised in `{norm(accepting[0][1])[:80]}`")

    def has(want: dict[str, Poly]) -> bool:
        neg = {k: -v for k, v in want.items()}
        return all(any(r.keys() == want.keys() and (all((r[k] - want[k]).is_zero() for k in want) or all((r[k] - neg[k]).is_zero() for k in want))
                       for r in relations) for relations, _, _ in per_path)
    positive = set.intersection(*[p for _, p, _ in per_path])
    subproofs = set.intersection(*[sp for _, _, sp in per_path])
    one = Poly.const(1)
    A, B, S, T, X, Y, U, W = (Poly.var(n) for n in ("a", "b", "s", "t", "x", "y", "u", "v"))
    equations = [
        ("c1 == c // g^(a-1)", {"c1": one, "c": -one, "g": A - one},
         "binds the lower-bound commitment c1 to the value commitment c and the verifier's lower bound a"),
        ("c2 == g^(b+1) // c", {"c2": one, "c": one, "g": -(B + one)},
         "binds the upper-bound commitment c2 to the value commitment c and the verifier's upper bound b"),
        ("caa == ca1 * ca2 * ca3", {"caa": one, "ca1": -one, "ca2": -one, "ca3": -one}, "splits the squared commitment into the three parts the responses open"),
        ("g^x * h^u == ca1^s * ca2 * ca3", {"g": X, "h": U, "ca1": -S, "ca2": -one, "ca3": -one}, "verifies the first challenge response"),
        ("g^y * h^v == ca1 * ca2^t * ca3", {"g": Y, "h": W, "ca1": -one, "ca2": -T, "ca3": -one}, "verifies the second challenge response"),
    ]
    for text, want, role in equations:
        ctx.check(has(want), "range-binding", fi, f"check: {text}", f"PengBaoPublicData.check requires {text}",
                  f"PengBaoPublicData.check no longer requires {text} (which {role}): the remaining equations do not tie the proof to the "
                  "attested value and the verifier's interval, so a proof built for a value outside the range (e.g. for a shifted interval of the same width) is accepted")
    for v in ("x", "y"):
        ctx.check(v in positive, "range-binding", fi, f"check: {v} > 0", f"PengBaoPublicData.check requires the response {v} to be positive",
                  f"PengBaoPublicData.check no longer requires {v} > 0: a non-positive response opens the commitment for a value outside the range")
    for recv, args in (("el", ("g", "h", "c1", "h", "c2", "ca")), ("sqr1", ("ca", "h", "caa")), ("sqr2", ("g", "h", "ca3"))):
        ctx.check((recv, args) in subproofs, "range-binding", fi, f"check: {recv}.check({', '.join(args)})",
                  f"PengBaoPublicData.check verifies the sub-proof {recv} on ({', '.join(args)})",
                  f"PengBaoPublicData.check no longer verifies the sub-proof {recv}.check({', '.join(args)}): the commitments it relates are unconstrained")


# ------------------------------------------------------------------------------------------------------------------
# a challenge response is consumed together with its pending-challenge entry
# ------------------------------------------------------------------------------------------------------------------
def rule_response_consumed(ctx: Ctx) -> None:
    """
    AttestationCommunity.on_challenge_response feeds the answer into the verifier's relativity map
    (process_challenge_response / process_honesty_challenge).  The bit-pair profile is reconstructed by COUNTING answers,
    so each outstanding challenge may be answered once: on every path that processes the answer the PendingChallengeCache
    entry it was looked up under must be popped (before, or on every way out afterwards).  Otherwise a duplicated datagram
    is counted twice, the profile over-counts a class and the true value scores 0.
    """
    _use(ctx)
    repo = ctx.repo
    fi = repo.method("AttestationCommunity", "on_challenge_response", "ipv8/attestation/wallet/community.py")
    frames = _frames(ctx, fi)
    params = _root_params(frames, fi)                       # (self, peer, dist, payload) as the dispatcher passes them
    payload = params[3] if len(params) > 3 else params[-1]
    want_hash = f"{payload}.challenge_hash"

    def is_pending_id(fr: _Frame, call: ast.Call) -> bool:
        canon_args = [_canon(fr, a.value if isinstance(a, ast.Starred) else a) for a in call.args]
        txt = " ".join(norm(a) for a in canon_args)
        if "'proving-hash'" in txt and want_hash in txt:
            return True
        if want_hash in txt and any(_mentions_const(ctx, fr.fi, a, "proving-hash") for a in canon_args):
            return True                                       # the prefix comes from a constant / table / enum value
        # pop(entry.prefix, entry.number) of the entry that was looked up under the pending id
        if len(call.args) == 2 and all(isinstance(strip_cast(a), ast.Attribute) for a in call.args):
            a0, a1 = (strip_cast(a) for a in call.args)
            if (a0.attr, a1.attr) == ("prefix", "number") and norm(a0.value) == norm(a1.value):
                src = resolve(fr.fi, a0.value)
                if isinstance(src, ast.Call) and (chain(src.func) or "").endswith("request_cache.get"):
                    return is_pending_id(fr, src)
        return False

    def is_pop(fr: _Frame, c: ast.Call) -> bool:
        ch = _ctext(fr, c.func)
        return ch.endswith("request_cache.pop") and is_pending_id(fr, c)

    kinds: dict[int, str | None] = {}

    def pop_nodes(fr: _Frame):
        """(nodes that pop when they complete, [(node, result name) that pop when their result is not None / truthy])"""
        cfg = ctx.cfg(fr.fi)
        always, cond = [], []
        for c in walk_no_nested(fr.fi.node):
            if not isinstance(c, ast.Call):
                continue
            if is_pop(fr, c):
                always.extend(cfg.nodes_for(c))
                continue
            for child in frames:
                if child.caller is fr and child.call is c:
                    k = consume_kind(child)
                    if k == "always":
                        always.extend(cfg.nodes_for(c))
                    elif k == "truthy":
                        st = enclosing_stmt(c)
                        name = None
                        if isinstance(st, (ast.Assign, ast.AnnAssign)) and strip_cast(st.value) is c:
                            tg = st.targets[0] if isinstance(st, ast.Assign) and len(st.targets) == 1 else getattr(st, "target", None)
                            if isinstance(tg, ast.Name):
                                name = tg.id
                        cond.append((cfg.nodes_for(c), name, c))
        return always, cond

    def consume_kind(fr: _Frame):
        if id(fr) in kinds:
            return kinds[id(fr)]
        kinds[id(fr)] = None                                  # recursion guard
        cfg = ctx.cfg(fr.fi)
        always, _ = pop_nodes(fr)
        kind = None
        if always:
            if cfg.must_complete(cfg.exit, always):
                kind = "always"
            else:
                kind = "truthy"
                for r in walk_no_nested(fr.fi.node):
                    if isinstance(r, ast.Return) and r.value is not None and const_value(strip_cast(r.value)) not in (None, False):
                        if not all(n in always or cfg.must_complete(n, always) for n in cfg.nodes_for(r) if cfg.reachable(n)):
                            kind = None
        kinds[id(fr)] = kind
        return kind

    def result_known(fr: _Frame, site: ast.AST, name: str | None, call: ast.Call) -> bool:
        """the helper's result is known to be not None / truthy at site"""
        for f in _site_facts(ctx, fr, site):
            le = norm(f.left)
            if name is not None and le == name or le == _ctext(fr, call):
                if (f.op == "truthy" and f.pos) or (f.op == "is" and not f.pos and f.right is not None and const_value(f.right) is None):
                    return True
        return False

    def consumed_at(fr: _Frame, node: ast.AST) -> bool:
        cfg = ctx.cfg(fr.fi)
        always, cond = pop_nodes(fr)
        if isinstance(node, ast.Call) and any(isinstance(c, ast.Call) and c is not node and is_pop(fr, c) and _argument_of(node, c) for c in ast.walk(node)):
            return True                                       # f(..., pop(id)): the arguments are evaluated (the entry popped) before f is entered
        usable = [n for ns, name, c in cond if result_known(fr, node, name, c) for n in ns]
        ok = True
        for n in cfg.nodes_for(node):
            if not cfg.reachable(n):
                continue
            here = bool(always) and (cfg.must_complete(n, always) or cfg.always_followed_by(n, always))
            if not here and usable:
                here = cfg.must_complete(n, always + usable)
            ok = ok and here
        if ok:
            return True
        if fr.caller is not None and fr.call is not None:
            return consumed_at(fr.caller, fr.call)
        return False

    procs = ("process_challenge_response", "process_honesty_challenge")

    def feeds(fr: _Frame, c: ast.Call) -> str | None:
        """name of the verifier method a call hands the response to: directly, through a callable picked from a table / conditional, or by methodcaller"""
        if call_name(c) in procs:
            return call_name(c)
        for f in _callee_exprs(fr.fi, c.func):
            f = strip_cast(f)
            if isinstance(f, ast.Attribute) and f.attr in procs:
                return f.attr
            if isinstance(f, ast.Call) and _libfn(f.func) == "methodcaller" and f.args and const_value(f.args[0]) in procs:
                return const_value(f.args[0])
            if isinstance(f, ast.Call) and _libfn(f.func) == "partial" and f.args and isinstance(strip_cast(f.args[0]), ast.Attribute) and strip_cast(f.args[0]).attr in procs:
                return strip_cast(f.args[0]).attr
        return None
    uses = [(fr, c) for fr in frames for c in calls(fr.fi) if feeds(fr, c) is not None]
    ctx.anchor(uses, "on_challenge_response feeds the response into process_challenge_response / process_honesty_challenge")
    def unread_pops() -> list[str]:
        """request_cache.pop calls whose identifier names no cache prefix the rule can read (neither 'proving-hash' nor another constant)"""
        out = []
        for fr in frames:
            for c in walk_no_nested(fr.fi.node):
                if isinstance(c, ast.Call) and _ctext(fr, c.func).endswith("request_cache.pop") and not is_pending_id(fr, c):
                    canon_args = [_canon(fr, a.value if isinstance(a, ast.Starred) else a) for a in c.args]
                    named = any(isinstance(x, ast.Constant) and isinstance(x.value, str) for a in canon_args for x in ast.walk(a))
                    if not named:
                        named = any(isinstance(_const_eval(ctx, fr.fi, x), str) for a in canon_args for x in ast.walk(a)
                                    if isinstance(x, (ast.Name, ast.Attribute)) and isinstance(getattr(x, "ctx", None), ast.Load))
                    if not named:
                        out.append(f"{fr.fi.qualname}: `{norm(c)[:60]}`")
        return out

    for fr, u in uses:
        ok = consumed_at(fr, u)
        if not ok and unread_pops():
            raise AnalysisError(f"undecided: {fi.qualname}: {unread_pops()[0]} pops a cache entry whose identifier is not read; it may be the pending challenge")
        ctx.check(ok, "response-consumed", fi, enclosing_stmt(u), f"{feeds(fr, u)}: the pending challenge is popped on every path that processes the response",
                  f"on_challenge_response hands the response to {feeds(fr, u)} on a path that does not pop the PendingChallengeCache entry "
                  f"('proving-hash', {payload}.challenge_hash) - not before it and not on every way out (early return): a duplicated / replayed response is "
                  "counted again in the relativity map, the bit-pair profile over-counts and the honest prover's true value scores 0")
    _check_answered_challenge(ctx, fi, frames, want_hash)


def _argument_of(call: ast.Call, inner: ast.AST) -> bool:
    """inner is evaluated unconditionally while the arguments of `call` are evaluated (no short-circuit / lazy position in between)"""
    cur, p = inner, parent(inner)
    while p is not None and cur is not call:
        if isinstance(p, ast.Call):
            if cur is p.func and p is call:
                return False
        elif isinstance(p, ast.keyword):
            pass
        elif not isinstance(p, (ast.Starred, ast.Attribute, ast.Subscript, ast.Tuple, ast.List, ast.BinOp, ast.UnaryOp, ast.Compare)):
            return False
        if isinstance(p, ast.Compare) and len(p.ops) > 1 and cur is not p.left and cur is not p.comparators[0]:
            return False
        cur, p = p, parent(p)
    return cur is call


def _check_answered_challenge(ctx: Ctx, fi: FuncInfo, frames: list, want_hash: str) -> None:  # noqa: C901, PLR0912, PLR0915
    """
    ProvingAttestationCache.challenges is the backlog of challenges that still have to be answered; hashed_challenges the hashes
    still outstanding.  An answer names its challenge by hash only, and answers are datagrams (any order).  The entry that
    on_challenge_response (or a helper it calls) drops from the backlog must therefore be SELECTED BY THAT HASH: the removed
    element c is known to satisfy sha1(c).digest() == payload.challenge_hash (guard, filter, next() over a filtered generator,
    index of such an element, rebuild of the list without it).  A positional removal drops whatever is at the head: after one
    overtaking answer the answered challenge stays in the backlog, is sent and counted a second time, and the true value's
    profile is exceeded (score 0).
    """
    def is_backlog(fr: _Frame, e: ast.AST) -> bool:
        t = _ctext(fr, e)
        return t.endswith(".challenges") or t == "challenges" and False

    def sha(t: str) -> str:
        return f"sha1({t}).digest()"

    def backlog_texts(fr: _Frame, site: ast.AST) -> list[str]:
        """spellings of the backlog list at this site: its canonical text and the local names that alias it"""
        out = set()
        for n in ast.walk(fr.fi.node):
            if isinstance(n, (ast.Attribute, ast.Name)) and isinstance(getattr(n, "ctx", None), ast.Load) and is_backlog(fr, n):
                out.add(norm(n))
                out.add(_ctext(fr, n))
        return sorted(out)

    def elem_selected(fr: _Frame, x: ast.AST, site: ast.AST) -> bool:
        return _holds_eq(ctx, fr, x, site, sha, want_hash)

    _MUTATORS = ("remove", "pop", "popleft", "clear", "insert", "append", "extend", "sort", "reverse")

    def stable_between(fr: _Frame, st: ast.AST, site: ast.AST, names: set) -> bool:
        """no path from statement st to site (that does not run st again) stores one of `names` or changes the backlog"""
        cfg = ctx.cfg(fr.fi)
        an, sn = list(cfg.nodes_for(st)), list(cfg.nodes_for(site))
        if not an or not sn:
            return False
        muts = []
        for x in walk_no_nested(fr.fi.node):
            if isinstance(x, ast.Name) and isinstance(x.ctx, (ast.Store, ast.Del)) and x.id in names:
                muts.extend(cfg.nodes_for(x))
            elif isinstance(x, ast.Call) and isinstance(x.func, ast.Attribute) and x.func.attr in _MUTATORS and is_backlog(fr, x.func.value):
                muts.extend(cfg.nodes_for(x))
            elif isinstance(x, ast.Delete) and any(isinstance(t, ast.Subscript) and is_backlog(fr, t.value) for t in x.targets):
                muts.extend(cfg.nodes_for(x))
            elif isinstance(x, (ast.Assign, ast.AugAssign, ast.AnnAssign)):
                tg = x.targets if isinstance(x, ast.Assign) else [x.target]
                if any(isinstance(t, ast.Subscript) and is_backlog(fr, t.value) for t in tg) or any(isinstance(t, ast.Attribute) and t.attr == "challenges" for t in tg):
                    muts.extend(cfg.nodes_for(x))
        muts = [m for m in muts if m not in sn and m not in an]
        after = cfg.reach([v for d in an for v, lab in d.succ if lab != "exc"], cut_nodes=sn)
        for m in muts:
            if m in after and set(sn) & cfg.reach([v for v, _ in m.succ], cut_nodes=an):
                return False
        return True

    def position_fact(fr: _Frame, i: ast.Name, site: ast.AST) -> bool:
        """
        `x = backlog[i]` ... `if sha1(x).digest() == hash:` ... removal at position i: the dominating comparison is about the local that was
        read from position i (the one definition of x that reaches the comparison), and neither i nor the backlog changed since that read.
        """
        try:
            raw = list(facts_at(ctx.cfg(fr.fi), site))
        except AnalysisError:
            return False
        for f in raw:
            if not (f.op == "eq" and f.pos and f.right is not None):
                continue
            for a, b in ((f.left, f.right), (f.right, f.left)):
                a = strip_cast(a)
                if _ctext(fr, b) != want_hash or not (isinstance(a, ast.Call) and isinstance(a.func, ast.Attribute) and a.func.attr == "digest" and not a.args):
                    continue
                h = strip_cast(a.func.value)
                if not (isinstance(h, ast.Call) and chain(h.func) == "sha1" and len(h.args) == 1 and not h.keywords):
                    continue
                n = strip_cast(h.args[0])
                if not isinstance(n, ast.Name) or parent(n) is None or n.id in fr.fi.params():
                    continue
                defs = _reaching(fr.fi, n, local_defs(fr.fi, n.id))
                if len(defs) != 1 or defs[0][1] is None or defs[0][2] is not None or isinstance(defs[0][0], (ast.For, ast.AsyncFor)):
                    continue
                st, val, _ = defs[0]
                val = strip_cast(val)
                if isinstance(val, ast.Subscript) and isinstance(strip_cast(val.slice), ast.Name) and strip_cast(val.slice).id == i.id and is_backlog(fr, val.value) \
                        and stable_between(fr, st, site, {i.id}):
                    return True
        return False

    def index_selected(fr: _Frame, i: ast.AST, site: ast.AST):
        """True / False / None (undecided) for a positional removal at index expression i"""
        i = strip_cast(i)
        if isinstance(i, ast.Constant) or (isinstance(i, ast.UnaryOp) and isinstance(i.operand, ast.Constant)):
            return False
        if isinstance(i, ast.Name):
            # `if sha1(backlog[i]).digest() == hash:` around the removal
            for t in backlog_texts(fr, site):
                for f in _site_facts(ctx, fr, site):
                    if f.op == "eq" and f.pos and f.right is not None and {norm(f.left), norm(f.right)} == {sha(f"{t}[{_ctext(fr, i)}]"), want_hash}:
                        return True
                    if f.op == "eq" and f.pos and f.right is not None and {norm(f.left), norm(f.right)} == {sha(f"{t}[{i.id}]"), want_hash}:
                        return True
            if position_fact(fr, i, site):
                return True
            b = _binding_of(fr.fi, i)
            if b is not None and b[0] in ("for", "comp"):
                tgt, it = b[1].target, strip_cast(b[1].iter)
                if isinstance(tgt, (ast.Tuple, ast.List)) and len(tgt.elts) == 2 and isinstance(tgt.elts[0], ast.Name) and tgt.elts[0].id == i.id \
                        and isinstance(it, ast.Call) and chain(it.func) == "enumerate" and it.args and is_backlog(fr, strip_slice(it.args[0])):
                    return elem_selected(fr, tgt.elts[1], site)
                return None
            if b is not None and b[0] == "assign" and b[2] is None:
                return index_selected(fr, b[1], site)
            return None
        if isinstance(i, ast.Call) and isinstance(i.func, ast.Attribute) and i.func.attr == "index" and len(i.args) == 1 and is_backlog(fr, i.func.value):
            return elem_selected(fr, i.args[0], site)
        if isinstance(i, ast.Call) and isinstance(i.func, ast.Attribute) and i.func.attr == "index" and len(i.args) == 1:
            # [sha1(c).digest() for c in backlog].index(hash): the position of the element with that hash
            recv = strip_cast(i.func.value)
            if isinstance(recv, ast.Name):
                sd = single_def(fr.fi, recv.id)
                recv = strip_cast(sd[0]) if sd is not None and sd[1] is None else recv
            if isinstance(recv, (ast.ListComp, ast.GeneratorExp)) or (isinstance(recv, ast.Call) and chain(recv.func) in ("list", "tuple") and recv.args):
                comp = recv if isinstance(recv, (ast.ListComp, ast.GeneratorExp)) else strip_cast(recv.args[0])
                if isinstance(comp, (ast.ListComp, ast.GeneratorExp)) and len(comp.generators) == 1 and not comp.generators[0].ifs \
                        and isinstance(comp.generators[0].target, ast.Name) and is_backlog(fr, strip_slice(comp.generators[0].iter)) \
                        and norm(_canon(fr, comp.elt)) == sha(comp.generators[0].target.id) and _ctext(fr, i.args[0]) == want_hash:
                    return True
        return None

    def strip_slice(e: ast.AST) -> ast.AST:
        e = strip_cast(e)
        while isinstance(e, ast.Subscript) and isinstance(e.slice, ast.Slice) or (isinstance(e, ast.Call) and chain(e.func) in ("list", "tuple") and len(e.args) == 1):
            e = strip_cast(e.value if isinstance(e, ast.Subscript) else e.args[0])
        return e

    sites = []          # (frame, node, verdict True/False/None, what)
    for fr in frames:
        for n in walk_no_nested(fr.fi.node):
            if isinstance(n, ast.Call) and isinstance(n.func, ast.Attribute) and n.func.attr in ("remove", "pop", "popleft", "clear") and is_backlog(fr, n.func.value):
                if n.func.attr == "remove" and len(n.args) == 1:
                    sites.append((fr, n, elem_selected(fr, n.args[0], n), "removes an element"))
                elif n.func.attr == "pop" and len(n.args) == 1:
                    sites.append((fr, n, index_selected(fr, n.args[0], n), "removes by position"))
                else:
                    sites.append((fr, n, False, "removes by position"))
            elif isinstance(n, ast.Delete):
                for t in n.targets:
                    if isinstance(t, ast.Subscript) and is_backlog(fr, t.value):
                        sites.append((fr, n, None if isinstance(t.slice, ast.Slice) else index_selected(fr, t.slice, n), "deletes by position"))
            elif isinstance(n, (ast.Assign, ast.AnnAssign, ast.AugAssign)):
                targets = n.targets if isinstance(n, ast.Assign) else [n.target]
                for t in targets:
                    whole = (isinstance(t, ast.Attribute) and t.attr == "challenges" and not (isinstance(t.value, ast.Name) and t.value.id == "self" and fr.caller is None)) or \
                        (isinstance(t, ast.Subscript) and isinstance(t.slice, ast.Slice) and is_backlog(fr, t.value))
                    if not whole or n.value is None or isinstance(n, ast.AugAssign):
                        continue
                    facts = _elem_facts(ctx, fr, n.value)
                    keeps_others = any(f.op == "eq" and not f.pos and f.right is not None and {norm(f.left), norm(f.right)} == {sha(_V), want_hash} for f in facts)
                    sites.append((fr, n, True if keeps_others else None, "rebuilds the backlog"))
    ctx.anchor(sites, "on_challenge_response drops the answered challenge from ProvingAttestationCache.challenges")
    for fr, n, verdict, what in sites:
        if verdict is None:
            raise AnalysisError(f"undecided: {fr.fi.qualname}: `{norm(n)[:70]}` {what} of the challenge backlog and it is not clear which element")
        ctx.check(verdict, "response-consumed", fi, n, "the challenge dropped from the backlog is the one whose hash the response carries",
                  f"{fr.fi.qualname}: `{norm(n)[:70]}` {what} of ProvingAttestationCache.challenges that was not selected by sha1(c).digest() == {want_hash}: "
                  "answers are datagrams and may overtake each other, so the challenge that was actually answered can stay in the backlog (and another, unanswered one is "
                  "dropped); the answered challenge is then sent again and its second answer is counted again in the relativity map - the reconstructed bit-pair profile "
                  "exceeds the profile of the true value, which scores 0 for an honest prover")


def _run_rules(ctx: Ctx) -> None:
    for rule in (rule_protocol_shape, rule_range_binding, rule_response_consumed, rule_ring_laws, rule_intpow, rule_codec):
        try:
            rule(ctx)
        except (AnalysisError, KeyboardInterrupt):
            raise
        except (_NoModel, _Raised) as e:
            raise AnalysisError(f"undecided: {rule.__name__}: model evaluation stopped at {e}") from None
        except Exception as e:  # noqa: BLE001 - syntax the rule's reading does not cope with is undecided, not a crash and not a verdict
            import traceback
            where = traceback.extract_tb(e.__traceback__)[-1]
            raise AnalysisError(f"undecided: {rule.__name__}: construct outside the rule's reading ({type(e).__name__}: {str(e)[:80]} at c18.py:{where.lineno})") from None


def _raw_repo(repo):
    """
    The same tree without the load-time normalisation (the code exactly as written), or None when the normaliser did not rewrite
    anything.  The rules of this module expand locals, follow new helpers and fold constants themselves, so they can read the
    code as written; the second reading is used only to confirm or drop what the first reading reported.
    """
    import os

    from ..model import Repo
    if not getattr(repo, "renamed_locals", 0) or not getattr(repo, "recover_names", False):
        return None
    old = os.environ.get("SA_NO_NAME_RECOVERY")
    os.environ["SA_NO_NAME_RECOVERY"] = "1"
    try:
        return Repo(repo.root, overrides=repo.overrides)
    except AnalysisError:
        return None
    finally:
        if old is None:
            os.environ.pop("SA_NO_NAME_RECOVERY", None)
        else:
            os.environ["SA_NO_NAME_RECOVERY"] = old


def run(ctx: Ctx) -> None:
    err = None
    try:
        _run_rules(ctx)
    except AnalysisError as e:
        err = e
    if err is not None or ctx.findings:
        # A violation / an undecided construct on the normalised tree of a CHANGED repository is read a second time on the code as
        # written: the normalised function and the written one are the same program, so a reading that passes on either is a verdict
        # about the code (a normalisation step that merged two inlined copies of a helper once produced a violation the code does not have).
        raw = _raw_repo(ctx.repo)
        if raw is not None:
            ctx2 = Ctx(ctx.prop, raw, ctx.tier)
            try:
                _run_rules(ctx2)
                clean = not ctx2.findings
            except AnalysisError:
                clean = False
            if clean:
                for k in ("instances", "findings", "notes", "assumptions", "floors", "functions", "extra", "obligations", "discharged"):
                    setattr(ctx, k, getattr(ctx2, k))
                ctx.note("verdict from the reading of the code as written (the normalised reading reported "
                         + (str(err)[:120] if err is not None else "a violation") + ")")
                err = None
        _use(ctx)
    if err is not None:
        raise err
    ctx.extra["obligations"] = ctx.obligations
    ctx.extra["discharged"] = ctx.discharged
    ctx.assume("NOT decided: completeness/soundness of the exact-match and range proofs, Boneh encode/decode, honesty checks in on_challenge_response - number theory over run-time keys and randomness")
    ctx.assume("identities proved over Z[symbols]; reduction modulo p is a ring homomorphism, so they hold for every modulus; division requires an invertible denominator")


WITNESSES = [
    {"name": "pre-fix: __add__ numerator lacks two terms", "file": VP, "rule": "ring-laws",
     "old": "             + self.cC * other.b - self.b * other.bC + self.c * other.bC - self.aC * other.c + self.bC * other.c\n             - self.a * other.cC + self.b * other.cC)\n        b = (self.bC * other.a",
     "new": "             + self.cC * other.b - self.aC * other.c + self.bC * other.c\n             - self.a * other.cC + self.b * other.cC)\n        b = (self.bC * other.a"},
    {"name": "sign flip in __mul__ b", "file": VP, "rule": "ring-laws",
     "old": "        b = (self.b * other.a - self.c * other.a + self.a * other.b\n             - self.b * other.b - self.a * other.c + self.c * other.c)\n        aC = (self.aC * other.aC - self.cC * other.aC - self.bC * other.bC\n              + self.cC * other.bC - self.aC * other.cC + self.bC * other.cC)\n        bC = (self.bC * other.aC - self.cC * other.aC + self.aC * other.bC\n              - self.bC * other.bC - self.aC * other.cC + self.cC * other.cC)\n        return FP2Value(self.mod, a=a, b=b, aC=aC, bC=bC)\n\n    def __floordiv__",
     "new": "        b = (self.b * other.a - self.c * other.a + self.a * other.b\n             + self.b * other.b - self.a * other.c + self.c * other.c)\n        aC = (self.aC * other.aC - self.cC * other.aC - self.bC * other.bC\n              + self.cC * other.bC - self.aC * other.cC + self.bC * other.cC)\n        bC = (self.bC * other.aC - self.cC * other.aC + self.aC * other.bC\n              - self.bC * other.bC - self.aC * other.cC + self.cC * other.cC)\n        return FP2Value(self.mod, a=a, b=b, aC=aC, bC=bC)\n\n    def __floordiv__"},
    {"name": "division uses numerator twice", "file": VP, "rule": "ring-laws",
     "old": "        aC = (self.aC * other.a - self.cC * other.a - self.bC * other.b\n              + self.cC * other.b - self.aC * other.c + self.bC * other.c)",
     "new": "        aC = (self.aC * other.aC - self.cC * other.a - self.bC * other.b\n              + self.cC * other.b - self.aC * other.c + self.bC * other.c)"},
    {"name": "inverse forgets c", "file": VP, "rule": "ring-laws",
     "old": "return FP2Value(self.mod, a=self.aC, b=self.bC, c=self.cC, aC=self.a, bC=self.b, cC=self.c)",
     "new": "return FP2Value(self.mod, a=self.aC, b=self.bC, aC=self.a, bC=self.b)"},
    {"name": "normalize scales numerator only", "file": VP, "rule": "ring-laws",
     "old": "            bC = (self.bC * mp) % self.mod", "new": "            bC = self.bC % self.mod"},
    {"name": "intpow squares before multiplying", "file": VP, "rule": "ring-laws",
     "old": "            if (n % 2) == 1:\n                R *= U\n            U *= U", "new": "            U *= U\n            if (n % 2) == 1:\n                R *= U"},
    {"name": "modinv update wrong", "file": VP, "rule": "ring-laws",
     "old": "        xn = x1 - q * x2", "new": "        xn = x1 + q * x2"},
    {"name": "equality ignores x coefficient", "file": VP, "rule": "ring-laws",
     "old": "return all([divd.a == divd.aC, divd.b == divd.bC, divd.c == divd.cC])", "new": "return all([divd.a == divd.aC, divd.c == divd.cC])"},
    {"name": "wp_compress shortcut for a denominator without x term forgets its scalar part", "file": VP, "rule": "ring-laws",
     "old": "        assert self.cC == 0\n        normalized = self.normalize()\n        return normalized.wp_nominator() * normalized.wp_denom_inverse()",
     "new": "        assert self.cC == 0\n        if self.bC == 0:\n            return self.wp_nominator()\n        normalized = self.normalize()\n        return normalized.wp_nominator() * normalized.wp_denom_inverse()"},
    {"name": "private key drops a field", "file": "ipv8/attestation/wallet/primitives/structs.py", "rule": "codec-arity",
     "old": "        return super().serialize() + ipack(self.n) + ipack(self.t1)", "new": "        return super().serialize() + ipack(self.n)"},
    {"name": "bitpair field order swapped", "file": "ipv8/attestation/wallet/bonehexact/structs.py", "rule": "codec-arity",
     "old": "        return (ipack(self.a.a) + ipack(self.a.b) + ipack(self.b.a) + ipack(self.b.b)", "new": "        return (ipack(self.a.a) + ipack(self.b.a) + ipack(self.a.b) + ipack(self.b.b)"},
    {"name": "__mul__ fast path whose guard forgets the x^2 denominator coefficient", "file": VP, "rule": "ring-laws",
     "old": "             - self.b * other.b - self.a * other.c + self.c * other.c)\n        aC = (self.aC * other.aC - self.cC * other.aC - self.bC * other.bC\n              + self.cC * other.bC - self.aC * other.cC + self.bC * other.cC)\n        bC = (self.bC * other.aC - self.cC * other.aC + self.aC * other.bC\n              - self.bC * other.bC - self.aC * other.cC + self.cC * other.cC)\n        return FP2Value(self.mod, a=a, b=b, aC=aC, bC=bC)\n\n    def __floordiv__",
     "new": "             - self.b * other.b - self.a * other.c + self.c * other.c)\n        if self.aC == 1 and other.aC == 1 and self.bC == 0 and other.bC == 0 and self.cC == 0:\n            return FP2Value(self.mod, a=a, b=b)\n        aC = (self.aC * other.aC - self.cC * other.aC - self.bC * other.bC\n              + self.cC * other.bC - self.aC * other.cC + self.bC * other.cC)\n        bC = (self.bC * other.aC - self.cC * other.aC + self.aC * other.bC\n              - self.bC * other.bC - self.aC * other.cC + self.cC * other.cC)\n        return FP2Value(self.mod, a=a, b=b, aC=aC, bC=bC)\n\n    def __floordiv__"},
    {"name": "equality accepts when one pair agrees", "file": VP, "rule": "ring-laws",
     "old": "return all([divd.a == divd.aC, divd.b == divd.bC, divd.c == divd.cC])", "new": "return divd.a == divd.aC or (divd.b == divd.bC and divd.c == divd.cC)"},
    {"name": "intpow does not invert for negative powers", "file": VP, "rule": "ring-laws",
     "old": "        return R.inverse().normalize() if power < 0 else R", "new": "        return R"},
    {"name": "intpow reads the parity of the halved exponent", "file": VP, "rule": "ring-laws",
     "old": "            if (n % 2) == 1:\n                R *= U\n            U *= U\n            n = n // 2", "new": "            n = n // 2\n            if (n % 2) == 1:\n                R *= U\n            U *= U"},
    {"name": "normalize scales without checking that the inverse exists", "file": VP, "rule": "ring-laws",
     "old": "        if mp > 0:\n            a = (self.a * mp) % self.mod", "new": "        if self.aC > 0:\n            a = (self.a * mp) % self.mod"},
    {"name": "modinv does not step to (b, a mod b)", "file": VP, "rule": "ring-laws",
     "old": "        a, b, x1, x2 = b, r, x2, xn", "new": "        a, b, x1, x2 = b, a - r, x2, xn"},
    {"name": "constructor stores cC unreduced", "file": VP, "rule": "ring-laws",
     "old": "aC % mod, bC % mod, cC % mod", "new": "aC % mod, bC % mod, cC"},
    {"name": "key unserialize returns a key for any number of fields", "file": PS, "rule": "codec-arity",
     "old": "        if len(nums) != cls.FIELDS:\n            return None\n", "new": "        if len(nums) < 3:\n            return None\n"},
    {"name": "iunpack returns the rest one byte early", "file": PS, "rule": "codec-arity",
     "old": "    return _str_to_num(s[1 + llen:llen + l + 1]), s[llen + l + 1:]", "new": "    return _str_to_num(s[1 + llen:llen + l + 1]), s[llen + l:]"},
    {"name": "ipack length byte counts the number instead of its length field", "file": PS, "rule": "codec-arity",
     "old": "return struct.pack(\">B\", len(l)) + l + pnum", "new": "return struct.pack(\">B\", len(pnum)) + l + pnum"},
    {"name": "bitpair unserialize crosses a coefficient pair", "file": "ipv8/attestation/wallet/bonehexact/structs.py", "rule": "codec-arity",
     "old": "FP2Value(p, nums[2], nums[3])", "new": "FP2Value(p, nums[3], nums[2])"},
    {"name": "range check: lower binding off by one", "file": "ipv8/attestation/wallet/pengbaorange/structs.py", "rule": "range-binding",
     "old": "self.commitment.c // self.PK.g.intpow(a - 1)", "new": "self.commitment.c // self.PK.g.intpow(a)"},
    {"name": "range check: upper binding dropped", "file": "ipv8/attestation/wallet/pengbaorange/structs.py", "rule": "range-binding",
     "old": "        out &= self.commitment.c2 == self.PK.g.intpow(b + 1) // self.commitment.c\n", "new": ""},
    {"name": "range check: response positivity dropped", "file": "ipv8/attestation/wallet/pengbaorange/structs.py", "rule": "range-binding",
     "old": "        out &= x > 0\n", "new": ""},
    {"name": "range check: square proof on the wrong commitment", "file": "ipv8/attestation/wallet/pengbaorange/structs.py", "rule": "range-binding",
     "old": "self.sqr1.check(self.commitment.ca, self.PK.h, self.commitment.caa)", "new": "self.sqr1.check(self.commitment.ca, self.PK.h, self.commitment.ca)"},
    {"name": "pending challenge is popped only for a still-listed challenge hash", "file": "ipv8/attestation/wallet/community.py", "rule": "response-consumed",
     "old": "            self.request_cache.pop(*HashCache.id_from_hash(\"proving-hash\", payload.challenge_hash))\n            proving_cache = cache.proving_cache\n",
     "new": "            proving_cache = cache.proving_cache\n            if payload.challenge_hash in proving_cache.hashed_challenges:\n                self.request_cache.pop(*HashCache.id_from_hash(\"proving-hash\", payload.challenge_hash))\n"},
    {"name": "pending challenge is never popped", "file": "ipv8/attestation/wallet/community.py", "rule": "response-consumed",
     "old": "            self.request_cache.pop(*HashCache.id_from_hash(\"proving-hash\", payload.challenge_hash))\n", "new": ""},
    {"name": "answered challenge is dropped from the backlog by position, not by hash", "file": "ipv8/attestation/wallet/community.py", "rule": "response-consumed",
     "old": "                for challenge in proving_cache.challenges[:]:\n                    if sha1(challenge).digest() == payload.challenge_hash:\n"
            "                        proving_cache.challenges.remove(challenge)\n                        break\n",
     "new": "                challenge = proving_cache.challenges.pop(0)\n"},
    {"name": "backlog entry removed without comparing its hash", "file": "ipv8/attestation/wallet/community.py", "rule": "response-consumed",
     "old": "                    if sha1(challenge).digest() == payload.challenge_hash:\n                        proving_cache.challenges.remove(challenge)\n",
     "new": "                    if challenge:\n                        proving_cache.challenges.remove(challenge)\n"},
    {"name": "answers that are not a bit-pair sum are not counted", "file": "ipv8/attestation/wallet/bonehexact/algorithm.py", "rule": "protocol-shape",
     "old": "        process_challenge_response(aggregate, unpacked)\n        return aggregate\n",
     "new": "        if unpacked in (0, 1, 2):\n            process_challenge_response(aggregate, unpacked)\n        return aggregate\n"},
    {"name": "an answer is counted twice", "file": "ipv8/attestation/wallet/bonehexact/attestation.py", "rule": "protocol-shape",
     "old": "    relativity_map[response] += 1\n", "new": "    relativity_map[response] += 2\n"},
    {"name": "the answer count is updated without the update lock", "file": "ipv8/attestation/wallet/bonehexact/attestation.py", "rule": "protocol-shape",
     "old": "    multithread_update_lock.acquire()\n    relativity_map[response] += 1\n    multithread_update_lock.release()\n", "new": "    relativity_map[response] += 1\n"},
    {"name": "the update lock is released before the answer is counted", "file": "ipv8/attestation/wallet/bonehexact/attestation.py", "rule": "protocol-shape",
     "old": "    multithread_update_lock.acquire()\n    relativity_map[response] += 1\n    multithread_update_lock.release()\n",
     "new": "    multithread_update_lock.acquire()\n    multithread_update_lock.release()\n    relativity_map[response] += 1\n"},
    {"name": "decode memoises g^t1 per id(privkey)", "file": "ipv8/attestation/wallet/primitives/boneh.py", "rule": "protocol-shape",
     "old": "def decode(privkey: BonehPrivateKey, msgspace: list[int], c: FP2Value) -> int | None:\n    \"\"\"\n    Decode a ciphertext c given a private key and the possible source messages.\n"
            "    \"\"\"\n    d = c.intpow(privkey.t1)\n    t = privkey.g.intpow(privkey.t1)\n",
     "new": "_decode_bases: dict[int, FP2Value] = {}\n\n\ndef decode(privkey: BonehPrivateKey, msgspace: list[int], c: FP2Value) -> int | None:\n    \"\"\"\n"
            "    Decode a ciphertext c given a private key and the possible source messages.\n    \"\"\"\n    d = c.intpow(privkey.t1)\n"
            "    t = _decode_bases.get(id(privkey))\n    if t is None:\n        t = _decode_bases[id(privkey)] = privkey.g.intpow(privkey.t1)\n"},
    {"name": "range certainty starts from True", "file": "ipv8/attestation/wallet/pengbaorange/algorithm.py", "rule": "protocol-shape",
     "old": "        in_range = len(aggregate) > 1\n", "new": "        in_range = True\n"},
    {"name": "range certainty accepts when any response verified", "file": "ipv8/attestation/wallet/pengbaorange/algorithm.py", "rule": "protocol-shape",
     "old": "        in_range = len(aggregate) > 1\n        for k, v in aggregate.items():\n            if k != \"attestation\":\n                in_range &= v\n",
     "new": "        in_range = any(v for k, v in aggregate.items() if k != \"attestation\")\n"},
    {"name": "range certainty folds the attestation entry into the verdict", "file": "ipv8/attestation/wallet/pengbaorange/algorithm.py", "rule": "protocol-shape",
     "old": "            if k != \"attestation\":\n                in_range &= v\n", "new": "            in_range &= bool(v)\n"},
    {"name": "sha512 mode compares the aggregate with the SHA-256 profile", "file": "ipv8/attestation/wallet/bonehexact/algorithm.py", "rule": "protocol-shape",
     "old": "            self.attest_function = attest_sha512\n            self.aggregate_reference = binary_relativity_sha512\n",
     "new": "            self.attest_function = attest_sha512\n            self.aggregate_reference = binary_relativity_sha256\n"},
    {"name": "4-byte mode reference profile covers half of the attested bits", "file": "ipv8/attestation/wallet/bonehexact/attestation.py", "rule": "protocol-shape",
     "old": "    return binary_relativity(sha256_4_as_int(value), 32)\n", "new": "    return binary_relativity(sha256_4_as_int(value), 16)\n"},
    {"name": "profile match no longer rejects an over-full bucket", "file": "ipv8/attestation/wallet/bonehexact/attestation.py", "rule": "protocol-shape",
     "old": "        if v < value[k]:\n            return 0.0\n", "new": ""},
    {"name": "the empty aggregate is built once in the constructor and handed out to every verification", "file": "ipv8/attestation/wallet/bonehexact/algorithm.py", "rule": "protocol-shape",
     "old": "        return create_empty_relativity_map()\n", "new": "        if not hasattr(self, \"empty_aggregate\"):\n            self.empty_aggregate = create_empty_relativity_map()\n        return self.empty_aggregate\n"},
    {"name": "the range aggregate is a per-instance dict that is updated and handed out", "file": "ipv8/attestation/wallet/pengbaorange/algorithm.py", "rule": "protocol-shape",
     "old": "        return {\"attestation\": attestation}\n", "new": "        self.__dict__.setdefault(\"_aggregate\", {})[\"attestation\"] = attestation\n        return self._aggregate\n"},
    {"name": "request cache is looked up for every outstanding global time", "file": "ipv8/attestation/wallet/community.py", "rule": "protocol-shape",
     "old": "                    for allowed_glob in self.allowed_attestations.get(peer.mid, [])\n                    if allowed_glob == str(dist.global_time).encode()]\n",
     "new": "                    for allowed_glob in self.allowed_attestations.get(peer.mid, [])]\n"},
    {"name": "request cache is selected by the local clock instead of the echoed global time", "file": "ipv8/attestation/wallet/community.py", "rule": "protocol-shape",
     "old": "                    if allowed_glob == str(dist.global_time).encode()]\n", "new": "                    if allowed_glob == str(self.global_time).encode()]\n"},
]
