"""C18 - Attribute proofs accept the true value and reject others (field-arithmetic clause as a proof + codec shape)."""
from __future__ import annotations

import ast

from ..core import Ctx
from ..match import arg, call_name, calls, local_defs, resolve, single_def
from ..model import AnalysisError, FuncInfo, ancestors, chain, const_value, enclosing_stmt, norm, parent, strip_cast, walk_no_nested
from ..poly import Poly, eval_expr

LEVEL = "proof"
EXPLANATION = (
    "Proof of the field-arithmetic clause: the bodies of FP2Value.__add__/__sub__/__mul__/__floordiv__/inverse/normalize "
    "are read as integer polynomials in the twelve coefficient symbols and compared, by exact polynomial subtraction, "
    "with the reference arithmetic of fractions N/D over Z[x]/(x^2+x+1) (c*x^2 -> -c*x - c; N1/D1 +- N2/D2 = "
    "(N1*D2 +- N2*D1)/(D1*D2); products and quotients likewise). Identities over Z hold for all operands and all moduli. "
    "Derived laws (commutativity, x-y = x+(0-y) up to the common denominator, (x//y)*y ~ x) are checked on the "
    "implementation's own polynomials; intpow is checked to be square-and-multiply; codec arity of keys/attestations is "
    "checked. Soundness/completeness of the zero-knowledge proofs and the Boneh scheme rest on number theory over run-time "
    "keys and randomness and are NOT decided."
)

VP = "ipv8/attestation/wallet/primitives/value.py"
SYMS = ("a", "b", "c", "aC", "bC", "cC")


def sym(e: ast.AST) -> str | None:
    if isinstance(e, ast.Attribute) and isinstance(e.value, ast.Name) and e.value.id in ("self", "other") and e.attr in SYMS:
        return ("s" if e.value.id == "self" else "o") + "_" + e.attr
    return None


def V(side: str, name: str) -> Poly:
    return Poly.var(f"{side}_{name}")


def reduce3(a: Poly, b: Poly, c: Poly) -> tuple[Poly, Poly]:
    """a + b x + c x^2  (mod x^2 + x + 1)  ->  (a - c) + (b - c) x"""
    return a - c, b - c


def mul2(u: tuple[Poly, Poly], v: tuple[Poly, Poly]) -> tuple[Poly, Poly]:
    u0, u1 = u
    v0, v1 = v
    return reduce3(u0 * v0, u0 * v1 + u1 * v0, u1 * v1)


def operands():
    n1 = reduce3(V("s", "a"), V("s", "b"), V("s", "c"))
    d1 = reduce3(V("s", "aC"), V("s", "bC"), V("s", "cC"))
    n2 = reduce3(V("o", "a"), V("o", "b"), V("o", "c"))
    d2 = reduce3(V("o", "aC"), V("o", "bC"), V("o", "cC"))
    return n1, d1, n2, d2


def method_result(ctx: Ctx, fi: FuncInfo) -> dict[str, Poly]:
    """Polynomials of the six coefficients of the FP2Value returned by a straight-line operator method."""
    env: dict[str, Poly] = {}
    result = None
    for st in fi.node.body:
        if isinstance(st, ast.Expr) and isinstance(st.value, ast.Constant):
            continue
        if isinstance(st, ast.Assert):
            continue
        if isinstance(st, ast.Assign) and len(st.targets) == 1 and isinstance(st.targets[0], ast.Name):
            env[st.targets[0].id] = eval_expr(st.value, env, sym)
            continue
        if isinstance(st, ast.Return) and isinstance(st.value, ast.Call) and chain(st.value.func) == "FP2Value":
            c = st.value
            if norm(c.args[0]) != "self.mod":
                raise AnalysisError(f"{fi.qualname}: result modulus is not self.mod")
            order = ["a", "b", "c", "aC", "bC", "cC"]
            out = {"a": Poly.const(0), "b": Poly.const(0), "c": Poly.const(0), "aC": Poly.const(1), "bC": Poly.const(0), "cC": Poly.const(0)}
            for i, a in enumerate(c.args[1:]):
                out[order[i]] = eval_expr(a, env, sym)
            for k in c.keywords:
                if k.arg not in out:
                    raise AnalysisError(f"{fi.qualname}: unknown keyword {k.arg}")
                out[k.arg] = eval_expr(k.value, env, sym)
            result = out
            continue
        raise AnalysisError(f"{fi.qualname}: statement `{norm(st)[:60]}` is not straight-line arithmetic")
    if result is None:
        raise AnalysisError(f"{fi.qualname}: no `return FP2Value(...)`")
    return result


def oblige(ctx: Ctx, fi: FuncInfo, what: str, got: Poly, want: Poly) -> None:
    diff = got - want
    ok = diff.is_zero()
    ctx.oblige(ok)
    ctx.check(ok, "ring-laws", fi, f"{fi.name}: {what}", f"{fi.name}: {what} equals the reference polynomial",
              f"{fi.name}: coefficient `{what}` differs from the field arithmetic of Z[x]/(x^2+x+1): implementation - reference = {diff}")


def rule_ring_laws(ctx: Ctx) -> None:
    repo = ctx.repo
    cls = repo.cls("FP2Value", VP)
    n1, d1, n2, d2 = operands()
    res = {}
    for name in ("__add__", "__sub__", "__mul__", "__floordiv__"):
        fi = cls.methods[name]
        res[name] = method_result(ctx, fi)
    ref = {
        "__mul__": (mul2(n1, n2), mul2(d1, d2)),
        "__floordiv__": (mul2(n1, d2), mul2(d1, n2)),
        "__add__": (tuple(x + y for x, y in zip(mul2(n1, d2), mul2(n2, d1))), mul2(d1, d2)),
        "__sub__": (tuple(x - y for x, y in zip(mul2(n1, d2), mul2(n2, d1))), mul2(d1, d2)),
    }
    for name, (num, den) in ref.items():
        fi = cls.methods[name]
        r = res[name]
        oblige(ctx, fi, "a (numerator, x^0)", r["a"], num[0])
        oblige(ctx, fi, "b (numerator, x^1)", r["b"], num[1])
        oblige(ctx, fi, "c (numerator, x^2)", r["c"], Poly.const(0))
        oblige(ctx, fi, "aC (denominator, x^0)", r["aC"], den[0])
        oblige(ctx, fi, "bC (denominator, x^1)", r["bC"], den[1])
        oblige(ctx, fi, "cC (denominator, x^2)", r["cC"], Poly.const(0))
    # derived laws on the implementation's own polynomials
    swap = {f"s_{k}": f"o_{k}" for k in SYMS} | {f"o_{k}": f"s_{k}" for k in SYMS}
    for name in ("__add__", "__mul__"):
        fi = cls.methods[name]
        for k in ("a", "b", "aC", "bC"):
            got = res[name][k]
            ok = got == got.rename(swap)
            ctx.oblige(ok)
            ctx.check(ok, "ring-laws", fi, f"{name}: {k} commutes", f"{name} is commutative in coefficient {k}",
                      f"{name} is not commutative: coefficient {k} changes when the operands are swapped (x op y != y op x): difference {got - got.rename(swap)}")
    # x - y == x + (0 - y): compare cross-multiplied fractions  (num_sub * den_add' == num_add' * den_sub) mod (x^2+x+1)
    zero = {"s_a": Poly.const(0), "s_b": Poly.const(0), "s_c": Poly.const(0), "s_aC": Poly.const(1), "s_bC": Poly.const(0), "s_cC": Poly.const(0)}
    neg_y = {k: v.subst(zero) for k, v in res["__sub__"].items()}                 # 0 - y, in terms of o_*
    as_other = {f"o_{k}": neg_y[k] for k in SYMS}
    add_neg = {k: v.subst(as_other) for k, v in res["__add__"].items()}           # x + (0 - y)
    lhs = mul2((res["__sub__"]["a"], res["__sub__"]["b"]), (add_neg["aC"], add_neg["bC"]))
    rhs = mul2((add_neg["a"], add_neg["b"]), (res["__sub__"]["aC"], res["__sub__"]["bC"]))
    fi = cls.methods["__sub__"]
    for i, lab in enumerate(("x^0", "x^1")):
        ok = (lhs[i] - rhs[i]).is_zero()
        ctx.oblige(ok)
        ctx.check(ok, "ring-laws", fi, f"x - y == x + (0 - y) [{lab}]", f"x - y and x + (0 - y) are the same fraction ({lab})",
                  f"x - y != x + (0 - y) as fractions ({lab}): the additive structure is inconsistent")
    # (x // y) * y ~ x   (cross-multiplied)
    q = res["__floordiv__"]
    as_self = {f"s_{k}": q[k] for k in SYMS}
    back = {k: v.subst(as_self) for k, v in res["__mul__"].items()}                # (x // y) * y
    lhs = mul2((back["a"], back["b"]), d1)
    rhs = mul2(n1, (back["aC"], back["bC"]))
    fi = cls.methods["__floordiv__"]
    for i, lab in enumerate(("x^0", "x^1")):
        ok = (lhs[i] - rhs[i]).is_zero()
        ctx.oblige(ok)
        ctx.check(ok, "ring-laws", fi, f"(x // y) * y == x [{lab}]", f"(x // y) * y and x are the same fraction ({lab})",
                  f"(x // y) * y != x as fractions ({lab})")
    # inverse swaps numerator and denominator
    inv = method_result(ctx, cls.methods["inverse"])
    pairs = {"a": "aC", "b": "bC", "c": "cC", "aC": "a", "bC": "b", "cC": "c"}
    for k, src in pairs.items():
        oblige(ctx, cls.methods["inverse"], f"{k} <- self.{src}", inv[k], V("s", src))
    # normalize: every coefficient scaled by the same mp = modinv(aC)
    nz = cls.methods["normalize"]
    mp = single_def(nz, "mp")
    ok = mp is not None and norm(mp[0]) == "_modinv(self.aC % self.mod, self.mod)"
    ctx.oblige(ok)
    ctx.check(ok, "ring-laws", nz, nz.node, "normalize: mp = modinv(aC)", "normalize does not scale by the inverse of aC")
    envn = {"mp": Poly.var("mp")}
    branch = [s for s in walk_no_nested(nz.node) if isinstance(s, ast.If) and norm(s.test) == "mp > 0"]
    ok = len(branch) == 1
    if ok:
        local = dict(envn)
        for st in branch[0].body:
            if isinstance(st, ast.Assign) and isinstance(st.targets[0], ast.Name):
                local[st.targets[0].id] = eval_expr(st.value, local, sym, ignore_mod="self.mod")
            elif isinstance(st, ast.Return):
                c = st.value
                names = ["a", "b", "c", "aC", "bC", "cC"]
                for i, a in enumerate(c.args[1:]):
                    got = eval_expr(a, local, sym, ignore_mod="self.mod")
                    want = Poly.const(1) if names[i] == "aC" else V("s", names[i]) * Poly.var("mp")
                    oblige(ctx, nz, f"normalize {names[i]}", got, want)
    else:
        ctx.oblige(False)
        ctx.check(False, "ring-laws", nz, nz.node, "normalize has the mp > 0 branch", "normalize lost its scaling branch")
    mi = repo.func(VP, "_modinv")
    ok = _modinv_invariant(ctx, mi)
    ctx.oblige(ok)
    ctx.check(ok, "ring-laws", mi, mi.node, "_modinv maintains x1*e = a and x2*e = b (mod m) and returns x1 % m when b reaches 0",
              "_modinv no longer maintains the extended-Euclid invariant: it does not return the modular inverse")
    # __eq__ compares the normalised quotient with one
    eq = cls.methods["__eq__"]
    d = single_def(eq, "divd")
    ok = d is not None and norm(d[0]) == "(self // other).normalize()" and any(
        isinstance(r, ast.Return) and norm(r.value) == "all([divd.a == divd.aC, divd.b == divd.bC, divd.c == divd.cC])" for r in ast.walk(eq.node))
    ctx.oblige(ok)
    ctx.check(ok, "ring-laws", eq, eq.node, "equality = normalised quotient has numerator == denominator", "FP2Value equality is no longer quotient == 1")
    # constructor reduces all six coefficients modulo mod
    init = cls.methods["__init__"]
    ok = any(isinstance(s, ast.Assign) and norm(s.value) == "(a % mod, b % mod, c % mod, aC % mod, bC % mod, cC % mod)" and
             norm(s.targets[0]) == "(self.a, self.b, self.c, self.aC, self.bC, self.cC)" for s in walk_no_nested(init.node))
    ctx.oblige(ok)
    ctx.check(ok, "ring-laws", init, init.node, "constructor stores every coefficient reduced modulo mod", "constructor no longer reduces/stores the six coefficients")


def _modinv_invariant(ctx: Ctx, mi: FuncInfo) -> bool:
    """
    Invariant I: x1*e - a and x2*e - b are multiples of m.  Checked symbolically: with a = x1*e - k1*m and
    b = x2*e - k2*m, one loop iteration (q, r = divmod(a, b) => r = a - q*b) yields new values for which
    new_x1*e - new_a and new_x2*e - new_b are polynomials every term of which contains m.
    """
    e_, m_ = mi.params()
    init = {}
    loop = None
    ret = None
    for st in mi.node.body:
        if isinstance(st, ast.Assign) and isinstance(st.targets[0], ast.Tuple) and isinstance(st.value, ast.Tuple):
            for t, v in zip(st.targets[0].elts, st.value.elts):
                init[norm(t)] = norm(v)
        elif isinstance(st, ast.While):
            loop = st
        elif isinstance(st, ast.Return):
            ret = st
    if loop is None or ret is None or init != {"x1": "1", "x2": "0", "a": e_, "b": m_}:
        return False
    if norm(loop.test) not in ("b > 0", "b != 0", "b") or norm(ret.value) != f"x1 % {m_}":
        return False
    X1, X2, E, M, K1, K2, Q = (Poly.var(n) for n in ("x1", "x2", "e", "m", "k1", "k2", "q"))
    env = {"x1": X1, "x2": X2, "a": X1 * E - K1 * M, "b": X2 * E - K2 * M}
    for st in loop.body:
        if isinstance(st, ast.Assign) and isinstance(st.targets[0], ast.Tuple) and isinstance(st.value, ast.Call) and chain(st.value.func) == "divmod":
            if [norm(a) for a in st.value.args] != ["a", "b"] or len(st.targets[0].elts) != 2:
                return False
            qn, rn = (norm(t) for t in st.targets[0].elts)
            env[qn] = Q
            env[rn] = env["a"] - Q * env["b"]
        elif isinstance(st, ast.Assign) and isinstance(st.targets[0], ast.Name):
            env[st.targets[0].id] = eval_expr(st.value, env, lambda x: None)
        elif isinstance(st, ast.Assign) and isinstance(st.targets[0], ast.Tuple) and isinstance(st.value, ast.Tuple):
            vals = [eval_expr(v, env, lambda x: None) for v in st.value.elts]
            for t, v in zip(st.targets[0].elts, vals):
                env[norm(t)] = v
        else:
            return False
    for xv, av in (("x1", "a"), ("x2", "b")):
        diff = env[xv] * E - env[av]
        if any("m" not in mon for mon in diff.t):
            return False
    # progress: new b is the remainder r (strictly smaller than old b)
    return True


def rule_intpow(ctx: Ctx) -> None:
    fi = ctx.repo.cls("FP2Value", VP).methods["intpow"]
    loops = [l for l in walk_no_nested(fi.node) if isinstance(l, ast.While)]
    ok = len(loops) == 1 and norm(loops[0].test) == "n > 0"
    if ok:
        body = loops[0].body
        txt = [norm(s) if not isinstance(s, ast.If) else "if " + norm(s.test) + ": " + "; ".join(norm(x) for x in s.body) for s in body]
        ok = txt == ["if n % 2 == 1: R *= U", "U *= U", "n = n // 2"]
    R = single_def(fi, "R")
    okR = any(v is not None and norm(v) == "FP2Value(self.mod, 1)" for _, v, _ in local_defs(fi, "R"))
    okU = any(v is not None and norm(v) == "self" for _, v, _ in local_defs(fi, "U"))
    okn = any(v is not None and norm(v) == "-power if power < 0 else power" for _, v, _ in local_defs(fi, "n"))
    rets = [r for r in walk_no_nested(fi.node) if isinstance(r, ast.Return)]
    okr = len(rets) == 1 and norm(rets[0].value) == "R.inverse().normalize() if power < 0 else R"
    good = ok and okR and okU and okn and okr
    ctx.oblige(good)
    ctx.check(good, "ring-laws", fi, fi.node, "intpow is square-and-multiply from 1 with inverse for negative powers",
              f"intpow is not square-and-multiply (loop={ok} R0={okR} U0={okU} n0={okn} result={okr})")


def _ipack_count(ctx: Ctx, fi: FuncInfo, depth: int = 3) -> int:
    n = len([c for c in calls(fi) if chain(c.func) == "ipack"])
    for c in calls(fi):
        if isinstance(c.func, ast.Attribute) and c.func.attr == "serialize" and isinstance(c.func.value, ast.Call) and chain(c.func.value.func) == "super" and fi.cls and depth:
            for k in fi.cls.mro()[1:]:
                if "serialize" in k.methods:
                    n += _ipack_count(ctx, k.methods["serialize"], depth - 1)
                    break
    return n


def rule_codec(ctx: Ctx) -> None:
    repo = ctx.repo
    PS = "ipv8/attestation/wallet/primitives/structs.py"
    for name in ("BonehPublicKey", "BonehPrivateKey"):
        c = repo.cls(name, PS)
        fields = repo.resolve_const(c.module, c.lookup_attr("FIELDS"), c)
        n = _ipack_count(ctx, c.lookup("serialize"))
        ctx.check(fields == n, "codec-arity", c.where, "FIELDS", f"{name}.serialize emits {n} integers == FIELDS ({fields})",
                  f"{name}.serialize emits {n} integers but unserialize reads FIELDS={fields}")
    un = repo.method("BonehPublicKey", "unserialize", PS)
    ok = any(isinstance(l, ast.While) and norm(l.test) == "rem and len(nums) < cls.FIELDS" for l in walk_no_nested(un.node)) and \
        any(isinstance(s, ast.If) and norm(s.test) == "len(nums) != cls.FIELDS" and any(isinstance(x, ast.Return) and const_value(x.value) is None for x in s.body) for s in walk_no_nested(un.node))
    ctx.check(ok, "codec-arity", un, un.node, "key unserialize reads exactly FIELDS integers, else None", "key unserialize accepts a wrong number of fields")
    bp = repo.cls("BitPairAttestation", "ipv8/attestation/wallet/bonehexact/structs.py")
    n = _ipack_count(ctx, bp.methods["serialize"])
    u = bp.methods["unserialize"]
    lim = [const_value(l.test.values[1].comparators[0]) for l in walk_no_nested(u.node) if isinstance(l, ast.While) and isinstance(l.test, ast.BoolOp)
           and isinstance(l.test.values[1], ast.Compare)]
    idx = sorted({const_value(x.slice) for x in ast.walk(u.node) if isinstance(x, ast.Subscript) and chain(x.value) == "nums" and isinstance(const_value(x.slice), int)})
    ctx.check(lim == [n] and idx == list(range(n)), "codec-arity", u, u.node, f"BitPairAttestation: {n} integers written, {lim} read, indices {idx}",
              f"BitPairAttestation serialize/unserialize arity mismatch: writes {n}, reads {lim}, uses {idx}")
    ser = bp.methods["serialize"]
    order = [norm(c.args[0]) for c in calls(ser) if chain(c.func) == "ipack"]
    ctx.check(order == ["self.a.a", "self.a.b", "self.b.a", "self.b.b", "self.complement.a", "self.complement.b"], "codec-arity", ser, ser.node,
              "BitPairAttestation field order a, b, complement", f"BitPairAttestation field order changed: {order}")
    inits = [norm(c) for c in calls(u, "FP2Value")]
    ctx.check(inits == ["FP2Value(p, nums[0], nums[1])", "FP2Value(p, nums[2], nums[3])", "FP2Value(p, nums[4], nums[5])"], "codec-arity", u, u.node,
              "unserialize rebuilds (a, b, complement) from consecutive pairs", f"unserialize pairs fields differently: {inits}")
    ip, iu = repo.func(PS, "ipack"), repo.func(PS, "iunpack")
    r = [x for x in walk_no_nested(ip.node) if isinstance(x, ast.Return)]
    ok = len(r) == 1 and norm(r[0].value) == "struct.pack('>B', len(l)) + l + pnum" and norm(single_def(ip, "l")[0]) == "_num_to_str(len(pnum))"
    r2 = [x for x in walk_no_nested(iu.node) if isinstance(x, ast.Return)]
    ok = ok and len(r2) == 1 and norm(r2[0].value) == "(_str_to_num(s[1 + llen:llen + l + 1]), s[llen + l + 1:])" \
        and norm(single_def(iu, "l")[0]) == "_str_to_num(s[1:1 + llen])" and norm(single_def(iu, "llen")[0]) == "struct.unpack('>B', s[0:1])[0]"
    ctx.check(ok, "codec-arity", ip, ip.node, "ipack/iunpack agree on [1-byte len-of-len][len][number]", "ipack and iunpack disagree on the integer layout")


def rule_protocol_shape(ctx: Ctx) -> None:
    """
    Two necessary conditions of the protocol clauses that ARE visible in code shape (they do not make the proofs sound):
    a range proof is accepted only on the evidence of at least one verified response, and an incoming attestation is
    matched to the request whose global time it echoes (each request has its own one-time key).
    """
    repo = ctx.repo
    pb = repo.method("PengBaoRangeAlgorithm", "certainty", "ipv8/attestation/wallet/pengbaorange/algorithm.py")
    agg = pb.params()[2]
    # symbolic evaluation for an aggregate that holds no response (only the 'attestation' key, or nothing): the verdict must be "not in range"
    seeds = [v for _, v, _ in local_defs(pb, "in_range") if v is not None]
    nonvacuous = any(isinstance(v, ast.Compare) and norm(v.left) == f"len({agg})" and isinstance(v.ops[0], (ast.Gt, ast.GtE)) and
                     ((isinstance(v.ops[0], ast.Gt) and const_value(v.comparators[0]) == 1) or (isinstance(v.ops[0], ast.GtE) and const_value(v.comparators[0]) == 2)) for v in seeds)
    vacuous_all = any(isinstance(n, ast.Call) and chain(n.func) == "all" for v in seeds for n in ast.walk(v)) and not nonvacuous
    conj = any(isinstance(s_, ast.AugAssign) and isinstance(s_.op, ast.BitAnd) and norm(s_.target) == "in_range" for s_ in walk_no_nested(pb.node))
    ctx.check(nonvacuous and conj and not vacuous_all, "protocol-shape", pb, pb.node, "range certainty is 1 only with at least one response and all responses verified",
              "PengBaoRangeAlgorithm.certainty accepts vacuously: with no verified challenge response the aggregate yields certainty 1.0, so a proof built for a value outside "
              "the range is accepted before any answer was checked")
    oc = repo.method("AttestationCommunity", "on_attestation_chunk", "ipv8/attestation/wallet/community.py")
    comps = [n for n in ast.walk(oc.node) if isinstance(n, ast.ListComp) and "self.allowed_attestations.get(" in norm(n.generators[0].iter)]
    ok = len(comps) == 1 and any(norm(i) == f"{norm(comps[0].generators[0].target)} == str(dist.global_time).encode()" for i in comps[0].generators[0].ifs)
    ctx.check(ok, "protocol-shape", oc, comps[0] if comps else oc.node, "an incoming attestation is matched to the request whose global time it echoes",
              "on_attestation_chunk no longer selects the outstanding request by the echoed global time: with two requests in flight the attestation is stored under another "
              "request's attribute name and one-time key, and the honest owner's answers score 0 for the true value")


def run(ctx: Ctx) -> None:
    rule_protocol_shape(ctx)
    rule_ring_laws(ctx)
    rule_intpow(ctx)
    rule_codec(ctx)
    ctx.extra["obligations"] = ctx.obligations
    ctx.extra["discharged"] = ctx.discharged
    ctx.assume("NOT decided: completeness/soundness of the exact-match and range proofs, Boneh encode/decode, honesty checks in on_challenge_response - number theory over run-time keys and randomness")
    ctx.assume("identities proved over Z[symbols]; reduction modulo p is a ring homomorphism, so they hold for every modulus; division requires an invertible denominator")


WITNESSES = [
    {"name": "pre-fix: __add__ numerator lacks two terms", "file": VP, "rule": "ring-laws",
     "old": "             + self.cC * other.b - self.b * other.bC + self.c * other.bC - self.aC * other.c + self.bC * other.c\n             - self.a * other.cC + self.b * other.cC)\n        b = (self.bC * other.a",
     "new": "             + self.cC * other.b - self.aC * other.c + self.bC * other.c\n             - self.a * other.cC + self.b * other.cC)\n        b = (self.bC * other.a"},
    {"name": "sign flip in __mul__ b", "file": VP, "rule": "ring-laws",
     "old": "        b = (self.b * other.a - self.c * other.a + self.a * other.b\n             - self.b * other.b - self.a * other.c + self.c * other.c)\n        aC = (self.aC * other.aC - self.cC * other.aC - self.bC * other.bC\n              + self.cC * other.bC - self.aC * other.cC + self.bC * other.cC)\n        bC = (self.bC * other.aC - self.cC * other.aC + self.aC * other.bC\n              - self.bC * other.bC - self.aC * other.cC + self.cC * other.cC)\n        return FP2Value(self.mod, a=a, b=b, aC=aC, bC=bC)\n\n    def __floordiv__",
     "new": "        b = (self.b * other.a - self.c * other.a + self.a * other.b\n             + self.b * other.b - self.a * other.c + self.c * other.c)\n        aC = (self.aC * other.aC - self.cC * other.aC - self.bC * other.bC\n              + self.cC * other.bC - self.aC * other.cC + self.bC * other.cC)\n        bC = (self.bC * other.aC - self.cC * other.aC + self.aC * other.bC\n              - self.bC * other.bC - self.aC * other.cC + self.cC * other.cC)\n        return FP2Value(self.mod, a=a, b=b, aC=aC, bC=bC)\n\n    def __floordiv__"},
    {"name": "division uses numerator twice", "file": VP, "rule": "ring-laws",
     "old": "        aC = (self.aC * other.a - self.cC * other.a - self.bC * other.b\n              + self.cC * other.b - self.aC * other.c + self.bC * other.c)",
     "new": "        aC = (self.aC * other.aC - self.cC * other.a - self.bC * other.b\n              + self.cC * other.b - self.aC * other.c + self.bC * other.c)"},
    {"name": "inverse forgets c", "file": VP, "rule": "ring-laws",
     "old": "return FP2Value(self.mod, a=self.aC, b=self.bC, c=self.cC, aC=self.a, bC=self.b, cC=self.c)",
     "new": "return FP2Value(self.mod, a=self.aC, b=self.bC, aC=self.a, bC=self.b)"},
    {"name": "normalize scales numerator only", "file": VP, "rule": "ring-laws",
     "old": "            bC = (self.bC * mp) % self.mod", "new": "            bC = self.bC % self.mod"},
    {"name": "intpow squares before multiplying", "file": VP, "rule": "ring-laws",
     "old": "            if (n % 2) == 1:\n                R *= U\n            U *= U", "new": "            U *= U\n            if (n % 2) == 1:\n                R *= U"},
    {"name": "modinv update wrong", "file": VP, "rule": "ring-laws",
     "old": "        xn = x1 - q * x2", "new": "        xn = x1 + q * x2"},
    {"name": "equality ignores x coefficient", "file": VP, "rule": "ring-laws",
     "old": "return all([divd.a == divd.aC, divd.b == divd.bC, divd.c == divd.cC])", "new": "return all([divd.a == divd.aC, divd.c == divd.cC])"},
    {"name": "private key drops a field", "file": "ipv8/attestation/wallet/primitives/structs.py", "rule": "codec-arity",
     "old": "        return super().serialize() + ipack(self.n) + ipack(self.t1)", "new": "        return super().serialize() + ipack(self.n)"},
    {"name": "bitpair field order swapped", "file": "ipv8/attestation/wallet/bonehexact/structs.py", "rule": "codec-arity",
     "old": "        return (ipack(self.a.a) + ipack(self.a.b) + ipack(self.b.a) + ipack(self.b.b)", "new": "        return (ipack(self.a.a) + ipack(self.b.a) + ipack(self.a.b) + ipack(self.b.b)"},
]
