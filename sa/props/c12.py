"""C12 - The peer graph's lookups always agree with its membership."""
from __future__ import annotations

import ast

from ..core import Ctx
from ..match import (_atoms_with_polarity, arg, call_name, calls, expr_context_facts, fact_of, facts_at, local_defs, mentions, rchain, resolve,
                     same_resolved, single_def, stores)
from ..model import AnalysisError, FuncInfo, ancestors, chain, clone, const_value, enclosing_stmt, norm, parent, strip_cast, walk_no_nested

LEVEL = "other"
EXPLANATION = (
    "Index coherence as a matrix: rows are all mutation sites of the authoritative collections (verified_peers, "
    "_all_addresses, services_per_peer) found by scanning network.py; columns are the derived indices "
    "(verified_by_public_key_bin, reverse_ip_lookup, reverse_intro_lookup, reverse_service_lookup). A cell is satisfied "
    "when the mutator updates the index on the same path (directly or through a helper it calls) or when every reader "
    "of the index re-validates its cached value against the authoritative collection; cached lists must never be "
    "created from partial knowledge; every cache miss recomputes from the authoritative collection. Reader validation is "
    "decided by value flow, not by spelling: a value taken out of a cache may only reach a `return` through edges / filters "
    "that establish the required facts (peer in verified_peers and key in peer.addresses.values(); address in _all_addresses "
    "and introduced_by == the peer's key; peer in verified_peers and service in services_per_peer[peer key]). Plus blacklist "
    "guards (followed into private helpers of add_verified_peer), by-key pairing, removal completeness (remove_by_address "
    "looks at every verified peer on every path; remove_peer removes unless not a member; both forget the removed instance in the address and service caches, whose readers "
    "validate by equality), snapshot codec symmetry and the "
    "closed set of external writers. LRU eviction order is not explored - a miss recomputes (checked). "
    "Constructs are recognised by what they compute: a collection is denoted by self.<attr>, a local alias, a loop variable over a literal of "
    "collections or getattr(self, name); guards are decided on the CFG (edges that establish the fact, the exhausted edge of a loop that checked "
    "every element) and followed into Network's own decision helpers (every compatible return must establish the fact; bool / None / tag / tuple "
    "results, dispatch tables denote all their values); cached values handed to a helper are followed with the parameters bound; generator helpers "
    "are read as streams of what they yield. remove_peer must purge the address cache by scanning it (by value), not by the addresses of the Peer "
    "object it was handed (another instance of the same identity may carry other addresses)."
)

NW = "ipv8/peerdiscovery/network.py"
AUTH = ("verified_peers", "_all_addresses", "services_per_peer")
DERIVED = ("verified_by_public_key_bin", "reverse_ip_lookup", "reverse_intro_lookup", "reverse_service_lookup")

# which authoritative change can invalidate which derived index (frozen from reading network.py; one reason each)
DEPENDS = {
    ("verified_peers", "remove"): {
        "verified_by_public_key_bin": "the by-key dict mirrors the verified set",
        "reverse_ip_lookup": "address -> Peer cache may hold the removed peer",
        "reverse_service_lookup": "service -> [Peer] cache may hold the removed peer",
    },
    ("verified_peers", "add"): {
        "verified_by_public_key_bin": "the by-key dict mirrors the verified set",
        "reverse_service_lookup": "a cached per-service list must gain a peer that becomes verified",
    },
    ("_all_addresses", "remove"): {
        "reverse_intro_lookup": "Peer -> [introduced addresses] cache may hold the removed address",
    },
    ("_all_addresses", "add"): {
        "reverse_intro_lookup": "a cached introduction list must gain a newly introduced address (when it names an introducer)",
    },
    ("services_per_peer", "remove"): {
        "reverse_service_lookup": "service -> [Peer] cache may hold a peer that no longer advertises the service",
    },
    ("services_per_peer", "add"): {
        "reverse_service_lookup": "a cached per-service list must gain a peer that starts advertising the service",
    },
}


_QUERIES = ("get_verified_by_address", "get_introductions_from", "get_peers_for_service", "get_verified_by_public_key_bin",
            "get_services_for_peer", "get_walkable_addresses", "snapshot", "is_new_style")
_MUTATING = ("add", "update", "discard", "remove", "pop", "clear", "append", "extend", "insert", "setdefault", "popitem", "difference_update",
             "intersection_update", "symmetric_difference_update", "sort", "reverse")
_FRESH_CALLS = ("set", "frozenset", "list", "tuple", "dict", "sorted", "copy", "copy.copy", "copy.deepcopy", "deepcopy", "len", "bool", "any", "all")
_FRESH_METHODS = ("copy", "union", "difference", "intersection", "symmetric_difference", "keys", "values", "items")


def _fresh(fi: FuncInfo, v: ast.AST, depth: int = 3) -> bool:
    """the value of v is a new object (or immutable): mutating it cannot change a stored collection"""
    v = strip_cast(v)
    if isinstance(v, (ast.ListComp, ast.SetComp, ast.DictComp, ast.GeneratorExp, ast.List, ast.Set, ast.Dict, ast.Tuple, ast.BinOp, ast.Constant,
                      ast.Compare, ast.JoinedStr, ast.UnaryOp)):
        return True
    if isinstance(v, ast.Call):
        if (chain(v.func) or "") in _FRESH_CALLS:
            return True
        return isinstance(v.func, ast.Attribute) and v.func.attr in _FRESH_METHODS
    if isinstance(v, ast.IfExp):
        return _fresh(fi, v.body, depth) and _fresh(fi, v.orelse, depth)
    if isinstance(v, ast.BoolOp):
        return all(_fresh(fi, x, depth) for x in v.values)
    if isinstance(v, ast.Name) and depth > 0 and v.id not in fi.params():
        defs = local_defs(fi, v.id)
        return bool(defs) and all(val is not None and idx is None and _fresh(fi, val, depth - 1) for _, val, idx in defs)
    return False


def _stored_alias(fi: FuncInfo, name: str, depth: int = 3):
    """a definition of local `name` that makes it the very object held in an authoritative collection (or the collection itself)"""
    for st, v, idx in local_defs(fi, name):
        src = v
        if v is None and isinstance(st, (ast.For, ast.AsyncFor)):
            src = st.iter          # the elements of a stored collection are stored objects
            if isinstance(strip_cast(src), ast.Call) and isinstance(strip_cast(src).func, ast.Attribute) and strip_cast(src).func.attr in ("values", "items"):
                src = strip_cast(src).func.value
            elif _fresh(fi, src):
                continue
        elif v is None or _fresh(fi, v):
            continue
        if any(mentions(src, f"self.{a}") for a in AUTH):
            return src
        if depth > 0:       # services = stored if stored else set()  with  stored = self.services_per_peer.get(..)
            for p_ in _value_positions(src):
                if isinstance(p_, ast.Name) and p_.id != name and p_.id not in fi.params():
                    r = _stored_alias(fi, p_.id, depth - 1)
                    if r is not None:
                        return r
    return None


def _reaching_defs(ctx: Ctx, fi: FuncInfo, name: str, site: ast.AST):
    """definitions (stmt, value, tuple index) of local `name` that can reach `site` without being overwritten on the way"""
    cfg = ctx.cfg(fi)
    defs = local_defs(fi, name)
    at = cfg.nodes_for(site)
    out = []
    for st, v, idx in defs:
        mine = cfg.nodes_for(st)
        others = [n for st2, _v, _i in defs if st2 is not st and not isinstance(st2, ast.AugAssign) for n in cfg.nodes_for(st2)]
        r = cfg.reach([x for n in mine for x, lab in n.succ if lab != "exc"], cut_nodes=[n for n in others if n not in mine])
        if any(n in r for n in at):
            out.append((st, v, idx))
    return out


def _entry_of_index(fi: FuncInfo, recv: ast.AST, index: str, ctx: Ctx | None = None, loops: bool = False) -> bool:
    """recv is an entry stored in self.<index>: self.<index>.get(k) / self.<index>[k] itself, a local bound to such an expression, or
    (loops=True) a loop variable ranging over the stored entries (self.<index>.values(), or what a generator method of Network yields
    out of it)"""
    recv = strip_cast(recv)
    if isinstance(recv, ast.Name):
        defs = _reaching_defs(ctx, fi, recv.id, recv) if ctx is not None and getattr(recv, "_parent", None) is not None else local_defs(fi, recv.id)
        if any(v is not None and mentions(v, f"self.{index}") and not _fresh(fi, v) for _, v, _i in defs):
            return True
        return loops and any(v is None and isinstance(st, (ast.For, ast.AsyncFor)) and _loop_var_is_entry(fi, st, recv.id, index, ctx) for st, v, _i in defs)
    if chain(recv) == f"self.{index}":
        return False
    return mentions(recv, f"self.{index}") and not _fresh(fi, recv)


def _loop_var_is_entry(fi: FuncInfo, loop: ast.AST, name: str, index: str, ctx: Ctx | None) -> bool:
    t = loop.target
    it = _unwrap(loop.iter)
    if isinstance(t, ast.Name) and t.id == name:
        return _yields_entries(fi, it, index, ctx)
    # for key, entry in self.<index>.items()
    return isinstance(t, (ast.Tuple, ast.List)) and len(t.elts) == 2 and _is_name(t.elts[1], name) and isinstance(it, ast.Call) \
        and isinstance(it.func, ast.Attribute) and it.func.attr == "items" and chain(it.func.value) == f"self.{index}"


def _yield_sites(fi: FuncInfo, it: ast.AST, index: str, ctx: Ctx | None, depth: int = 2) -> list[tuple[FuncInfo, ast.AST, ast.AST]] | None:
    """
    The iterable `it` of fi hands out entries stored in self.<index> that one of Network's generator methods yields:
    [(method, yield node, yielded expression)], or None when it is not (only) that.
    """
    it = _unwrap(it)
    if not isinstance(it, ast.Call) or depth <= 0 or fi.cls is None:
        return None
    ts = _call_targets(fi.cls, fi, it)
    if not ts:
        return None
    out = []
    for t in ts:
        ys = [n for n in walk_no_nested(t.node) if isinstance(n, (ast.Yield, ast.YieldFrom))]
        if not ys or any(isinstance(n, ast.Return) and n.value is not None for n in walk_no_nested(t.node)):
            return None
        for y in ys:
            if isinstance(y, ast.YieldFrom):
                inner = _yield_sites(t, y.value, index, ctx, depth - 1)
                if inner is None:
                    if not _yields_entries(t, y.value, index, ctx, depth - 1):
                        return None
                    continue
                out += inner
            elif y.value is None or not _entry_of_index(t, y.value, index, ctx):
                return None
            else:
                out.append((t, y, y.value))
    return out


def _yields_entries(fi: FuncInfo, it: ast.AST, index: str, ctx: Ctx | None, depth: int = 2) -> bool:
    """the elements of the iterable are entries stored in self.<index>"""
    it = _unwrap(it)
    if isinstance(it, ast.Call) and isinstance(it.func, ast.Attribute) and it.func.attr == "values" and chain(it.func.value) == f"self.{index}":
        return True
    if isinstance(it, (ast.ListComp, ast.SetComp, ast.GeneratorExp)):
        elt = strip_cast(it.elt)
        if isinstance(elt, ast.Name):
            return any(isinstance(g.target, ast.Name) and g.target.id == elt.id and _yields_entries(fi, g.iter, index, ctx, depth) for g in it.generators)
        return mentions(elt, f"self.{index}") and not _fresh(fi, elt)
    if isinstance(it, ast.Name) and it.id not in fi.params() and depth > 0:
        vals = _bound_values(fi, it)
        return bool(vals) and all(v is not None and _yields_entries(fi, v, index, ctx, depth - 1) for v in vals)
    return _yield_sites(fi, it, index, ctx, depth) is not None


def _alias_mutations(fi: FuncInfo):
    """(node, local, source) for mutations applied to a local that aliases an authoritative collection / one of its stored values."""
    out = []
    for n in walk_no_nested(fi.node):
        var = None
        if isinstance(n, ast.Call) and isinstance(n.func, ast.Attribute) and n.func.attr in _MUTATING and not isinstance(n.func.value, ast.Name):
            # self.services_per_peer.get(k, set()).add(x): the stored value itself, without a local in between
            recv = strip_cast(n.func.value)
            if chain(recv) not in [f"self.{a}" for a in AUTH] and any(mentions(recv, f"self.{a}") for a in AUTH) and not _fresh(fi, recv):
                out.append((n, norm(recv)[:40], recv))
            continue
        if isinstance(n, ast.Call) and isinstance(n.func, ast.Attribute) and n.func.attr in _MUTATING and isinstance(n.func.value, ast.Name):
            var = n.func.value.id
        elif isinstance(n, ast.AugAssign) and isinstance(n.target, ast.Name):
            var = n.target.id
        elif isinstance(n, (ast.Assign, ast.Delete)):
            for t in n.targets:
                if isinstance(t, ast.Subscript) and isinstance(t.value, ast.Name):
                    var = t.value.id
        if var is None or var in fi.params():
            continue
        src = _stored_alias(fi, var)
        if src is not None:
            out.append((n, var, src))
    return out


_ADD_OPS = ("add", "update", "setdefault", "__setitem__", "set[]", "aug[]")
_REMOVE_OPS = ("remove", "discard", "pop", "clear", "popitem", "difference_update", "intersection_update", "symmetric_difference_update", "__delitem__",
               "del[]", "del")


def _added_entries(fi: FuncInfo, n: ast.AST, op: str) -> list[ast.AST] | None:
    """the value expressions a dict mutation may store (None: not syntactically known)"""
    def of_mapping(m):
        m = _unwrap(resolve(fi, m)) if m is not None else None
        if isinstance(m, ast.Dict) and all(k is not None for k in m.keys):
            return list(m.values)
        if isinstance(m, ast.DictComp):
            return [m.value]
        if isinstance(m, ast.Call) and (chain(m.func) or "").endswith("dict.fromkeys") and len(m.args) == 2:
            return [m.args[1]]
        return None
    if op == "set[]" and isinstance(n, (ast.Assign, ast.AnnAssign)):
        return [n.value] if n.value is not None else None
    if op in ("setdefault", "__setitem__") and isinstance(n, ast.Call):
        v = arg(n, 1, "default" if op == "setdefault" else "value")
        return [v] if v is not None else None
    if op == "update" and isinstance(n, ast.Call) and len(n.args) == 1 and not n.keywords:
        return of_mapping(n.args[0])
    if op == "aug" and isinstance(n, ast.AugAssign) and isinstance(n.op, ast.BitOr):
        return of_mapping(n.value)
    return None


def mutation_sites(ctx: Ctx):
    """(function, collection, kind, node) for every mutation of an authoritative collection in network.py (direct, through a local
    alias of the collection, or through a variable ranging over a literal of collections)."""
    net = ctx.repo.cls("Network", NW)
    out = []
    for fi in [f for f in ctx.repo.module(NW).all_functions if f.cls is net]:
        for a in AUTH:
            for n, op, recv, key in _coll_ops(fi, a):
                kind = None
                if op in _ADD_OPS or (op == "aug" and isinstance(n.op, ast.BitOr)):
                    kind = "add"
                    if a == "_all_addresses":
                        # WalkableAddress(b"", ...) names no introducer: irrelevant for the intro cache
                        vals = _added_entries(fi, n, op)
                        if vals and all(_blank_introducer(fi, v) for v in vals):
                            kind = "add-neutral"
                elif op in _REMOVE_OPS or op == "aug":
                    kind = "remove"
                elif op == "rebind" and fi.name != "__init__":
                    kind = "remove"      # rebinding: may drop members
                if kind is not None:
                    out.append((fi, a, kind, n))
    return out


def _blank_introducer(fi: FuncInfo, v: ast.AST) -> bool:
    wa = _wa_args(fi, v)
    return wa is not None and wa[0] is not None and const_value(resolve(fi, wa[0])) == b""


_INDEX_WRITES = ("pop", "clear", "popitem", "remove", "append", "update", "__setitem__", "__delitem__", "setdefault", "set[]", "aug[]", "del[]", "rebind", "aug", "del")


def _updates_index(ctx: Ctx, fi: FuncInfo, index: str, depth: int = 2) -> bool:
    """Does fi (or a Network helper it calls) write the derived index?"""
    if any(op in _INDEX_WRITES for _n, op, _r, _k in _coll_ops(fi, index)):
        return True
    for n in walk_no_nested(fi.node):
        if isinstance(n, ast.Call) and isinstance(n.func, ast.Attribute) and n.func.attr in ("append", "remove", "extend", "insert", "add", "discard", "pop", "clear") \
                and _entry_of_index(fi, n.func.value, index, ctx, loops=n.func.attr in ("append", "extend", "insert", "add")):
            # a cached list reached through a local / an expression: cache = self.<index>.get(k); cache.append(x) - or handed out by a
            # generator helper the mutator loops over (growth only: purging the removed peer by value is rule_removal's business, and
            # the cure for stale members the matrix relies on is the validating reader)
            return True
    if depth > 0 and fi.cls is not None:
        for c in calls(fi):
            for t in _call_targets(fi.cls, fi, c):
                if t.name not in ("add_verified_peer",) and _updates_index(ctx, t, index, depth - 1):
                    return True
    return False


def _callers_update(ctx: Ctx, fi: FuncInfo, index: str, depth: int = 2) -> bool:
    """fi is a private helper (the mutation was moved out of the mutator): every function that uses it writes the derived index"""
    if depth <= 0 or fi.cls is None or not _is_private(fi):
        return False
    sites = _internal_call_sites(ctx, fi.cls, fi)
    if not sites:
        return False
    return all(_updates_index(ctx, caller, index) or _callers_update(ctx, caller, index, depth - 1) for caller, _c in sites)


# ------------------------------------------------------------------------------------------------------------------
# semantic helpers (alias resolution over ALL reaching definitions, fresh-copy recognition, iteration contexts)

_WRAPPERS = ("set", "list", "tuple", "frozenset", "sorted")


def _unwrap(e: ast.AST) -> ast.AST:
    """set(x) / list(x) / tuple(x) / frozenset(x) / sorted(x) / cast(T, x) -> x: same members."""
    e = strip_cast(e)
    while isinstance(e, ast.Call) and isinstance(e.func, ast.Name) and e.func.id in _WRAPPERS and len(e.args) == 1 and not e.keywords:
        e = strip_cast(e.args[0])
    return e


def _resolves_to(fi: FuncInfo, expr: ast.AST, pred, depth: int = 4) -> bool:
    """pred holds for expr, or expr is a local all of whose definitions (recursively) satisfy pred."""
    if expr is None:
        return False
    expr = strip_cast(expr)
    try:
        if pred(expr):
            return True
    except Exception:  # noqa: BLE001
        pass
    if depth > 0 and isinstance(expr, ast.Name) and expr.id not in fi.params():
        defs = local_defs(fi, expr.id)
        if defs and all(v is not None and idx is None for _, v, idx in defs):
            return all(_resolves_to(fi, v, pred, depth - 1) for _, v, idx in defs)
    return False


def _is_name(e: ast.AST, names) -> bool:
    e = strip_cast(e)
    return isinstance(e, ast.Name) and (e.id == names if isinstance(names, str) else e.id in names)


def _key_of(raw: ast.AST) -> ast.AST | None:
    if isinstance(raw, ast.Call):
        return arg(raw, 0, "key")
    if isinstance(raw, ast.Subscript):
        return raw.slice
    return None


def _key_bin_of(fi: FuncInfo, e: ast.AST, who: str) -> bool:
    """e evaluates <who>.public_key.key_to_bin()"""
    return _resolves_to(fi, e, lambda x: chain(x) == f"{who}.public_key.key_to_bin()")


def _raw_reads(fi: FuncInfo, index: str, helpers=()) -> list[ast.AST]:
    """Expressions that take a cached value out of self.<index> (directly, or through a private helper that hands the entry out unvalidated)."""
    out = []
    for n in walk_no_nested(fi.node):
        if isinstance(n, ast.Call) and any(chain(n.func) == f"self.{h}" for h in helpers):
            out.append(n)
        elif isinstance(n, ast.Call) and isinstance(n.func, ast.Attribute) and chain(n.func.value) == f"self.{index}" \
                and n.func.attr in ("get", "pop", "setdefault", "values", "items"):
            out.append(n)
        elif isinstance(n, ast.Subscript) and isinstance(n.ctx, ast.Load) and chain(n.value) == f"self.{index}":
            out.append(n)
    return out


def _value_positions(e: ast.AST) -> list[ast.AST]:
    """Sub-expressions whose value can be the value of e (through casts, conditional expressions, and/or)."""
    e = strip_cast(e)
    if isinstance(e, ast.IfExp):
        return _value_positions(e.body) + _value_positions(e.orelse)
    if isinstance(e, ast.BoolOp):
        return [p for v in e.values for p in _value_positions(v)]
    if isinstance(e, ast.NamedExpr):
        return _value_positions(e.value)
    return [e]


# ------------------------------------------------------------------------------------------------------------------
# which stored collection does a receiver expression denote: self.<coll> itself, a local alias of it (ALL definitions), a loop /
# comprehension variable that ranges over a literal tuple of collections (`for m in (self.a, self.b): m.pop(k, None)` - the variable
# denotes the set of the literal's values), or getattr(self, "<name>") with a constant / literal-ranged name

_COMPS = (ast.ListComp, ast.SetComp, ast.GeneratorExp, ast.DictComp)


def _loop_values(fi: FuncInfo, target: ast.AST, it: ast.AST, name: str) -> list[ast.AST]:
    """the expressions `name` is bound to by `for <target> in <it>` when <it> is a literal tuple / list / set (also behind a local)"""
    it = _unwrap(resolve(fi, it))
    if not isinstance(it, (ast.Tuple, ast.List, ast.Set)):
        return []
    if isinstance(target, ast.Name):
        return list(it.elts) if target.id == name else []
    if isinstance(target, (ast.Tuple, ast.List)):
        for i, te in enumerate(target.elts):
            if isinstance(te, ast.Name) and te.id == name:
                return [x.elts[i] for x in it.elts if isinstance(x, (ast.Tuple, ast.List)) and len(x.elts) == len(target.elts)]
    return []


def _bound_values(fi: FuncInfo, e: ast.Name) -> list[ast.AST | None]:
    """every expression the local e may be bound to (None: a binding whose value is not syntactically known)"""
    out: list[ast.AST | None] = []
    for st, v, idx in local_defs(fi, e.id):
        if v is not None and idx is None:
            out.append(v)
        elif v is None and isinstance(st, (ast.For, ast.AsyncFor)):
            vals = _loop_values(fi, st.target, st.iter, e.id)
            out += vals if vals else [None]
        else:
            out.append(None)
    for a_ in ancestors(e):
        if isinstance(a_, _COMPS):
            for g in a_.generators:
                if any(isinstance(x, ast.Name) and x.id == e.id for x in ast.walk(g.target)):
                    vals = _loop_values(fi, g.target, g.iter, e.id)
                    out += vals if vals else [None]
        if a_ is fi.node:
            break
    return out


def _const_strings(fi: FuncInfo, e: ast.AST) -> list[str]:
    e = strip_cast(e)
    c = const_value(resolve(fi, e))
    if isinstance(c, str):
        return [c]
    if isinstance(e, ast.Name) and e.id not in fi.params():
        vals = [const_value(v) if v is not None else None for v in _bound_values(fi, e)]
        return [v for v in vals if isinstance(v, str)]
    return []


def _denotes(fi: FuncInfo, e: ast.AST, depth: int = 3) -> set[str]:
    """the `self.<attr>` objects the value of e may BE (not a copy, not an element)"""
    e = strip_cast(e)
    if isinstance(e, ast.Attribute):
        return {"self." + e.attr} if isinstance(e.value, ast.Name) and e.value.id == "self" else set()
    if isinstance(e, ast.Call):
        if chain(e.func) == "getattr" and len(e.args) >= 2 and _is_name(e.args[0], "self"):
            return {"self." + s for s in _const_strings(fi, e.args[1])}
        return set()
    if isinstance(e, (ast.IfExp, ast.BoolOp, ast.NamedExpr)):
        return {d for p_ in _value_positions(e) if p_ is not e for d in _denotes(fi, p_, depth)}
    if isinstance(e, ast.Name) and depth > 0 and e.id != "self" and e.id not in fi.params():
        return {d for v in _bound_values(fi, e) if v is not None for d in _denotes(fi, v, depth - 1)}
    return set()


def _coll_ops(fi: FuncInfo, coll: str) -> list[tuple[ast.AST, str, ast.AST, ast.AST | None]]:
    """
    (node, op, receiver, key) for every operation applied to self.<coll> in fi - spelled directly, through a local alias or through a
    variable ranging over a literal of collections.  op is the method name for calls; "set[]" / "aug[]" / "del[]" for subscript targets;
    "rebind" / "aug" / "del" for the attribute itself.  key: first argument / subscript.
    """
    want = "self." + coll
    out = []
    for n in walk_no_nested(fi.node):
        if isinstance(n, ast.Call) and isinstance(n.func, ast.Attribute):
            if want in _denotes(fi, n.func.value):
                out.append((n, n.func.attr, n.func.value, arg(n, 0)))
        elif isinstance(n, (ast.Assign, ast.AugAssign, ast.AnnAssign, ast.Delete)):
            tgts = n.targets if isinstance(n, (ast.Assign, ast.Delete)) else [n.target]
            kind = "del" if isinstance(n, ast.Delete) else "aug" if isinstance(n, ast.AugAssign) else "set"
            for t0 in tgts:
                for t in (t0.elts if isinstance(t0, (ast.Tuple, ast.List)) else [t0]):
                    if isinstance(t, ast.Subscript) and want in _denotes(fi, t.value):
                        out.append((n, kind + "[]", t.value, t.slice))
                    elif isinstance(t, ast.Attribute) and chain(t) == want and (kind != "set" or not isinstance(n, ast.AnnAssign) or n.value is not None):
                        out.append((n, "rebind" if kind == "set" else kind, t, None))
    return out


def _loop_binding(fi: FuncInfo, recv: ast.AST):
    """the `for` statement over a literal whose variable is the receiver `recv` - or names it: getattr(self, <variable>) - and the only
    definition of that local, else None"""
    recv = strip_cast(recv)
    if isinstance(recv, ast.Call) and chain(recv.func) == "getattr" and len(recv.args) >= 2 and _is_name(recv.args[0], "self"):
        recv = strip_cast(recv.args[1])
    if not isinstance(recv, ast.Name):
        return None
    defs = local_defs(fi, recv.id)
    if len(defs) == 1 and defs[0][1] is None and isinstance(defs[0][0], (ast.For, ast.AsyncFor)) and _loop_values(fi, defs[0][0].target, defs[0][0].iter, recv.id):
        return defs[0][0]
    return None


def _must_op_nodes(ctx: Ctx, fi: FuncInfo, coll: str, want, skip_edge=None) -> list:
    """
    CFG nodes of fi at which an operation accepted by want(node, op, receiver, key) is CERTAINLY applied to self.<coll>: the operation
    node itself when its receiver can only be that collection; the head of a loop over a non-empty literal of collections that contains
    it when every iteration performs the operation on the loop variable (or takes a condition outcome accepted by skip_edge: nothing to
    do for this collection) and the loop always runs to exhaustion.
    """
    cfg = ctx.cfg(fi)
    out = []
    for n, op, recv, key in _coll_ops(fi, coll):
        if not want(n, op, recv, key):
            continue
        if _denotes(fi, recv) == {"self." + coll}:
            out += cfg.nodes_for(n)
            continue
        loop = _loop_binding(fi, recv)
        if loop is not None and _every_iteration(cfg, loop, cfg.nodes_for(n), skip_edge) and _exhaustive(cfg, loop):
            out += [h for h in cfg.nodes_for(loop) if h.kind == "loop"]
    return out


# ------------------------------------------------------------------------------------------------------------------
# calls of Network's own methods: direct (`self._h(..)`), through a local bound to a method, or picked from a literal dispatch table
# (dict / tuple literal, subscripted or .get()) - a callable picked from a table denotes the set of the table's values

def _callable_names(fi: FuncInfo, e: ast.AST, depth: int = 3) -> list[str] | None:
    """names of the `self.<method>` callables the expression may evaluate to; None when some alternative is not of that form"""
    e = strip_cast(e)
    if isinstance(e, ast.Attribute):
        return [e.attr] if isinstance(e.value, ast.Name) and e.value.id == "self" else None
    if depth <= 0:
        return None
    alts: list[ast.AST | None]
    if isinstance(e, (ast.IfExp, ast.BoolOp, ast.NamedExpr)):
        alts = [p_ for p_ in _value_positions(e) if p_ is not e]
    elif isinstance(e, ast.Name) and e.id not in fi.params():
        alts = _bound_values(fi, e)
    elif isinstance(e, ast.Subscript):
        table = _unwrap(resolve(fi, e.value))
        if isinstance(table, ast.Dict):
            alts = list(table.values)
        elif isinstance(table, (ast.Tuple, ast.List)):
            alts = list(table.elts)
        else:
            return None
    elif isinstance(e, ast.Call) and isinstance(e.func, ast.Attribute) and e.func.attr == "get" and isinstance(_unwrap(resolve(fi, e.func.value)), ast.Dict):
        alts = list(_unwrap(resolve(fi, e.func.value)).values) + [a_ for a_ in e.args[1:2] if const_value(a_) is not None]
    elif isinstance(e, ast.Call) and chain(e.func) == "getattr" and len(e.args) >= 2 and _is_name(e.args[0], "self"):
        names = _const_strings(fi, e.args[1])
        return names or None
    else:
        return None
    out: list[str] = []
    for a_ in alts:
        if a_ is not None and const_value(strip_cast(a_)) is None:
            continue        # `None` in a dispatch table: "nothing to call" (the caller tests for it)
        r = _callable_names(fi, a_, depth - 1) if a_ is not None else None
        if r is None:
            return None
        out += r
    return out or None


def _call_targets(net, fi: FuncInfo, call: ast.Call) -> list[FuncInfo]:
    """the methods of Network a call may run (empty: not a call of Network's own methods / not resolvable)"""
    if isinstance(call.func, ast.Attribute) and not (isinstance(call.func.value, ast.Name) and call.func.value.id == "self"):
        return []
    names = _callable_names(fi, call.func)
    if not names:
        return []
    ts = [net.methods.get(nm) for nm in names]
    return [] if any(t is None for t in ts) else [t for t in dict.fromkeys(ts) if t.node is not fi.node]


def _params_of(t: FuncInfo) -> list[str]:
    """the parameters that call arguments bind to (without self / cls)"""
    return t.params() if "staticmethod" in t.decorator_names() else t.params()[1:]


def _is_private(fi: FuncInfo) -> bool:
    return fi.name.startswith("_") and not fi.name.startswith("__")


def _bind(fi: FuncInfo, call: ast.Call, t: FuncInfo, who: ast.AST | None) -> ast.AST | None:
    """the caller's expression `who`, seen from inside the called method t: the parameter it is passed as (a Name), or None"""
    if who is None:
        return None
    params = _params_of(t)
    for i, a_ in enumerate(call.args):
        if i < len(params) and not isinstance(a_, ast.Starred) and same_resolved(fi, a_, who):
            return ast.Name(id=params[i], ctx=ast.Load())
    for k in call.keywords:
        if k.arg and same_resolved(fi, k.value, who):
            return ast.Name(id=k.arg, ctx=ast.Load())
    return None


def _arg_for(call: ast.Call, t: FuncInfo, param: str) -> ast.AST | None:
    """the argument expression a call passes for parameter `param` of method t"""
    params = _params_of(t)
    if param in params and params.index(param) < len(call.args) and not any(isinstance(a_, ast.Starred) for a_ in call.args):
        return call.args[params.index(param)]
    for k in call.keywords:
        if k.arg == param:
            return k.value
    return None


def _unbind(fi: FuncInfo, call: ast.Call, t: FuncInfo, inner: ast.AST | None) -> ast.AST | None:
    """an expression of the called method t that is (an alias of) one of its parameters, seen from the caller: the argument expression"""
    if inner is None:
        return None
    r = resolve(t, inner)
    if isinstance(r, ast.Name) and r.id in t.params():
        return _arg_for(call, t, r.id)
    return None


def _internal_call_sites(ctx: Ctx, net, t: FuncInfo) -> list[tuple[FuncInfo, ast.Call]] | None:
    """(caller, call) for every use of Network method t; None when t is referenced from outside Network or other than by a resolvable call"""
    memo = ctx.__dict__.setdefault("_c12_call_sites", {})
    if id(t.node) not in memo:
        memo[id(t.node)] = _internal_call_sites_uncached(ctx, net, t)
    return memo[id(t.node)]


def _internal_call_sites_uncached(ctx: Ctx, net, t: FuncInfo) -> list[tuple[FuncInfo, ast.Call]] | None:
    out = []
    called = set()
    for fi in net.methods.values():
        for c in calls(fi):
            if t in _call_targets(net, fi, c):
                out.append((fi, c))
                called.add(id(c.func))
                called |= {id(x) for x in ast.walk(c.func)}
    for m, fi, a in ctx.repo.attribute_uses(t.name):
        on_self = isinstance(a.value, ast.Name) and a.value.id == "self"
        if fi is not None and fi.cls is net:
            # a reference that is not itself the callee (a dispatch-table value): fine when some call in the same function resolves to t
            if not on_self or (id(a) not in called and not any(f is fi for f, _c in out)):
                return None
            continue
        if on_self or "network" not in (chain(a.value) or "network").lower():
            continue        # an attribute of the same name on another object (self.<name> of another class, <not a network>.<name>)
        return None
    return out


# ------------------------------------------------------------------------------------------------------------------
# "every way of reaching this site establishes R": decided on the CFG by cutting the edges that establish R (condition outcomes, the
# exhausted-edge of a loop that checked every element); a condition on the RESULT of one of Network's own methods (decision helper:
# bool / None / tag / tuple element) establishes R when every `return` of that helper that is compatible with the outcome does.

def _cases(e: ast.AST, pol: bool, limit: int = 24) -> list[list]:
    """the ways e can be truthy (pol) / falsy: a list of alternatives, each a list of atom facts that then hold"""
    e = strip_cast(e)
    c = const_value(e)
    if _is_const(c):
        return [[]] if bool(c) == pol else []
    if isinstance(e, ast.UnaryOp) and isinstance(e.op, ast.Not):
        return _cases(e.operand, not pol, limit)
    if isinstance(e, ast.BoolOp):
        if isinstance(e.op, ast.And) == pol:        # every operand has the polarity
            out = [[]]
            for v in e.values:
                out = [a_ + b_ for a_ in out for b_ in _cases(v, pol, limit)]
                if len(out) > limit:
                    return [[]]
            return out
        return [c_ for v in e.values for c_ in _cases(v, pol, limit)]
    if isinstance(e, ast.IfExp):
        return [t_ + b_ for t_ in _cases(e.test, True, limit) for b_ in _cases(e.body, pol, limit)] + \
               [t_ + b_ for t_ in _cases(e.test, False, limit) for b_ in _cases(e.orelse, pol, limit)]
    return [[fact_of(e, pol)]]


def _result_test(f):
    """fact f is a test of one value: (subject expression, accept(constant) -> bool, 'truthy' | 'falsy' | None)"""
    if isinstance(f.left, (ast.For, ast.AsyncFor, ast.While)):
        return None
    if f.op == "truthy":
        left, pos = f.left, f.pos
        while isinstance(left, ast.UnaryOp) and isinstance(left.op, ast.Not):
            left, pos = left.operand, not pos
        return left, (lambda c, pos=pos: bool(c) == pos), "truthy" if pos else "falsy"
    if f.op == "is" and const_value(f.right) is None:
        return f.left, (lambda c, pos=f.pos: (c is None) == pos), None
    if f.op == "eq":
        for a_, b_ in ((f.left, f.right), (f.right, f.left)):
            cv = const_value(b_)
            if _is_const(cv):
                return a_, (lambda c, pos=f.pos, cv=cv: (c == cv) == pos), None
    if f.op == "in" and isinstance(strip_cast(f.right), (ast.Tuple, ast.List, ast.Set)):
        vals = [const_value(x) for x in strip_cast(f.right).elts]
        if all(_is_const(v) for v in vals):
            return f.left, (lambda c, pos=f.pos, vals=vals: (c in vals) == pos), None
    return None


def _is_const(v) -> bool:
    return v is None or isinstance(v, (bool, int, float, str, bytes, tuple))


def _subject_calls(fi: FuncInfo, subj: ast.AST, depth: int = 3) -> list[tuple[ast.Call, int | None]] | None:
    """the calls whose result (or whose result's element i) the subject expression is, over ALL its definitions; None when it may be something else"""
    subj = strip_cast(subj)
    if isinstance(subj, ast.NamedExpr):
        subj = strip_cast(subj.value)
    if isinstance(subj, ast.Await):
        subj = strip_cast(subj.value)
    if isinstance(subj, ast.Call):
        return [(subj, None)]
    if isinstance(subj, ast.Subscript) and isinstance(const_value(subj.slice), int):
        inner = _subject_calls(fi, subj.value, depth)
        return None if inner is None or any(i is not None for _c, i in inner) else [(c, const_value(subj.slice)) for c, _i in inner]
    if isinstance(subj, ast.Name) and depth > 0 and subj.id not in fi.params():
        out = []
        defs = local_defs(fi, subj.id)
        for _st, v, idx in defs:
            if v is None:
                return None
            inner = _subject_calls(fi, v, depth - 1)
            if inner is None or (idx is not None and any(i is not None for _c, i in inner)):
                return None
            out += [(c, idx if idx is not None else i) for c, i in inner]
        return out or None
    return None


def _guarded(ctx: Ctx, net, fi: FuncInfo, site, who, edge_ok, depth: int = 2, extra=()) -> bool:
    """every path from fi's entry to `site` takes an edge that establishes the requirement (edge_ok(fi, fact, who)), possibly decided by a helper"""
    cfg = ctx.cfg(fi)
    memo: dict = {}

    def est(f) -> bool:
        k = (id(f.atom), f.pos)
        if k not in memo:
            memo[k] = False         # recursion guard
            try:
                memo[k] = bool(edge_ok(fi, f, who))
            except AnalysisError:
                raise
            except Exception:  # noqa: BLE001
                memo[k] = False
            if not memo[k] and depth > 0:
                memo[k] = _decided_by_helper(ctx, net, fi, f, who, edge_ok, depth - 1)
        return memo[k]
    if any(est(f) for f in extra):
        return True
    if isinstance(site, ast.AST):
        if any(est(f) for f in expr_context_facts(site)):
            return True
        nodes = cfg.nodes_for(site)
    else:
        nodes = [site]
    if not nodes:
        raise AnalysisError(f"undecided: no control-flow node for `{norm(site)[:60]}` in {fi.qualname}")

    def cut(u, v, lab):
        return u.kind in ("cond", "loop") and lab in (True, False) and u.ast is not None and est(fact_of(u.ast, lab))
    r = cfg.reach(cut_edge=cut)
    return not any(n in r for n in nodes)


def _decided_by_helper(ctx: Ctx, net, fi: FuncInfo, f, who, edge_ok, depth: int) -> bool:
    """fact f tests the result of one of Network's own methods, and every `return` of it that is compatible with f establishes the requirement"""
    rt = _result_test(f)
    if rt is None:
        return False
    subj, accept, mode = rt
    subjects = _subject_calls(fi, subj)
    if not subjects:
        return False
    for call, idx in subjects:
        targets = _call_targets(net, fi, call)
        if not targets:
            return False
        for t in targets:
            if not _returns_establish(ctx, net, t, idx, accept, mode, _bind(fi, call, t, who), edge_ok, depth):
                return False
    return True


def _compatible_returns(t: FuncInfo, idx, accept, mode) -> list[tuple[ast.Return, list[list]]]:
    """(return statement, alternatives) for every `return` of t whose value (element idx of it) may be compatible with the tested
    outcome; each alternative is the list of atom facts that hold when the returned expression has the outcome"""
    out = []
    for r in [n for n in walk_no_nested(t.node) if isinstance(n, ast.Return)]:
        v = r.value
        known = True
        if idx is not None:
            tv = strip_cast(v) if v is not None else None
            if isinstance(tv, ast.Tuple) and idx < len(tv.elts) and not any(isinstance(x, ast.Starred) for x in tv.elts):
                v = tv.elts[idx]
            else:
                known = False
        cases: list[list] = [[]]
        if known:
            c = None if v is None else const_value(strip_cast(v))
            if _is_const(c):
                if not accept(c):
                    continue
            elif mode is not None:
                cases = _cases(v, mode == "truthy")
        out.append((r, cases))
    return out


def _falls_off_end(ctx: Ctx, t: FuncInfo, cut_edge=None) -> bool:
    """the end of t's body can be reached without a `return` (the call then yields None)"""
    cfg = ctx.cfg(t)
    rets = [n for r in walk_no_nested(t.node) if isinstance(r, ast.Return) for n in cfg.nodes_for(r)]
    return cfg.exit in cfg.reach(cut_nodes=rets, cut_edge=cut_edge, follow_exc=False)


def _returns_establish(ctx: Ctx, net, t: FuncInfo, idx, accept, mode, who, edge_ok, depth: int) -> bool:
    if any(isinstance(n, (ast.Yield, ast.YieldFrom)) for n in walk_no_nested(t.node)):
        return False
    for r, cases in _compatible_returns(t, idx, accept, mode):
        for case in cases:
            if not _guarded(ctx, net, t, r, who, edge_ok, depth, extra=case):
                return False
    if idx is None and accept(None):
        # falling off the end returns None, which is compatible with the outcome: the end must not be reachable around the requirement
        memo: dict = {}

        def cut(u, v, lab):
            if not (u.kind in ("cond", "loop") and lab in (True, False) and u.ast is not None):
                return False
            f = fact_of(u.ast, lab)
            k = (id(f.atom), f.pos)
            if k not in memo:
                try:
                    memo[k] = bool(edge_ok(t, f, who))
                except AnalysisError:
                    raise
                except Exception:  # noqa: BLE001
                    memo[k] = False
            return memo[k]
        if _falls_off_end(ctx, t, cut):
            return False
    return True


class _SubstNames(ast.NodeTransformer):
    def __init__(self, mapping: dict[str, ast.AST]) -> None:
        self.mapping = mapping

    def visit_Name(self, n: ast.Name):
        return clone(self.mapping[n.id]) if n.id in self.mapping and isinstance(n.ctx, ast.Load) else n


def _translate(t: FuncInfo, expr: ast.AST, binding: dict[str, ast.AST], depth: int = 3) -> ast.AST | None:
    """an expression of method t in the caller's terms: pure single-assignment locals expanded, parameters replaced by the arguments;
    None when it depends on anything else that is local to t"""
    e = clone(expr)
    own = {n.id for n in ast.walk(e) if isinstance(n, ast.Name) and isinstance(n.ctx, ast.Store)}
    params = set(t.params())
    locals_ = {n.id for n in walk_no_nested(t.node) if isinstance(n, ast.Name) and isinstance(n.ctx, ast.Store)} - params
    for _ in range(depth + 1):
        names = {n.id for n in ast.walk(e) if isinstance(n, ast.Name) and isinstance(n.ctx, ast.Load)} & locals_ - own
        if not names:
            break
        m = {}
        for nm in names:
            d = single_def(t, nm)
            if d is None or d[1] is not None or not _pure_expr(d[0]):
                return None
            m[nm] = d[0]
        e = _SubstNames(m).visit(e)
    else:
        return None
    used = {n.id for n in ast.walk(e) if isinstance(n, ast.Name) and isinstance(n.ctx, ast.Load)} & params - {"self", "cls"} - own
    if not used <= set(binding):
        return None
    return _SubstNames(binding).visit(e)


def _pure_expr(e: ast.AST) -> bool:
    """no call other than the read-only ones this module reasons about (dict.get / .values / key_to_bin / len ...)"""
    for n in ast.walk(e):
        if isinstance(n, (ast.Await, ast.Yield, ast.YieldFrom, ast.NamedExpr)):
            return False
        if isinstance(n, ast.Call):
            nm = n.func.attr if isinstance(n.func, ast.Attribute) else n.func.id if isinstance(n.func, ast.Name) else None
            if nm not in ("get", "values", "keys", "items", "key_to_bin", "len", "set", "list", "tuple", "frozenset", "sorted", "cast", "bool", "any", "all"):
                return False
    return True


def _call_binding(t: FuncInfo, call: ast.Call) -> dict[str, ast.AST]:
    params = _params_of(t)
    out = {params[i]: a_ for i, a_ in enumerate(call.args) if i < len(params) and not isinstance(a_, ast.Starred)}
    out.update({k.arg: k.value for k in call.keywords if k.arg})
    return out


def _helper_facts(ctx: Ctx, net, fi: FuncInfo, f, depth: int = 1) -> list:
    """
    Fact f tests the result of one of Network's own methods (a predicate / decision helper that could not be inlined): the facts, in the
    caller's terms, that hold at EVERY `return` of the helper compatible with the tested outcome.  [] when f is not such a test.
    """
    rt = _result_test(f)
    if rt is None:
        return []
    subj, accept, mode = rt
    subjects = _subject_calls(fi, subj)
    if not subjects:
        return []
    common: dict | None = None
    for call, idx in subjects:
        ts = _call_targets(net, fi, call)
        if not ts:
            return []
        for t in ts:
            if any(isinstance(n, (ast.Yield, ast.YieldFrom)) for n in walk_no_nested(t.node)):
                return []
            binding = _call_binding(t, call)
            cfg = ctx.cfg(t)
            alts: list[list] = []
            for r, cases in _compatible_returns(t, idx, accept, mode):
                here = facts_at(cfg, r)
                alts += [here + case for case in cases]
            if idx is None and accept(None) and _falls_off_end(ctx, t):
                alts.append([])
            for facts in alts:
                if depth > 0:
                    facts = facts + [g for h in facts for g in _helper_facts_local(ctx, net, t, h, depth - 1)]
                mine = {}
                for h in facts:
                    if isinstance(h.left, (ast.For, ast.AsyncFor, ast.While)):
                        continue
                    atom = _translate(t, h.atom, binding)
                    if atom is None:
                        continue
                    pol = fact_of(h.atom, True).pos == h.pos
                    g = fact_of(atom, pol)
                    mine[(ast.dump(atom), g.pos)] = g
                common = mine if common is None else {k: v for k, v in common.items() if k in mine}
    return list((common or {}).values())


def _helper_facts_local(ctx: Ctx, net, fi: FuncInfo, f, depth: int) -> list:
    try:
        return _helper_facts(ctx, net, fi, f, depth)
    except RecursionError:      # pragma: no cover
        return []


def _with_helper_facts(ctx: Ctx, fi: FuncInfo, facts: list) -> list:
    """facts plus what the decision helpers they test establish (see _helper_facts)"""
    if not any(isinstance(n, ast.Call) for f in facts if not isinstance(f.left, (ast.For, ast.AsyncFor, ast.While)) for n in ast.walk(f.atom)):
        return facts
    net = ctx.repo.cls("Network", NW)
    return facts + [g for f in facts for g in _helper_facts(ctx, net, fi, f)]


def _loop_forall(ctx: Ctx, fi: FuncInfo, loop: ast.AST, holds) -> bool:
    """every iteration of `loop` that goes on to the next element took a condition edge with holds(fact, loop variable): when the loop is
    exhausted, the fact holds for EVERY element of the iterable"""
    if not isinstance(loop, (ast.For, ast.AsyncFor)) or not isinstance(loop.target, ast.Name):
        return False
    cfg = ctx.cfg(fi)
    x = loop.target.id

    def cut(u, v, lab):
        return u.kind == "cond" and lab in (True, False) and u.ast is not None and bool(holds(fact_of(u.ast, lab), x))
    heads = [h for h in cfg.nodes_for(loop) if h.kind == "loop"]
    if not heads:
        return False
    for h in heads:
        first = [v for v, lab in h.succ if lab is True]
        if h in cfg.reach(first, cut_edge=cut, follow_exc=False):
            return False
    return True


def _reach_sites(ctx: Ctx, net, fi: FuncInfo, find, depth: int = 3, _stack: tuple = ()) -> list[list[tuple[FuncInfo, ast.AST]]]:
    """
    Call chains from fi down to the nodes find(function) yields, through Network's private helpers: each result is a list of frames
    (function, node) where the node of every frame but the last is the call that enters the next frame's function.
    """
    out = [[(fi, n)] for n in find(fi)]
    if depth > 0:
        for c in calls(fi):
            for t in _call_targets(net, fi, c):
                if not _is_private(t) or t in _stack:
                    continue
                out += [[(fi, c)] + s for s in _reach_sites(ctx, net, t, find, depth - 1, (*_stack, fi))]
    return out


def _who_down(frames, who):
    """the caller's expression `who` as each frame of a call chain sees it (parameter passing)"""
    out = [who]
    for (fi, c), (t, _n) in zip(frames, frames[1:]):
        who = _bind(fi, c, t, who)
        out.append(who)
    return out


def _who_up(frames, inner):
    """an expression of the last frame as each outer frame sees it (the argument it passed), None where it is not a parameter"""
    out = [inner]
    for (fi, c), (t, _n) in zip(reversed(frames[:-1]), reversed(frames[1:])):
        inner = _unbind(fi, c, t, inner)
        out.append(inner)
    return list(reversed(out))


class _ReaderFlow:
    """
    Where does a value taken out of a cache (self.<index>) flow to inside one function, and is it re-validated against the
    authoritative collections before it is returned?

      kind "elem": the cached value is one member (reverse_ip_lookup: address -> Peer).  Every path from the cache read to a
                   `return <that value>` must pass, for each required fact, an edge that establishes it (or establishes that
                   the value is None / falsy, i.e. a miss), unless the variable is re-assigned from a clean source first.
      kind "list": the cached value is a list of members.  A list built from it is clean iff it is a filter (comprehension
                   with conditions, or a loop that appends the loop variable under dominating facts) whose conditions imply
                   the required facts for every kept element; anything else built from it (list(x), x[:], unfiltered
                   comprehension, ...) is as stale as the cache entry.  No path may return a stale list (None / empty is a miss).
    No statement positions are used: only definitions, dominating facts and CFG reachability.
    """

    def __init__(self, ctx: Ctx, fi: FuncInfo, index: str, kind: str, required, helpers=(), seed=None, depth: int = 2) -> None:
        self.ctx, self.fi, self.index, self.kind, self.required = ctx, fi, index, kind, required
        self.helpers, self.depth = helpers, depth
        self.raws = _raw_reads(fi, index, helpers)
        self.raw_ids = {id(r) for r in self.raws}
        self.keys = [k for k in (_key_of(r) for r in self.raws) if k is not None]
        self.tainted: set[str] = set()
        # seed: this function is followed from a caller that hands it the cached value: (parameters that hold it, parameters that hold
        # the cache key, parameters that hold the key peer's key_to_bin())
        self.seeds: frozenset[str] = frozenset(seed[0]) if seed else frozenset()
        self.key_bins: frozenset[str] = frozenset(seed[2]) if seed else frozenset()
        if seed:
            self.keys += [ast.Name(id=p_, ctx=ast.Load()) for p_ in seed[1]]
            self.tainted |= set(self.seeds)
        self._sub_memo: dict = {}
        self.events: dict[str, list[tuple[ast.stmt, str]]] = {}
        self.problems: list[str] = []
        self.validated: list[str] = []
        self.why: dict[int, str] = {}
        self.loop_events: list[tuple[str, ast.stmt, str]] = []
        self.cfg = ctx.cfg(fi) if self.raws or self.seeds else None

    # -- decision helpers and followed calls
    def expand(self, facts: list) -> list:
        return _with_helper_facts(self.ctx, self.fi, facts)

    def is_key_bin(self, e: ast.AST) -> bool:
        """e evaluates the key_to_bin() of the peer that is the cache key"""
        return any(_key_bin_of(self.fi, e, chain(k) or "?") for k in self.keys) or \
            (bool(self.key_bins) and _resolves_to(self.fi, e, lambda x: isinstance(strip_cast(x), ast.Name) and strip_cast(x).id in self.key_bins))

    def _clean_call(self, e: ast.AST, carrying) -> bool | None:
        """
        e is a call of one of Network's own methods that is handed the cached value (carrying(arg)): followed with the parameters bound.
        True: nothing unvalidated comes back (the method filters / validates what it returns or yields); False: it may; None: not such a call.
        """
        e = _unwrap(e) if self.kind == "list" else strip_cast(e)
        if not isinstance(e, ast.Call) or id(e) in self.raw_ids:
            return None
        net = self.ctx.repo.cls("Network", NW)
        ts = _call_targets(net, self.fi, e)
        if not ts:
            return None
        for t in ts:
            pairs = list(_call_binding(t, e).items())
            seeds = frozenset(p_ for p_, a_ in pairs if carrying(a_))
            if not seeds:
                return None
            if self.depth <= 0:
                return False
            keys = frozenset(p_ for p_, a_ in pairs if any(same_resolved(self.fi, a_, k) for k in self.keys))
            key_bins = frozenset(p_ for p_, a_ in pairs if self.is_key_bin(a_))
            memo = (id(t.node), seeds, keys, key_bins)
            if memo not in self._sub_memo:
                self._sub_memo[memo] = None       # recursion guard
                sub = _ReaderFlow(self.ctx, t, self.index, self.kind, self.required, self.helpers, (seeds, keys, key_bins), self.depth - 1).run()
                self._sub_memo[memo] = sub
            sub = self._sub_memo[memo]
            if sub is None or sub.problems:
                if sub is not None:
                    self.why[id(e)] = f"{t.name}: " + "; ".join(sub.problems)[:160]
                return False
            self.validated += [f"{t.name}: {v}" for v in sub.validated]
        return True

    # -- taint of expressions
    def _mentions(self, e: ast.AST) -> bool:
        return any(id(n) in self.raw_ids or (isinstance(n, ast.Name) and n.id in self.tainted) for n in ast.walk(e))

    def _carries(self, e: ast.AST) -> bool:
        """Can the value of e be (kind elem) / contain members of (kind list) the cached value?"""
        if e is None:
            return False
        if self.kind == "elem":
            return any(id(p) in self.raw_ids or (isinstance(p, ast.Name) and p.id in self.tainted) or self._clean_call(p, self._carries) is False
                       for p in _value_positions(e))
        e = strip_cast(e)
        if isinstance(e, ast.Compare) or (isinstance(e, ast.Call) and chain(e.func) in ("len", "bool", "any", "all", "isinstance")):
            return False
        if not self._mentions(e):
            return False
        if self._clean_call(e, self._carries) is True:
            return False
        return not self._clean_filter(e)

    def _clean_filter(self, value: ast.AST) -> bool:
        v = _unwrap(value)
        if not isinstance(v, (ast.ListComp, ast.SetComp, ast.GeneratorExp)):
            return False
        if self._mentions(v.elt) and not any(isinstance(g.target, ast.Name) and _is_name(v.elt, g.target.id) for g in v.generators):
            return False
        ok = False
        for i, g in enumerate(v.generators):
            if not self._mentions(g.iter):
                continue
            if not isinstance(g.target, ast.Name):
                return False
            facts = self.expand([f for g2 in v.generators[i:] for c in g2.ifs for f in _atoms_with_polarity(c, True)])
            missing = self.required(self, g.target.id, facts)
            if missing:
                self.why[id(value)] = "keeps cached members without checking " + " and ".join(missing)
                return False
            self.validated.append(f"comprehension over the cached list filtered by {'; '.join(str(f) for f in facts)}")
            ok = True
        return ok

    # -- fixpoint over local names
    def run(self) -> "_ReaderFlow":
        if not self.raws and not self.seeds:
            return self
        fi = self.fi
        names = {n.id for n in walk_no_nested(fi.node) if isinstance(n, ast.Name) and isinstance(n.ctx, ast.Store)}
        changed = True
        rounds = 0
        while changed and rounds < 10:
            changed = False
            rounds += 1
            self.problems, self.validated, self.loop_events = [], [], []
            events: dict[str, list[tuple[ast.stmt, str]]] = {}
            for name in sorted(names):
                for st, v, idx in local_defs(fi, name):
                    if v is not None and not isinstance(st, (ast.For, ast.AsyncFor)) and self._carries(v):
                        events.setdefault(name, []).append((st, f"`{norm(st)[:80]}`" + (" " + self.why[id(v)] if id(v) in self.why else "")))
            if self.kind == "list":
                self._loops(events)
            for name in events:
                if name not in self.tainted:
                    self.tainted.add(name)
                    changed = True
            self.events = events
        self._returns()
        return self

    def _loops(self, events) -> None:
        fi, cfg = self.fi, self.cfg
        validated_calls = set()
        for loop in [n for n in walk_no_nested(fi.node) if isinstance(n, (ast.For, ast.AsyncFor)) and self._mentions(n.iter)]:
            if not isinstance(loop.target, ast.Name):
                raise AnalysisError(f"undecided: {fi.qualname} iterates over a cached {self.index} entry with a structured loop target "
                                    f"(`{norm(loop.target)}`)")
            e = loop.target.id
            for n in [x for s in loop.body for x in walk_no_nested(s)]:
                sink, what = None, None
                if isinstance(n, ast.Call) and isinstance(n.func, ast.Attribute) and n.func.attr in ("append", "add", "extend", "insert", "update") \
                        and isinstance(n.func.value, ast.Name) and any(_is_name(x, e) for a in n.args for x in ast.walk(a)):
                    sink, what = n.func.value.id, n
                elif isinstance(n, ast.AugAssign) and isinstance(n.target, ast.Name) and any(_is_name(x, e) for x in ast.walk(n.value)):
                    sink, what = n.target.id, n
                elif isinstance(n, (ast.Return, ast.Yield)) and n.value is not None and any(_is_name(p, e) for p in _value_positions(n.value)):
                    sink, what = "<result>", n
                if sink is None:
                    continue
                facts = self.expand(facts_at(cfg, what))
                missing = self.required(self, e, facts)
                validated_calls.add(id(what))
                if missing:
                    msg = f"`{norm(what)[:80]}` keeps a cached member without checking " + " and ".join(missing)
                    if sink == "<result>":
                        self.problems.append(msg)
                    else:
                        events.setdefault(sink, []).append((enclosing_stmt(what), msg))
                        self.loop_events.append((sink, enclosing_stmt(what), msg))
                else:
                    self.validated.append(f"loop over the cached list keeps `{e}` only under {'; '.join(str(f) for f in facts)}")
        # the cached list handed to another container wholesale: X.extend(cache) / X.append(cache[i]) / X += cache
        for n in walk_no_nested(fi.node):
            if id(n) in validated_calls:
                continue
            if isinstance(n, ast.Call) and isinstance(n.func, ast.Attribute) and n.func.attr in ("append", "add", "extend", "insert", "update") \
                    and isinstance(n.func.value, ast.Name) and any(self._carries(a) for a in n.args):
                events.setdefault(n.func.value.id, []).append((enclosing_stmt(n), f"`{norm(n)[:80]}`"))
            elif isinstance(n, ast.AugAssign) and isinstance(n.target, ast.Name) and self._carries(n.value):
                events.setdefault(n.target.id, []).append((n, f"`{norm(n)[:80]}`"))

    # -- returns
    def _miss_fact(self, f, holders) -> bool:
        """the value is None / falsy on this edge: nothing cached is returned"""
        if f.op == "is" and f.pos and _is_name(f.left, holders) and const_value(f.right) is None:
            return True
        if f.op == "truthy" and not f.pos and _is_name(f.left, holders):
            return True
        return False

    def _carried_by(self, e: ast.AST, holders, pred=None) -> bool:
        """the value of e is (elem) / contains members of (list) what the locals in `holders` hold or what a cache read yields"""
        if e is None:
            return False
        if self.kind == "elem":
            for p in _value_positions(e):
                if id(p) in self.raw_ids or _is_name(p, holders) or self._clean_call(p, lambda a_: self._carried_by(a_, holders, pred)) is False:
                    # `hit if hit in self.verified_peers and ... else None`: the position is only evaluated under these facts
                    if not any(self._miss_fact(f, holders) or (pred is not None and pred(f, holders)) for f in self.expand(expr_context_facts(p))):
                        return True
            return False
        e = strip_cast(e)
        if isinstance(e, ast.Compare) or (isinstance(e, ast.Call) and chain(e.func) in ("len", "bool", "any", "all", "isinstance")):
            return False
        if not any(id(n) in self.raw_ids or _is_name(n, holders) for n in ast.walk(e)):
            return False
        if self._clean_call(e, lambda a_: self._carried_by(a_, holders, pred)) is True:
            return False
        return not self._clean_filter(e)

    @staticmethod
    def _defs_at(node) -> list[tuple[str, ast.AST | None, bool]]:
        """(local, value or None, keeps-old-value) bound by the CFG node"""
        a_ = node.ast
        out = []

        def target(t, v):
            if isinstance(t, ast.Name):
                out.append((t.id, v, False))
            elif isinstance(t, (ast.Tuple, ast.List)):
                vs = v.elts if isinstance(v, (ast.Tuple, ast.List)) and len(v.elts) == len(t.elts) else [None] * len(t.elts)
                for te, ve in zip(t.elts, vs):
                    target(te.value if isinstance(te, ast.Starred) else te, ve)
        if node.kind == "loop" and isinstance(a_, (ast.For, ast.AsyncFor)):
            target(a_.target, None)
        elif node.kind == "handler" and isinstance(a_, ast.ExceptHandler) and a_.name:
            out.append((a_.name, None, False))
        elif node.kind in ("stmt", "cond") and a_ is not None:
            if isinstance(a_, ast.Assign):
                for t in a_.targets:
                    target(t, a_.value)
            elif isinstance(a_, ast.AnnAssign) and a_.value is not None:
                target(a_.target, a_.value)
            elif isinstance(a_, ast.AugAssign) and isinstance(a_.target, ast.Name):
                out.append((a_.target.id, a_.value, True))
            elif isinstance(a_, (ast.With, ast.AsyncWith)):
                for i in a_.items:
                    if i.optional_vars is not None:
                        target(i.optional_vars, None)
            if not isinstance(a_, (ast.With, ast.AsyncWith, ast.For, ast.AsyncFor, ast.While, ast.If, ast.Try)):
                for n in walk_no_nested(a_):
                    if isinstance(n, ast.NamedExpr):
                        out.append((n.target.id, n.value, False))
                    elif isinstance(n, ast.Call) and isinstance(n.func, ast.Attribute) and isinstance(n.func.value, ast.Name) \
                            and n.func.attr in ("append", "add", "extend", "insert", "update"):
                        out += [(n.func.value.id, a2, True) for a2 in n.args]       # x.extend(cache): x holds cached members too
        return out

    def _in_place(self, held, ret: ast.Return) -> None:
        """a returned cache entry that is pruned in place (x.remove(..) / del x[..] / x[:] = ..) is a filter this analysis cannot follow"""
        if self.kind != "list":
            return
        for n in walk_no_nested(self.fi.node):
            hit = (isinstance(n, ast.Call) and isinstance(n.func, ast.Attribute) and n.func.attr in ("remove", "pop", "clear", "discard", "difference_update",
                                                                                                    "intersection_update") and _is_name(n.func.value, held)) \
                or (isinstance(n, (ast.Delete, ast.Assign)) and any(isinstance(t, ast.Subscript) and _is_name(t.value, held) for t in n.targets))
            if hit:
                raise AnalysisError(f"undecided: {self.fi.qualname} prunes the cached {self.index} entry in place (`{norm(n)[:60]}`) before `{norm(ret)[:40]}`; "
                                    "in-place filters are not followed")

    def _returns(self) -> None:
        """
        Path search over (CFG node, locals that hold the still unvalidated cached value): a state dies on an edge that establishes the
        wanted fact about one of the holders (or that the value is None / falsy), and when the last holder is re-assigned from a clean
        source; `b = a` makes b a further holder.  Reaching `return <holder>` is a path that returns the cache entry unvalidated.
        """
        fi, cfg = self.fi, self.cfg
        for r in [n for n in walk_no_nested(fi.node) if isinstance(n, ast.Return) and n.value is not None]:
            if any(id(p) in self.raw_ids or (self.kind == "list" and id(_unwrap(p)) in self.raw_ids) for p in _value_positions(r.value)):
                self.problems.append(f"`{norm(r)[:80]}` returns the cache entry itself")
        origins = [(n, frozenset(), f"`{norm(enclosing_stmt(raw))[:80]}`") for raw in self.raws for n in cfg.nodes_for(raw)]
        if self.seeds:      # followed from a caller: the parameters hold the cached value from the start
            origins.append((cfg.entry, self.seeds, "the cached value handed in as " + "/".join(sorted(self.seeds))))
        for name, st, msg in self.loop_events:      # a loop over the cached list that keeps members without the required checks
            origins += [(n, frozenset({name}), msg) for n in cfg.nodes_for(st)]
        wanted = self.required(self, None, None) if self.kind == "elem" else [("", None)]
        for label, pred in wanted:
            bad = set()
            seen = set()
            todo = list(origins)
            origin_nodes = {id(n) for n, _, _ in origins}
            while todo:
                n, held, src = todo.pop()
                if (n.id, held) in seen:
                    continue
                seen.add((n.id, held))
                if isinstance(n.ast, ast.Return) and n.kind == "stmt":
                    if n.ast.value is not None:
                        for p in _value_positions(n.ast.value):
                            q = _unwrap(p) if self.kind == "list" else strip_cast(p)
                            if not (_is_name(q, held) or (self.kind == "list" and self._carried_by(q, held))):
                                continue
                            cf = self.expand(expr_context_facts(p))
                            if any(self._miss_fact(f, held) or (pred is not None and pred(f, held)) for f in cf):
                                continue
                            self._in_place(held, n.ast)
                            bad.add((norm(n.ast)[:60], src))
                    continue
                if n.kind == "stmt" and isinstance(n.ast, ast.Expr) and isinstance(n.ast.value, (ast.Yield, ast.YieldFrom)) and n.ast.value.value is not None:
                    # a generator hands the held value out: `yield from cached` / `yield cached_peer`
                    y = n.ast.value.value
                    for p in _value_positions(y):
                        q = _unwrap(p) if self.kind == "list" else strip_cast(p)
                        if (_is_name(q, held) or (self.kind == "list" and isinstance(n.ast.value, ast.YieldFrom) and self._carried_by(q, held))) \
                                and not (self.kind == "list" and isinstance(n.ast.value, ast.Yield)):
                            bad.add((norm(n.ast)[:60], src))
                for name, v, keeps in self._defs_at(n):
                    if self._carried_by(v, held, pred):
                        held = held | {name}
                    elif not keeps:
                        held = held - {name}
                if not held:
                    continue
                for v, lab in n.succ:
                    if lab == "exc":
                        continue
                    if n.kind == "cond" and lab in (True, False):
                        if any(self._miss_fact(f, held) or (pred is not None and pred(f, held)) for f in self.expand([fact_of(n.ast, lab)])):
                            continue
                    todo.append((v, held, src))
            for ret, src in sorted(bad):
                self.problems.append(f"a path from the cache read ({src[:120]}) reaches `{ret}`" +
                                     (f" without establishing {label}" if label else " with the unvalidated cached list"))
            if not bad and label and seen:
                self.validated.append(f"every path returning the cached value establishes {label}")


def _ip_required(flow: _ReaderFlow, _group, _facts):
    """reverse_ip_lookup (address -> Peer): the cached peer is still verified and still uses the address."""
    fi = flow.fi

    def still_verified(f, held):
        return f.op == "in" and f.pos and _is_name(f.left, held) and chain(_unwrap(f.right)) == "self.verified_peers"

    def still_uses(f, held):
        if not (f.op == "in" and f.pos and any(same_resolved(fi, f.left, k) for k in flow.keys)):
            return False
        return _resolves_to(fi, _unwrap(f.right), lambda x: isinstance(_unwrap(x), ast.Call)
                            and any(chain(_unwrap(x).func) == f"{g}.addresses.values" for g in held))
    return [("`<cached> in self.verified_peers`", still_verified), ("`<key> in <cached>.addresses.values()`", still_uses)]


def _service_required(flow: _ReaderFlow, e: str, facts) -> list[str]:
    """reverse_service_lookup (service -> [Peer]): each kept peer is verified and still advertises the service."""
    fi = flow.fi

    def services_of(x):
        x = _unwrap(x)
        if isinstance(x, ast.Call) and chain(x.func) == "self.services_per_peer.get":
            return _key_bin_of(fi, arg(x, 0, "key"), e)
        if isinstance(x, ast.Subscript) and chain(x.value) == "self.services_per_peer":
            return _key_bin_of(fi, x.slice, e)
        if isinstance(x, ast.Call) and chain(x.func) == "self.get_services_for_peer":
            return _is_name(arg(x, 0, "peer"), e)
        return False
    missing = []
    if not any(f.op == "in" and f.pos and _is_name(f.left, e) and chain(_unwrap(f.right)) == "self.verified_peers" for f in facts):
        missing.append("that the peer is in self.verified_peers")
    if not any(f.op == "in" and f.pos and any(same_resolved(fi, f.left, k) for k in flow.keys) and _resolves_to(fi, f.right, services_of) for f in facts):
        missing.append("that the peer still advertises the service (services_per_peer)")
    return missing


def _intro_required(flow: _ReaderFlow, e: str, facts) -> list[str]:
    """reverse_intro_lookup (Peer -> [address]): each kept address is still known and still introduced by that peer."""
    fi = flow.fi

    def entry_of(x):           # self._all_addresses[e] / self._all_addresses.get(e)
        x = strip_cast(x)
        if isinstance(x, ast.Subscript) and chain(x.value) == "self._all_addresses":
            return _is_name(x.slice, e)
        if isinstance(x, ast.Call) and chain(x.func) == "self._all_addresses.get":
            return _is_name(arg(x, 0, "key"), e)
        return False

    def introducer(x):
        x = strip_cast(x)
        if isinstance(x, ast.Attribute) and x.attr == "introduced_by":
            return _resolves_to(fi, x.value, entry_of)
        if isinstance(x, ast.Subscript) and const_value(x.slice) == 0:
            return _resolves_to(fi, x.value, entry_of)
        if isinstance(x, ast.Name):     # intro_peer, service, new_style = self._all_addresses[e]
            defs = local_defs(fi, x.id)
            return bool(defs) and all(v is not None and idx == 0 and entry_of(v) for _, v, idx in defs)
        return False

    def introducer_fact(f):
        if not (f.op == "eq" and f.pos):
            return False
        for a, b in ((f.left, f.right), (f.right, f.left)):
            if (introducer(a) or _resolves_to(fi, a, introducer)) and flow.is_key_bin(b):
                return True
        return False

    def known_fact(f):
        if f.op == "in" and f.pos and _is_name(f.left, e) and chain(_unwrap(f.right)) in ("self._all_addresses", "self._all_addresses.keys()"):
            return True
        if (f.op == "is" and not f.pos and const_value(f.right) is None) or (f.op == "truthy" and f.pos):
            return _resolves_to(fi, f.left, lambda x: isinstance(x, ast.Call) and entry_of(x))
        return False
    missing = []
    if not any(known_fact(f) for f in facts):
        missing.append("that the address is still in self._all_addresses")
    if not any(introducer_fact(f) for f in facts):
        missing.append("that the address is still introduced by this peer (introduced_by == the peer's key)")
    return missing


def _private_to_class(ctx: Ctx, net, fi: FuncInfo) -> bool:
    """a private method of Network that is only called from Network's own methods"""
    if not fi.name.startswith("_") or fi.name.startswith("__"):
        return False
    sites = list(ctx.repo.callers_of_name(fi.name))
    return bool(sites) and all(caller is not None and caller.cls is net for _m, caller, _c in sites)


_READER_SPEC = {
    "reverse_ip_lookup": ("get_verified_by_address", "elem", _ip_required,
                          "the cached peer is returned without checking that it is still verified and still uses the address"),
    "reverse_intro_lookup": ("get_introductions_from", "list", _intro_required,
                             "the cached address list is returned without checking the addresses are still known and introduced by that peer"),
    "reverse_service_lookup": ("get_peers_for_service", "list", _service_required,
                               "cached per-service list returned without filtering by verified_peers and services_per_peer"),
}


def reader_validation(ctx: Ctx) -> dict[str, tuple[bool, str]]:
    """index -> (every reader validates the cached value against the authoritative collection, explanation)."""
    net = ctx.repo.cls("Network", NW)
    out = {}
    for index, (reader, kind, required, dflt) in _READER_SPEC.items():
        ctx.anchor(net.methods.get(reader), f"Network.{reader}")
        # a private helper that hands a cache entry out as it is (e.g. "pop and re-insert on top") is not a reader of its own:
        # its call sites are cache reads, and the callers must validate what they got
        helpers: set[str] = set()
        for _round in range(3):
            problems, how, nreads, grew = [], [], 0, False
            for fi in net.methods.values():
                flow = _ReaderFlow(ctx, fi, index, kind, required, helpers).run()
                if flow.problems and fi.name != reader and fi.name not in helpers and _private_to_class(ctx, net, fi):
                    helpers.add(fi.name)
                    grew = True
                    continue
                if fi.name in helpers:
                    continue
                nreads += len(flow.raws) if fi.name == reader else 0
                problems += [f"{fi.name}: {p}" for p in flow.problems]
                how += [f"{fi.name}: {v}" for v in flow.validated]
            if not grew:
                break
        if problems:
            out[index] = (False, dflt + " [" + "; ".join(dict.fromkeys(problems))[:300] + "]")
        elif nreads == 0:
            out[index] = (True, f"{reader} never reads the cache: every answer is recomputed")
        else:
            out[index] = (True, "; ".join(dict.fromkeys(how))[:300] or "no cached value reaches a return")
    out["verified_by_public_key_bin"] = (False, "plain dict read (get_verified_by_public_key_bin, lazy_wrapper): no validation possible")
    return out


def rule_matrix(ctx: Ctx) -> None:
    sites = mutation_sites(ctx)
    # confirmed: every authoritative collection is both extended and reduced somewhere in network.py (how many statements do it is a
    # matter of code shape: duplicated blocks may be merged, removals may share a helper)
    ctx.floor("coherence.mutation-sites", len({(coll, kind) for _f, coll, kind, _n in sites if kind in ("add", "remove")}), 6)
    validates = reader_validation(ctx)
    ctx.extra["reader_validation"] = {k: {"validates": v[0], "how": v[1]} for k, v in validates.items()}
    seen = set()
    matrix = {}
    for fi, coll, kind, node in sites:
        if kind == "add-neutral":
            ctx.instance("coherence", fi.where, f"{fi.name}: {norm(node)[:60]} adds an address without introducer (no index affected)", line=node.lineno)
            continue
        deps = DEPENDS.get((coll, kind), {})
        for index, reason in deps.items():
            key = (fi.qualname, coll, kind, index)
            if key in seen:
                continue
            seen.add(key)
            upd = _updates_index(ctx, fi, index) or _callers_update(ctx, fi, index)
            val = validates[index][0] and kind == "remove"       # validation cures stale members, not missing ones
            ok = upd or val
            matrix[f"{fi.name} [{coll} {kind}] x {index}"] = "updates" if upd else "reader-validates" if val else "STALE"
            ctx.check(ok, "coherence", fi, node, f"{fi.name} ({coll} {kind}) x {index}: " + ("index updated by the mutator" if upd else "readers validate"),
                      f"{fi.name} {'removes from' if kind == 'remove' else 'adds to'} {coll} but neither updates {index} nor do its readers validate "
                      f"({reason}; reader: {validates[index][1]}): lookups disagree with the membership afterwards")
    ctx.extra["coherence_matrix"] = matrix
    # cached lists are never created from partial knowledge: D[k] = [<single element>] outside the readers
    net = ctx.repo.cls("Network", NW)
    readers = {"get_verified_by_address", "get_introductions_from", "get_peers_for_service"}
    for fi in net.methods.values():
        if fi.name in readers or fi.name == "__init__":
            continue
        for st, t in stores(fi, [f"self.{d}[]" for d in DERIVED if d != "verified_by_public_key_bin"]):
            v = resolve(fi, st.value) if isinstance(st, ast.Assign) else None
            partial = isinstance(v, (ast.List, ast.Tuple, ast.Set)) and len(v.elts) >= 1
            ctx.check(not partial, "coherence", fi, st, f"{fi.name}: no partial cache entry created",
                      f"{fi.name} creates the cache entry `{norm(st)}` from the one element it knows: after an eviction the cached list is incomplete")
    # every miss recomputes from the authoritative collection
    for name, index, auth in (("get_verified_by_address", "reverse_ip_lookup", "self.verified_peers"),
                              ("get_introductions_from", "reverse_intro_lookup", "self._all_addresses"),
                              ("get_peers_for_service", "reverse_service_lookup", "self.verified_peers")):
        f = net.methods[name]
        # (also in a private helper the reader delegates the recomputation to, e.g. a generator over the authoritative collection)
        scans = _reach_sites(ctx, net, f, lambda g, auth=auth: [n for n in ast.walk(g.node) if isinstance(n, (ast.For, ast.comprehension))
                                                                and (mentions(n.iter, auth) or (auth == "self.verified_peers" and _resolves_to(g, n.iter, lambda y: _verified_members(g, y))))])
        ctx.check(bool(scans), "coherence", f, f.node, f"{name}: a cache miss scans {auth}", f"{name} does not recompute from {auth} on a cache miss")
    # readers do not change the answer: they only write their own cache
    for name in _QUERIES:
        f = net.methods[name]
        for fi2, coll, kind, node in sites:
            if fi2 is f:
                ctx.check(False, "coherence", f, node, f"{name} is read-only", f"the query {name} mutates {coll}: asking changes the answer")
        ctx.instance("coherence", f.where, f"{name} does not mutate authoritative collections")
    # ... also not through a local alias of a stored collection (services = self.services_per_peer.get(k, set()); services.add(x))
    for name in _QUERIES:
        f = net.methods[name]
        for node, var, src in _alias_mutations(f):
            ctx.check(False, "coherence", f, node, f"{name} works on a copy of the stored collection",
                      f"the query {name} mutates the very object stored in the peer graph (`{norm(node)[:60]}` on `{var}`, an alias of `{norm(src)[:70]}`): "
                      "asking changes who supports the service, and cached per-service lists disagree with a recomputation")


def _is_coll(e: ast.AST, coll: str) -> bool:
    return chain(_unwrap(e)) in (coll, coll + ".keys()")


def _quantified(f, coll: str) -> str | None:
    """'some-in' (an element is in coll) / 'none-in' (no element is in coll) when fact f says so, else None."""
    if f.op == "in" and _is_coll(f.right, coll):
        return "some-in" if f.pos else None
    if f.op == "truthy":
        left = _unwrap(f.left)
        if isinstance(left, ast.BinOp) and isinstance(left.op, ast.BitAnd) and (_is_coll(left.left, coll) or _is_coll(left.right, coll)):
            return "some-in" if f.pos else "none-in"        # set(addresses) & set(coll)
        if isinstance(left, (ast.ListComp, ast.SetComp)) and len(left.generators) == 1 and isinstance(left.generators[0].target, ast.Name) \
                and _is_name(left.elt, left.generators[0].target.id) and len(left.generators[0].ifs) == 1:
            # [a for a in addresses if a in coll]: non-empty / empty
            fs = _atoms_with_polarity(left.generators[0].ifs[0], True)
            if len(fs) == 1 and fs[0].op == "in" and fs[0].pos and _is_name(fs[0].left, left.elt.id) and _is_coll(fs[0].right, coll):
                return "some-in" if f.pos else "none-in"
    if f.op != "truthy" or not isinstance(f.left, ast.Call):
        return None
    c = f.left
    name = chain(c.func)
    if name in ("any", "all") and len(c.args) == 1 and isinstance(c.args[0], (ast.GeneratorExp, ast.ListComp, ast.SetComp)) \
            and len(c.args[0].generators) == 1 and not c.args[0].generators[0].ifs:
        elt = c.args[0].elt
        if (name == "any") == f.pos:
            # any(...) holds / all(...) fails: for SOME element elt is true (any) resp. false (all)
            fs = _atoms_with_polarity(elt, name == "any")
            return "some-in" if any(x.op == "in" and x.pos and _is_coll(x.right, coll) for x in fs) else None
        # all(...) holds / any(...) fails: for EVERY element elt is true (all) resp. false (any)
        fs = _atoms_with_polarity(elt, name == "all")
        return "none-in" if any(x.op == "in" and not x.pos and _is_coll(x.right, coll) for x in fs) else None
    if isinstance(c.func, ast.Attribute) and c.func.attr == "isdisjoint" and len(c.args) == 1 and (_is_coll(c.func.value, coll) or _is_coll(c.args[0], coll)):
        return "none-in" if f.pos else "some-in"
    if isinstance(c.func, ast.Attribute) and c.func.attr == "intersection" and len(c.args) == 1 and (_is_coll(c.func.value, coll) or _is_coll(c.args[0], coll)):
        return "some-in" if f.pos else "none-in"        # a non-empty / empty intersection with coll
    return None


def _grow_nodes(fi: FuncInfo) -> list[ast.AST]:
    """the nodes of fi that can make verified_peers larger: .add / .update (also through an alias), `|=`"""
    return [n for n, op, _r, _k in _coll_ops(fi, "verified_peers") if op in ("add", "update") or (op == "aug" and isinstance(n.op, ast.BitOr))]


def _grows_verified(net, fi: FuncInfo, depth: int = 3) -> bool:
    if _grow_nodes(fi):
        return True
    if depth > 0:
        for c in calls(fi):
            for t in _call_targets(net, fi, c):
                if _is_private(t) and _grows_verified(net, t, depth - 1):
                    return True
    return False


def _verified_add_sites(ctx: Ctx, net, fi: FuncInfo, who: str | None = None, prefix: list | None = None, depth: int = 3):
    """
    Every way add_verified_peer reaches an insertion into verified_peers - directly or through private helpers (also picked from a
    dispatch table): a list of call chains, each a list of frames (function, node); the last node is the insertion, the others are the
    calls that lead to it.
    """
    return _reach_sites(ctx, net, fi, _grow_nodes, depth)


def _private_to(ctx: Ctx, net, fi: FuncInfo, owner: FuncInfo, depth: int = 3) -> bool:
    """fi is a private Network helper whose every use lies in `owner` (or in another such helper)"""
    if fi is None or fi.cls is not net or not _is_private(fi) or depth <= 0:
        return False
    sites = _internal_call_sites(ctx, net, fi)
    if not sites:
        return False
    for caller, _c in sites:
        if caller.node is not owner.node and caller.node is not fi.node and not _private_to(ctx, net, caller, owner, depth - 1):
            return False
    return True


def _frame_facts(ctx: Ctx, frames) -> list[str]:
    return list(dict.fromkeys(str(f) for fi, n in frames for f in facts_at(ctx.cfg(fi), n)))


def _searched_without_match(ctx: Ctx, fi: FuncInfo, f, coll: str, is_subject) -> bool:
    """fact f is the exhausted edge of a search loop `for x in self.<coll>: if x == <subject>: <leave>`: the subject is not in the collection"""
    if not isinstance(f.left, (ast.For, ast.AsyncFor)) or f.pos or coll not in _denotes(fi, _unwrap(f.left.iter)):
        return False

    def differs(g, x):
        return g.op == "eq" and not g.pos and ((_is_name(g.left, x) and is_subject(g.right)) or (_is_name(g.right, x) and is_subject(g.left)))
    return _loop_forall(ctx, fi, f.left, differs)


def _mid_edge_of(ctx: Ctx):
    def edge(fi: FuncInfo, f, who) -> bool:
        """the edge establishes `<who>.mid not in self.blacklist_mids`"""
        if who is None or isinstance(f.left, ast.While):
            return False
        w = chain(who)

        def is_mid(x):
            return _resolves_to(fi, x, lambda y: chain(strip_cast(y)) == f"{w}.mid")
        if isinstance(f.left, (ast.For, ast.AsyncFor)):
            return _searched_without_match(ctx, fi, f, "self.blacklist_mids", is_mid)
        return f.op == "in" and not f.pos and chain(_unwrap(f.right)) == "self.blacklist_mids" and is_mid(f.left)
    return edge


def _address_edge(ctx: Ctx):
    """the edge establishes that SOME address of the peer is already known, or that NO address of the peer is blacklisted"""
    def not_black(g, x):
        return g.op == "in" and not g.pos and _is_name(g.left, x) and _is_coll(g.right, "self.blacklist")

    def edge(fi: FuncInfo, f, who) -> bool:
        if isinstance(f.left, (ast.For, ast.AsyncFor)):
            # `for a in peer.addresses.values(): if a in self.blacklist: return` ran to exhaustion: no address is blacklisted
            return not f.pos and _over_addresses(fi, f.left.iter, who) and _loop_forall(ctx, fi, f.left, not_black)
        if isinstance(f.left, ast.While):
            return False
        return _quantified(f, "self._all_addresses") == "some-in" or _quantified(f, "self.blacklist") == "none-in"
    return edge


def _over_addresses(fi: FuncInfo, it: ast.AST, who) -> bool:
    """the iterable holds the addresses of the peer (when the peer is known by name in this function)"""
    if who is None:
        return True
    w = chain(who)
    return _resolves_to(fi, _unwrap(it), lambda x: mentions(x, f"{w}.addresses"))


def rule_blacklists(ctx: Ctx) -> None:
    net = ctx.repo.cls("Network", NW)
    av = net.methods["add_verified_peer"]
    peer = ast.Name(id=av.params()[1], ctx=ast.Load())
    sites = _verified_add_sites(ctx, net, av)
    # one insertion per admitted case, or one insertion shared by all cases: what is confirmed is that add_verified_peer inserts at all
    ctx.floor("blacklists", len(sites), 1)
    addr_edge = _address_edge(ctx)
    mid_edge = _mid_edge_of(ctx)
    for frames in sites:
        fi, c = frames[-1]
        whos = _who_down(frames, peer)
        shown = _frame_facts(ctx, frames)
        ok = any(_guarded(ctx, net, f_, n_, w_, mid_edge) for (f_, n_), w_ in zip(frames, whos))
        ctx.check(ok, "blacklists", fi, c, "verified_peers.add dominated by peer.mid not in blacklist_mids", "a blacklisted identity can become a verified peer", shown)
        # the new-peer branch (no known address) requires all addresses outside the blacklist
        ok = any(_guarded(ctx, net, f_, n_, w_, addr_edge) for (f_, n_), w_ in zip(frames, whos))
        ctx.check(ok, "blacklists", fi, c, "peer added only via a known address or with all addresses outside the blacklist",
                  "a peer with a blacklisted address is added as a new verified peer", shown)
    for m, fi, a in ctx.repo.attribute_uses("verified_peers"):
        p = parent(a)
        if isinstance(p, ast.Attribute) and p.attr in ("add", "update") and fi is not None and fi.qualname != "Network.add_verified_peer" \
                and not _private_to(ctx, net, fi, av):
            ctx.check(False, "blacklists", fi, enclosing_stmt(a), "verified_peers grows only in add_verified_peer", "verified_peers is extended around the blacklist checks")
    for fi in net.methods.values():
        if fi.node is not av.node and not _private_to(ctx, net, fi, av):
            for n in _grow_nodes(fi):
                if not (isinstance(n, ast.Call) and chain(n.func.value) == "self.verified_peers"):       # the direct spelling is reported above
                    ctx.check(False, "blacklists", fi, enclosing_stmt(n), "verified_peers grows only in add_verified_peer",
                              "verified_peers is extended around the blacklist checks")
    da = net.methods["discover_address"]

    def stores_of(fi: FuncInfo):
        return [n for n, op, _r, _k in _coll_ops(fi, "_all_addresses") if op in _ADD_OPS or (op == "aug" and isinstance(n.op, ast.BitOr))]

    def black_edge(fi: FuncInfo, f, who) -> bool:
        if who is None or isinstance(f.left, ast.While):
            return False
        if isinstance(f.left, (ast.For, ast.AsyncFor)):
            return _searched_without_match(ctx, fi, f, "self.blacklist", lambda x: same_resolved(fi, x, who))
        return f.op == "in" and not f.pos and same_resolved(fi, f.left, who) and chain(_unwrap(f.right)) == "self.blacklist"
    n_stores = 0
    for frames in _reach_sites(ctx, net, da, stores_of):
        fi, st = frames[-1]
        key = next((k for n, op, _r, k in _coll_ops(fi, "_all_addresses") if n is st), None)
        if key is None:
            raise AnalysisError(f"undecided: {fi.qualname} adds to _all_addresses with `{norm(st)[:60]}`: the stored address is not syntactically known")
        n_stores += 1
        whos = _who_up(frames, key)
        ok = any(_guarded(ctx, net, f_, n_, w_, black_edge) for (f_, n_), w_ in zip(frames, whos))
        ctx.check(ok, "blacklists", fi, st, "discover_address stores only non-blacklisted addresses", "a blacklisted address becomes walkable", _frame_facts(ctx, frames))
    ctx.floor("blacklists.discover-address", n_stores, 1)


class _Who:
    """one peer as a function sees it: the expressions (chains) that ARE the peer, and the locals / parameters that hold its key_to_bin()"""

    def __init__(self, peers=(), keys=()) -> None:
        self.peers = frozenset(p_ for p_ in peers if p_)
        self.keys = frozenset(keys)

    @classmethod
    def of(cls, fi: FuncInfo, peer: ast.AST) -> "_Who":
        return cls({chain(strip_cast(peer)), chain(resolve(fi, peer))})

    def is_peer(self, fi: FuncInfo, e: ast.AST) -> bool:
        return e is not None and bool({chain(strip_cast(e)), chain(resolve(fi, e))} & self.peers)

    def is_key(self, ctx: Ctx, net, fi: FuncInfo, e: ast.AST, depth: int = 2) -> bool:
        """e evaluates the peer's public_key.key_to_bin() - spelled out, held in a local, or handed in as a parameter by every caller"""
        if e is None:
            return False
        if any(_key_bin_of(fi, e, p_) for p_ in self.peers):
            return True
        if self.keys and _resolves_to(fi, e, lambda x: isinstance(x, ast.Name) and x.id in self.keys):
            return True
        r = resolve(fi, e)
        if depth > 0 and isinstance(r, ast.Name) and r.id in _params_of(fi) and _is_private(fi):
            sites = _internal_call_sites(ctx, net, fi)
            if not sites:
                return False
            for caller, call in sites:
                up = _Who({chain(strip_cast(a_)) for a_ in (_arg_for(call, fi, p_) for p_ in self.peers) if a_ is not None})
                if not up.peers or not up.is_key(ctx, net, caller, _arg_for(call, fi, r.id), depth - 1):
                    return False
            return True
        return False

    def down(self, ctx: Ctx, net, fi: FuncInfo, call: ast.Call, t: FuncInfo) -> "_Who":
        """the same peer as the called method t sees it"""
        params = _params_of(t)
        pairs = [(params[i], a_) for i, a_ in enumerate(call.args) if i < len(params) and not isinstance(a_, ast.Starred)]
        pairs += [(k.arg, k.value) for k in call.keywords if k.arg]
        return _Who({p_ for p_, a_ in pairs if self.is_peer(fi, a_)}, {p_ for p_, a_ in pairs if self.is_key(ctx, net, fi, a_)})

    def up(self, fi: FuncInfo, call: ast.Call, t: FuncInfo) -> "_Who":
        """the peer of the called method t as the caller fi sees it (empty when it is not handed in as a parameter)"""
        args = [_arg_for(call, t, p_) for p_ in self.peers if p_ in t.params()]
        return _Who({x for a_ in args if a_ is not None for x in (chain(strip_cast(a_)), chain(resolve(fi, a_)))})


def _by_key_targets(ctx: Ctx, net, fi: FuncInfo, who: _Who, adding: bool, depth: int = 2) -> list:
    """CFG nodes of fi that certainly register (adding) / unregister the peer in verified_by_public_key_bin, also by calling a method that always does"""
    def want(n, op, recv, key):
        if adding and op in ("update", "aug") and isinstance(n, (ast.Call, ast.AugAssign)):
            m = _unwrap(resolve(fi, (n.args[0] if n.args else None) if isinstance(n, ast.Call) else n.value))      # .update({p.key: p}) / |= {p.key: p}
            return isinstance(m, ast.Dict) and any(k is not None and who.is_key(ctx, net, fi, k) and who.is_peer(fi, v) for k, v in zip(m.keys, m.values))
        if not who.is_key(ctx, net, fi, key):
            return False
        if adding:
            if op == "set[]" and isinstance(n, (ast.Assign, ast.AnnAssign)):
                return who.is_peer(fi, n.value)
            return op in ("__setitem__", "setdefault") and who.is_peer(fi, arg(n, 1))
        return op in ("pop", "__delitem__", "del[]")
    nodes = _must_op_nodes(ctx, fi, "verified_by_public_key_bin", want, None if adding else _key_absent_edge(ctx, net, fi, who))
    if depth > 0:
        cfg = ctx.cfg(fi)
        for c in calls(fi):
            ts = _call_targets(net, fi, c)
            if ts and all(_always_by_key(ctx, net, t, who.down(ctx, net, fi, c, t), adding, depth - 1) for t in ts):
                nodes += cfg.nodes_for(c)
    return nodes


def _key_absent_edge(ctx: Ctx, net, fi: FuncInfo, who: _Who):
    """`if key in self.verified_by_public_key_bin: del ...[key]`: nothing to delete on the other branch"""
    def absent(u, v, lab):
        if u.kind != "cond" or lab not in (True, False):
            return False
        f = fact_of(u.ast, lab)
        return f.op == "in" and not f.pos and "self.verified_by_public_key_bin" in _denotes(fi, _unwrap(f.right)) and who.is_key(ctx, net, fi, f.left)
    return absent


def _always_by_key(ctx: Ctx, net, t: FuncInfo, who: _Who, adding: bool, depth: int) -> bool:
    """every normally completing run of t (un)registers the peer in the by-key index"""
    if not who.peers and not who.keys:
        return False
    cfg = ctx.cfg(t)
    nodes = _by_key_targets(ctx, net, t, who, adding, depth)
    return bool(nodes) and cfg.exit not in cfg.reach(cut_nodes=nodes, cut_edge=None if adding else _key_absent_edge(ctx, net, t, who), follow_exc=False)


def _by_key_follows(ctx: Ctx, net, fi: FuncInfo, start: ast.AST, who: _Who, adding: bool, depth: int = 2) -> bool:
    """
    Every normally completing path from `start` (the membership change) reaches the matching by-key index update before control returns
    to code outside Network: in fi itself, or - when fi is a private helper that returns first - after each of its call sites.
    """
    cfg = ctx.cfg(fi)
    nodes = _by_key_targets(ctx, net, fi, who, adding)
    cut = None if adding else _key_absent_edge(ctx, net, fi, who)
    starts = cfg.nodes_for(start)
    if starts and all(cfg.exit not in cfg.reach([v for v, lab in n.succ if lab != "exc"], cut_nodes=nodes, cut_edge=cut, follow_exc=False) for n in starts):
        return True
    if depth > 0 and _is_private(fi):
        sites = _internal_call_sites(ctx, net, fi)
        if not sites:
            return False
        for caller, call in sites:
            up = who.up(caller, call, fi)
            if not up.peers or not _by_key_follows(ctx, net, caller, call, up, adding, depth - 1):
                return False
        return True
    return False


def rule_by_key(ctx: Ctx) -> None:
    net = ctx.repo.cls("Network", NW)
    for fi in net.methods.values():
        for c, op, _recv, peer in _coll_ops(fi, "verified_peers"):
            if op == "add" and peer is not None:
                # the sibling store registers the same peer under that peer's key
                ok = _by_key_follows(ctx, net, fi, c, _Who.of(fi, peer), True)
                ctx.check(ok, "by-key-index", fi, c, "verified_peers.add(p) always followed by verified_by_public_key_bin[p.key] = p",
                          "a peer is added to the verified set without its by-key index entry")
            elif op in ("remove", "discard") and peer is not None:
                ok = _by_key_follows(ctx, net, fi, c, _Who.of(fi, peer), False)
                ctx.check(ok, "by-key-index", fi, c, "verified_peers.remove(p) always followed by verified_by_public_key_bin.pop(p.key)",
                          "a peer is removed from the verified set but stays in the by-key index (it can never be added again)")


def _verified_members(fi: FuncInfo, y: ast.AST) -> bool:
    """the iterable ranges over exactly the verified peers: self.verified_peers (alias / copy / list(..)), or the values of the by-key
    dict, which rule by-key-index keeps a mirror of the verified set"""
    y = _unwrap(y)
    if isinstance(y, ast.Call) and isinstance(y.func, ast.Attribute) and y.func.attr == "copy" and not y.args:
        y = _unwrap(y.func.value)
    if isinstance(y, ast.Call) and isinstance(y.func, ast.Attribute) and y.func.attr == "values" and not y.args \
            and "self.verified_by_public_key_bin" in _denotes(fi, y.func.value):
        return True
    return "self.verified_peers" in _denotes(fi, y)


def _scans_verified(ctx: Ctx, net, fi: FuncInfo, depth: int = 1) -> list:
    """CFG nodes of fi that look at every verified peer (loop / comprehension over self.verified_peers, or a call of a Network method that does)."""
    cfg = ctx.cfg(fi)

    def src(x):
        return _resolves_to(fi, _unwrap(x), lambda y: _verified_members(fi, y))
    nodes = []
    for n in walk_no_nested(fi.node):
        if isinstance(n, (ast.For, ast.AsyncFor)) and src(n.iter):
            nodes += cfg.nodes_for(n)
        elif isinstance(n, ast.comprehension) and src(n.iter):
            nodes += cfg.nodes_for(parent(n))
        elif isinstance(n, ast.Call) and chain(n.func) in ("filter", "map") and len(n.args) == 2 and src(n.args[1]):
            nodes += cfg.nodes_for(n)
        elif isinstance(n, ast.Call) and depth > 0:
            ts = _call_targets(net, fi, n)
            if ts and all(_scans_verified(ctx, net, t, depth - 1) for t in ts):
                nodes += cfg.nodes_for(n)
    return nodes


def _removes_member(ctx: Ctx, net, fi: FuncInfo, who: ast.AST | None, depth: int = 2) -> bool:
    """every normally completing run of fi takes `who` out of verified_peers (itself or through a method that always does), unless it
    established that `who` is not a member"""
    if who is None:
        return False
    cfg = ctx.cfg(fi)

    def want(n, op, recv, key):
        if op in ("remove", "discard"):
            return key is not None and same_resolved(fi, key, who)
        return op in ("rebind", "aug", "del[]", "del") and not (op == "aug" and isinstance(n.op, ast.BitOr))
    rem = _must_op_nodes(ctx, fi, "verified_peers", want)
    if depth > 0:
        for c in calls(fi):
            ts = _call_targets(net, fi, c)
            if ts and all(_removes_member(ctx, net, t, _bind(fi, c, t, who), depth - 1) for t in ts):
                rem += cfg.nodes_for(c)

    def differs(g, x):
        return g.op == "eq" and not g.pos and ((_is_name(g.left, x) and same_resolved(fi, g.right, who)) or (_is_name(g.right, x) and same_resolved(fi, g.left, who)))

    def absent(u, v, lab):
        if lab not in (True, False) or u.ast is None:
            return False
        if u.kind == "loop":
            # a search `for m in self.verified_peers: if m == who: break` that ran to exhaustion: who is not a member
            return lab is False and isinstance(u.ast, (ast.For, ast.AsyncFor)) and "self.verified_peers" in _denotes(fi, _unwrap(u.ast.iter)) \
                and _loop_forall(ctx, fi, u.ast, differs)
        if u.kind != "cond":
            return False
        f = fact_of(u.ast, lab)
        return f.op == "in" and not f.pos and same_resolved(fi, f.left, who) and "self.verified_peers" in _denotes(fi, _unwrap(f.right))
    return bool(rem) and cfg.exit not in cfg.reach(cut_nodes=rem, cut_edge=absent, follow_exc=False)


def _one(got: set) -> str:
    return next(iter(got)) if len(got) == 1 else "other"


def _elements_origin(ctx: Ctx, net, fi: FuncInfo, it: ast.AST, who: ast.AST | None, depth: int = 3) -> str:
    """where the ELEMENTS of an iterable expression of fi come from: see _key_origin"""
    w = chain(who) if who is not None else None
    it = _unwrap(it)
    if isinstance(it, _COMPS):
        return _elements_origin(ctx, net, fi, it.generators[0].iter, who, depth)       # a filter / projection of what it ranges over
    if isinstance(it, ast.Name) and it.id not in fi.params() and depth > 0:
        return _one({_elements_origin(ctx, net, fi, v, who, depth - 1) if v is not None else "other" for v in _bound_values(fi, it)} or {"other"})
    if isinstance(it, ast.Call) and depth > 0:
        ts = _call_targets(net, fi, it)
        if ts:          # a generator / list helper of Network: where do the elements it yields / returns come from
            got = set()
            for t in ts:
                w2 = _bind(fi, it, t, who)
                for n in walk_no_nested(t.node):
                    if isinstance(n, ast.Yield) and n.value is not None:
                        got.add(_key_origin(ctx, net, t, n.value, w2, depth - 1))
                    elif isinstance(n, (ast.YieldFrom, ast.Return)) and n.value is not None:
                        got.add(_elements_origin(ctx, net, t, n.value, w2, depth - 1))
            return _one(got or {"other"})
    if mentions(it, "self.reverse_ip_lookup"):
        return "cache"
    if w is not None and (mentions(it, f"{w}.addresses") or mentions(it, f"{w}.address")):
        return "peer-addresses"
    return "other"


def _key_origin(ctx: Ctx, net, fi: FuncInfo, key: ast.AST, who: ast.AST | None, depth: int = 3) -> str:
    """
    Where does a cache key used in fi come from: "cache" (drawn from self.reverse_ip_lookup itself: its keys / items, possibly filtered),
    "peer-addresses" (drawn from <who>.addresses / <who>.address, the addresses of the peer object `who`) or "other" (anything else /
    not the same for all definitions).
    """
    w = chain(who) if who is not None else None
    key = strip_cast(key)
    while isinstance(key, (ast.Subscript, ast.Attribute)) and not (w is not None and chain(key) == f"{w}.address"):
        key = strip_cast(key.value)         # an element / field of a loop variable (`entry[0]` of items())
    if w is not None and chain(key) == f"{w}.address":
        return "peer-addresses"
    if not isinstance(key, ast.Name) or key.id in fi.params() or depth <= 0:
        return "other"
    got = set()
    for a_ in ancestors(key):
        if isinstance(a_, _COMPS):
            for g in a_.generators:
                if any(isinstance(x, ast.Name) and x.id == key.id for x in ast.walk(g.target)):
                    got.add(_elements_origin(ctx, net, fi, g.iter, who, depth))
        if a_ is fi.node:
            break
    if not got:
        for st, v, _idx in local_defs(fi, key.id):
            if v is None and isinstance(st, (ast.For, ast.AsyncFor)):
                got.add(_elements_origin(ctx, net, fi, st.iter, who, depth))
            elif v is not None:
                got.add(_key_origin(ctx, net, fi, v, who, depth - 1))
            else:
                got.add("other")
    return _one(got or {"other"})


def rule_removal(ctx: Ctx) -> None:
    """
    "A removed peer is returned by no lookup": the two removers must reach the membership on every path.
    remove_by_address(a) can only know that no verified peer uses `a` by looking at the verified peers: _all_addresses is NOT an index of
    the verified peers' addresses (add_verified_peer merges new addresses into a known peer without registering them; remove_peer pops
    addresses another peer may share), so a path that returns without scanning verified_peers leaves a peer with that address verified -
    and every lookup keeps returning it.  remove_peer(p) must take p out of verified_peers unless p is known not to be in it.
    """
    net = ctx.repo.cls("Network", NW)
    ra = net.methods["remove_by_address"]
    cfg = ctx.cfg(ra)
    scans = _scans_verified(ctx, net, ra, 2)

    def empty(u, v, lab):       # `if not self.verified_peers: return` - nothing to scan
        if u.kind != "cond" or lab not in (True, False):
            return False
        f = fact_of(u.ast, lab)
        return f.op == "truthy" and not f.pos and chain(_unwrap(f.left)) == "self.verified_peers"
    ok = bool(scans) and cfg.exit not in cfg.reach(cut_nodes=scans, cut_edge=empty, follow_exc=False)
    ctx.check(ok, "removal", ra, ra.node, "remove_by_address looks at every verified peer on every path",
              "remove_by_address can return without looking at the verified peers (e.g. because the address is not a key of _all_addresses, which is "
              "not an index of the verified peers' addresses): a verified peer that uses the address stays verified and is still returned by every lookup")
    rp = net.methods["remove_peer"]
    ok = _removes_member(ctx, net, rp, ast.Name(id=rp.params()[1], ctx=ast.Load()))
    ctx.check(ok, "removal", rp, rp.node, "remove_peer takes the peer out of verified_peers on every path (unless it is not a member)",
              "remove_peer can return while the peer is still in verified_peers: the removed peer is still returned by lookups")
    # instance coherence (defect fixed by 97dc48d): the readers of reverse_ip_lookup / reverse_service_lookup re-validate a cached Peer by
    # EQUALITY against verified_peers (Peer equality is by public key).  After remove + add of the same identity as a new instance (other
    # addresses) the stale instance would still validate, so a remover must also forget the removed peer in these caches - unless the
    # readers validate by identity (`is`).
    def validates_identity(index: str) -> bool:
        for fi in net.methods.values():
            reads = [c for c in calls(fi) if isinstance(c.func, ast.Attribute) and chain(c.func.value) == f"self.{index}" and c.func.attr in ("get", "pop")]
            if not reads:
                continue
            if not any(isinstance(n, ast.Compare) and any(isinstance(o, (ast.Is, ast.IsNot)) for o in n.ops)
                       and any("verified_by_public_key_bin" in norm(x) for x in [n.left, *n.comparators])
                       for n in walk_no_nested(fi.node)):
                return False
        return True
    def prunes_values(fi: FuncInfo, index: str, depth: int = 2) -> bool:
        """`for cache in self.<index>.values(): cache.remove(..)` (also .items(), also in a Network helper fi calls)"""
        for loop in [n for n in walk_no_nested(fi.node) if isinstance(n, (ast.For, ast.AsyncFor))]:
            it = _unwrap(loop.iter)
            if (isinstance(it, ast.Call) and isinstance(it.func, ast.Attribute) and it.func.attr in ("values", "items") and chain(it.func.value) == f"self.{index}") \
                    or (isinstance(loop.target, ast.Name) and _yields_entries(fi, it, index, ctx)):
                names = {x.id for x in ast.walk(loop.target) if isinstance(x, ast.Name)}
                for c in ast.walk(loop):
                    if isinstance(c, ast.Call) and isinstance(c.func, ast.Attribute) and c.func.attr in ("remove", "discard", "pop", "clear") \
                            and isinstance(c.func.value, ast.Name) and c.func.value.id in names:
                        return True
                    if isinstance(c, ast.Assign) and any(isinstance(t, ast.Subscript) and isinstance(t.value, ast.Name) and t.value.id in names for t in c.targets):
                        return True
        if depth > 0 and fi.cls is not None:
            for c in calls(fi):
                if any(prunes_values(t, index, depth - 1) for t in _call_targets(fi.cls, fi, c)):
                    return True
        return False

    # ... and the purge of the address cache must not depend on the Peer OBJECT remove_peer was handed: that may be an equal (same
    # public key) but different instance with other addresses than the verified one, so entries looked up by ITS addresses miss the
    # entry the verified instance is cached under.  Decided positively only: every purge of reverse_ip_lookup reachable from
    # remove_peer takes its keys from the passed peer's own addresses and none scans the cache itself (by value) / clears it.
    if not validates_identity("reverse_ip_lookup"):
        def ip_purges(f: FuncInfo):
            return [n for n, op, _r, _k in _coll_ops(f, "reverse_ip_lookup") if op in ("pop", "__delitem__", "del[]", "clear", "rebind", "popitem")]
        origins = []
        for frames in _reach_sites(ctx, net, rp, ip_purges):
            f, n = frames[-1]
            who = _who_down(frames, ast.Name(id=rp.params()[1], ctx=ast.Load()))[-1]
            op, key = next((o, k) for n2, o, _r, k in _coll_ops(f, "reverse_ip_lookup") if n2 is n)
            origins.append((f, n, "cache" if op in ("clear", "rebind", "popitem") or key is None else _key_origin(ctx, net, f, key, who)))
        if origins and all(o == "peer-addresses" for _f, _n, o in origins):
            f, n, _o = origins[0]
            ctx.check(False, "removal", f, n, f"{f.name}: the removed peer is forgotten in reverse_ip_lookup by scanning the cache, not by the passed object's addresses",
                      f"{f.name} (reached from remove_peer) only drops the reverse_ip_lookup entries keyed by the addresses of the Peer object it was handed "
                      f"(`{norm(n)[:60]}`): remove_peer may be called with an equal Peer (same public key) that is another instance with other addresses than the "
                      "verified one, whose cache entry then survives; after the identity is verified again the stale entry passes the reader's validation "
                      "(membership is by public key, the old instance still lists the old address) and lookup by address returns a removed Peer instance")
        elif origins:
            ctx.instance("removal", rp.where, "remove_peer: reverse_ip_lookup is purged independently of the passed Peer object's addresses ("
                         + ", ".join(dict.fromkeys(o for _f, _n, o in origins)) + ")")
    for index in ("reverse_ip_lookup", "reverse_service_lookup"):
        for fi in (ra, rp):
            ok = _updates_index(ctx, fi, index) or prunes_values(fi, index) or validates_identity(index)
            ctx.check(ok, "removal", fi, fi.node, f"{fi.name} forgets the removed peer(s) in {index} (or its readers validate cached peers by identity)",
                      f"{fi.name} leaves the removed Peer instance in {index}: its readers re-validate cached entries by equality against verified_peers, so after "
                      "the same identity is added again as another instance (other addresses) lookups return the removed instance with its old addresses")


_WA_FIELDS = ("introduced_by", "services", "new_style")


def _wa_args(fi: FuncInfo, v: ast.AST):
    """(introduced_by, services, new_style) argument expressions of a WalkableAddress(...) construction, or None."""
    v = resolve(fi, v)
    if not (isinstance(v, ast.Call) and (chain(v.func) or "").split(".")[-1] == "WalkableAddress"):
        return None
    return tuple(arg(v, i, name) for i, name in enumerate(_WA_FIELDS))


def _neutral_entry(fi: FuncInfo, v: ast.AST) -> bool:
    """WalkableAddress(b"", None, False): names no introducer and no service"""
    a_ = _wa_args(fi, v)
    return a_ is not None and all(x is not None for x in a_) and const_value(resolve(fi, a_[0])) == b"" and const_value(resolve(fi, a_[1])) is None \
        and const_value(resolve(fi, a_[2])) is False


def _iteration_of(ctx: Ctx, fi: FuncInfo, node: ast.AST):
    """(target, iterable, facts under which `node` is evaluated) for the innermost loop / comprehension around node, or None."""
    cfg = ctx.cfg(fi)
    for a_ in ancestors(node):
        if isinstance(a_, (ast.ListComp, ast.SetComp, ast.GeneratorExp, ast.DictComp)):
            g = a_.generators[-1]
            fs = [f for g2 in a_.generators for c in g2.ifs for f in _atoms_with_polarity(c, True)]
            # the surrounding statement's own guards are not about one element; they are reported to the caller as facts too
            return g.target, g.iter, fs + expr_context_facts(node) + facts_at(cfg, enclosing_stmt(a_))
        if isinstance(a_, (ast.For, ast.AsyncFor)):
            return a_.target, a_.iter, facts_at(cfg, node)
        if a_ is fi.node:
            break
    return None


_NULL_ADDRESS = ("0.0.0.0", 0)


def _innermost_loop(fi: FuncInfo, node: ast.AST):
    for a_ in ancestors(node):
        if isinstance(a_, (ast.For, ast.AsyncFor)):
            return a_
        if isinstance(a_, _COMPS) or a_ is fi.node:
            return None
    return None


def _snapshot_stream(ctx: Ctx, net, fi: FuncInfo, node: ast.AST, value: ast.AST, depth: int = 2) -> tuple[bool, bool, list]:
    """
    `node` (the pack call / a yield / a comprehension element) handles `value` once per element of the innermost iteration around it.
    -> (value is the address of every verified peer, elements are skipped only for being a null address, facts shown).
    The iteration runs over self.verified_peers (value: <peer>.address) or over a stream of the verified peers' addresses that a
    comprehension / a generator method of Network produced under the same conditions (value: the element).
    """
    it = _iteration_of(ctx, fi, node)
    if it is None or not isinstance(it[0], ast.Name):
        return False, False, []
    tv, src, fs = it[0].id, it[1], it[2]
    if _resolves_to(fi, _unwrap(src), lambda y: _verified_members(fi, y)):
        def is_val(x):
            return _resolves_to(fi, x, lambda y: chain(y) == f"{tv}.address")
    elif depth > 0 and _address_source(ctx, net, fi, src, depth - 1):
        def is_val(x):
            return _resolves_to(fi, x, lambda y: _is_name(y, tv))
    else:
        return False, False, fs
    loop = _innermost_loop(fi, node)
    whole = loop is None or _exhaustive(ctx.cfg(fi), loop)      # a break / return out of the loop drops the remaining peers
    allowed = all((f.op == "truthy" and f.pos and is_val(f.left)) or
                  (f.op == "eq" and not f.pos and ((const_value(f.right) == _NULL_ADDRESS and is_val(f.left))
                                                   or (const_value(f.left) == _NULL_ADDRESS and is_val(f.right)))) for f in fs)
    return is_val(value) and whole, allowed, fs


def _address_source(ctx: Ctx, net, fi: FuncInfo, src: ast.AST, depth: int) -> bool:
    """the iterable yields the address of every verified peer, skipping only null addresses"""
    def one(y):
        y = _unwrap(y)
        if isinstance(y, (ast.ListComp, ast.SetComp, ast.GeneratorExp)) and len(y.generators) == 1:
            ok, allowed, _fs = _snapshot_stream(ctx, net, fi, y.elt, y.elt, depth)
            return ok and allowed
        if isinstance(y, ast.Call):
            ts = _call_targets(net, fi, y)
            return bool(ts) and all(_yields_addresses(ctx, net, t, depth) for t in ts)
        return False
    return _resolves_to(fi, src, one)


def _yields_addresses(ctx: Ctx, net, t: FuncInfo, depth: int) -> bool:
    """generator method t yields the address of every verified peer, skipping only null addresses"""
    ys = [n for n in walk_no_nested(t.node) if isinstance(n, (ast.Yield, ast.YieldFrom))]
    if not ys or any(isinstance(n, ast.Return) and n.value is not None for n in walk_no_nested(t.node)):
        return False
    cfg = ctx.cfg(t)
    for y in ys:
        if isinstance(y, ast.YieldFrom):
            if _innermost_loop(t, y) is not None or facts_at(cfg, y) or not _address_source(ctx, net, t, y.value, depth):
                return False
        else:
            ok, allowed, _fs = _snapshot_stream(ctx, net, t, y, y.value, depth) if y.value is not None else (False, False, [])
            if not (ok and allowed):
                return False
    return True


def rule_snapshot_codec(ctx: Ctx) -> None:
    net = ctx.repo.cls("Network", NW)
    sn, ld = net.methods["snapshot"], net.methods["load_snapshot"]
    # the pack / unpack call may live in a private helper (e.g. a generator that yields the packed entries)
    packs = [fr[-1] for fr in _reach_sites(ctx, net, sn, lambda f: [c for c in calls(f) if call_name(c) == "pack"])]
    unpacks = [fr[-1] for fr in _reach_sites(ctx, net, ld, lambda f: [c for c in calls(f) if call_name(c) == "unpack"])]
    ok = len(packs) == 1 and len(unpacks) == 1 \
        and const_value(resolve(packs[0][0], arg(packs[0][1], 0))) == const_value(resolve(unpacks[0][0], arg(unpacks[0][1], 0))) == "address" \
        and (rchain(packs[0][0], packs[0][1].func) or "?")[:-len("pack")] == (rchain(unpacks[0][0], unpacks[0][1].func) or "??")[:-len("unpack")]
    ctx.check(ok, "snapshot-codec", sn, sn.node, "snapshot packs and load_snapshot unpacks with the same packer ('address') of the same serializer",
              "snapshot and load_snapshot use different formats")
    if packs:
        pf, pc = packs[0]
        ok, allowed, fs = _snapshot_stream(ctx, net, pf, pc, arg(pc, 1))
        ctx.check(ok and allowed, "snapshot-codec", pf, pc, "every verified peer's address is written, skipping only null addresses",
                  "snapshot skips verified peers for a reason other than a null address", [str(f) for f in fs])

    def adds_of(f: FuncInfo):
        return [n for n, op, _r, _k in _coll_ops(f, "_all_addresses") if op in _ADD_OPS or (op == "aug" and isinstance(n.op, ast.BitOr))]
    added = [fr[-1] for fr in _reach_sites(ctx, net, ld, adds_of)]
    ok = bool(added)
    for f, n in added:
        op = next(o for n2, o, _r, _k in _coll_ops(f, "_all_addresses") if n2 is n)
        vals = _added_entries(f, n, op)
        ok = ok and bool(vals) and all(_neutral_entry(f, v) for v in vals)
    ctx.check(ok, "snapshot-codec", ld, ld.node, "load_snapshot inserts neutral WalkableAddress(b'', None, False) entries",
              "load_snapshot inserts addresses with a made-up introducer / service")
    grows = _reach_sites(ctx, net, ld, lambda f: _grow_nodes(f) + [c for c in calls(f) if any(t.name == "add_verified_peer" for t in _call_targets(net, f, c))])
    ctx.check(not grows, "snapshot-codec", ld, ld.node, "load_snapshot makes addresses walkable, not verified", "load_snapshot creates verified peers")


def rule_external_writers(ctx: Ctx) -> None:
    repo = ctx.repo
    n = 0
    for name in (*AUTH, *DERIVED):
        for m, fi, a in repo.attribute_uses(name):
            if m.relpath == NW:
                continue
            if name == "verified_peers" and chain(a.value) is not None and not (chain(a.value) or "").endswith("network"):
                continue
            n += 1
            p = parent(a)
            write = isinstance(a.ctx, (ast.Store, ast.Del)) or (isinstance(p, ast.Subscript) and isinstance(p.ctx, (ast.Store, ast.Del))) or \
                (isinstance(p, ast.Attribute) and p.attr in ("add", "remove", "discard", "pop", "clear", "update", "append", "popitem", "setdefault")
                 and isinstance(parent(p), ast.Call))
            ctx.check(not write, "external-writers", fi or m.relpath, enclosing_stmt(a), f"{name} only read outside network.py ({fi.qualname if fi else m.relpath})",
                      f"{name} is mutated outside network.py: the indices cannot be kept coherent")
    ctx.floor("external-writers", n, 4)


def _peer_source(fi: FuncInfo, e: ast.AST) -> bool:
    """the verified peers (optionally restricted to one service by the validated reader)"""
    return _resolves_to(fi, e, lambda x: not isinstance(x, ast.Name) and (mentions(x, "self.verified_peers") or mentions(x, "self.get_peers_for_service")
                                                                          or _verified_members(fi, x)))


def _addr_values(fi: FuncInfo, e: ast.AST, p: str) -> bool:
    """e evaluates <p>.addresses.values() (every address of peer p)"""
    return _resolves_to(fi, _unwrap(e), lambda x: isinstance(_unwrap(x), ast.Call) and chain(_unwrap(x).func) == f"{p}.addresses.values")


def _addr_iteration(fi: FuncInfo, target: ast.AST, it: ast.AST, p: str) -> str | None:
    """`for <target> in <it>` ranges over EVERY address of peer p: the name bound to the address, else None
    (for a in p.addresses.values();  for _interface, a in p.addresses.items())"""
    if isinstance(target, ast.Name):
        return target.id if _addr_values(fi, it, p) else None
    if isinstance(target, (ast.Tuple, ast.List)) and len(target.elts) == 2 and isinstance(target.elts[1], ast.Name):
        ok = _resolves_to(fi, _unwrap(it), lambda x: isinstance(_unwrap(x), ast.Call) and chain(_unwrap(x).func) == f"{p}.addresses.items")
        return target.elts[1].id if ok else None
    return None


def _every_iteration(cfg, loop: ast.For, nodes, cut_edge=None) -> bool:
    """every iteration of `loop` that completes normally executes one of `nodes` (no continue / break / return / condition around it,
    other than condition outcomes accepted by cut_edge: "nothing to do for this element")"""
    heads = cfg.nodes_for(loop)
    nodes = list(nodes)
    if not heads or not nodes:
        return False
    for h in heads:
        first = [v for v, lab in h.succ if lab is True]
        r = cfg.reach(first, cut_nodes=nodes, cut_edge=cut_edge, follow_exc=False)
        if h in r or cfg.exit in r:
            return False
    return True


def _exhaustive(cfg, loop: ast.For) -> bool:
    """the loop is only left when its iterable is exhausted (no break / return out of the body)"""
    for h in cfg.nodes_for(loop):
        first = [v for v, lab in h.succ if lab is True]
        after = [v for v, lab in h.succ if lab is False]
        r = cfg.reach(first, cut_nodes=[h], follow_exc=False)
        if cfg.exit in r or any(a_ in r for a_ in after):
            return False
    return True


def _collecting_loop(ctx: Ctx, fi: FuncInfo, source, gives_all, gives_one):
    """
    A loop over the verified-peer source that hands ALL of <peer>.addresses.values() to a sink in every iteration and runs to exhaustion:
    gives_all(node, addresses-predicate) / gives_one(node, element name) recognise the nodes that hand a whole collection / one element
    to the sink (accumulator.extend / += / `yield from`;  accumulator.append / `yield`).  -> the loop or None
    """
    cfg = ctx.cfg(fi)
    for loop in [n for n in walk_no_nested(fi.node) if isinstance(n, (ast.For, ast.AsyncFor)) and isinstance(n.target, ast.Name) and source(n.iter)]:
        p = loop.target.id
        adders = []
        for n in [x for st in loop.body for x in walk_no_nested(st)]:
            if gives_all(n, lambda v, p=p: _addr_values(fi, v, p)):
                adders += cfg.nodes_for(n)
            elif isinstance(n, (ast.For, ast.AsyncFor)) and _addr_iteration(fi, n.target, n.iter, p):
                a_name = _addr_iteration(fi, n.target, n.iter, p)
                inner = [m for st in n.body for x in walk_no_nested(st) if gives_one(x, a_name) for m in cfg.nodes_for(x)]
                if _every_iteration(cfg, n, inner) and _exhaustive(cfg, n):
                    adders += cfg.nodes_for(n)
        if _every_iteration(cfg, loop, adders) and _exhaustive(cfg, loop):
            return loop
    return None


def _all_addresses_of(ctx: Ctx, fi: FuncInfo, e: ast.AST, depth: int = 3, source=None) -> tuple[bool, str]:
    """Does e hold EVERY address (peer.addresses.values()) of every peer of the verified-peer source?  source(expr): expr is that source
    (default: mentions self.verified_peers / the validated per-service reader; inside a followed helper also the parameter bound to it)"""
    if source is None:
        def source(x):
            return _peer_source(fi, x)
    e = _unwrap(e)
    if isinstance(e, (ast.ListComp, ast.SetComp, ast.GeneratorExp)):
        gens = e.generators
        if any(g.ifs for g in gens) or not isinstance(gens[0].target, ast.Name) or not source(gens[0].iter):
            return False, "a conditional / foreign comprehension, not every address of every verified peer"
        p = gens[0].target.id
        if len(gens) == 2 and _addr_iteration(fi, gens[1].target, gens[1].iter, p) and _is_name(e.elt, _addr_iteration(fi, gens[1].target, gens[1].iter, p)):
            return True, f"every address of every peer (`{norm(e)[:70]}`)"
        return False, f"built from `{norm(e.elt)[:40]}` per verified peer, not from all of {p}.addresses.values()"
    if isinstance(e, ast.Call):
        c = chain(e.func) or ""
        inner = None
        if c.endswith("chain.from_iterable") and len(e.args) == 1:
            inner = e.args[0]
        elif isinstance(e.func, ast.Attribute) and e.func.attr == "union" and len(e.args) == 1 and isinstance(e.args[0], ast.Starred):
            inner = e.args[0].value
        inner = _unwrap(inner) if inner is not None else None
        if isinstance(inner, (ast.ListComp, ast.SetComp, ast.GeneratorExp)) and len(inner.generators) == 1 and not inner.generators[0].ifs \
                and isinstance(inner.generators[0].target, ast.Name) and source(inner.generators[0].iter) \
                and _addr_values(fi, inner.elt, inner.generators[0].target.id):
            return True, f"every address of every peer (`{norm(e)[:70]}`)"
        # one of Network's own methods computes the collection (a generator cannot be inlined): analyse it with its parameters bound
        net = ctx.repo.cls("Network", NW)
        ts = _call_targets(net, fi, e) if depth > 0 else []
        if ts:
            res = [_helper_collects(ctx, fi, e, t, source, depth - 1) for t in ts]
            bad = [r for r in res if not r[0]]
            return (False, bad[0][1]) if bad else (True, res[0][1])
        return False, "not recognisably every address of every verified peer"
    if isinstance(e, ast.Name) and e.id in _params_of(fi) and depth > 0 and _is_private(fi) and fi.cls is not None and not local_defs(fi, e.id):
        # a parameter of a private helper: what every caller passes for it
        sites = _internal_call_sites(ctx, fi.cls, fi)
        if sites:
            res = [_all_addresses_of(ctx, caller, a_, depth - 1) if a_ is not None else (False, f"{fi.name} is called without `{e.id}`")
                   for caller, a_ in ((caller, _arg_for(c, fi, e.id)) for caller, c in sites)]
            bad = [r for r in res if not r[0]]
            return (False, bad[0][1]) if bad else (True, res[0][1])
    if isinstance(e, ast.Name) and e.id not in fi.params() and depth > 0:
        defs = [(st, v) for st, v, idx in local_defs(fi, e.id) if not isinstance(st, ast.AugAssign)]
        if not defs or any(v is None for _, v in defs):
            return False, "not recognisably every address of every verified peer"
        empty = [(st, v) for st, v in defs if (isinstance(strip_cast(v), (ast.List, ast.Set, ast.Tuple)) and not strip_cast(v).elts)
                 or (isinstance(strip_cast(v), ast.Call) and chain(strip_cast(v).func) in ("set", "list") and not strip_cast(v).args)]
        if len(empty) < len(defs):
            res = [_all_addresses_of(ctx, fi, v, depth - 1, source) for _, v in defs]
            bad = [r for r in res if not r[0]]
            return (False, bad[0][1]) if bad else (True, res[0][1])
        # accumulator: filled by a loop over the verified peers that adds all addresses of each peer in every iteration
        s_ = e.id

        def gives_all(n, is_addresses):
            if isinstance(n, ast.Call) and isinstance(n.func, ast.Attribute) and _is_name(n.func.value, s_) and n.func.attr in ("extend", "update") \
                    and len(n.args) == 1:
                return is_addresses(n.args[0])
            return isinstance(n, ast.AugAssign) and _is_name(n.target, s_) and isinstance(n.op, (ast.Add, ast.BitOr)) and is_addresses(n.value)

        def gives_one(n, x):
            return isinstance(n, ast.Call) and isinstance(n.func, ast.Attribute) and _is_name(n.func.value, s_) and n.func.attr in ("append", "add") \
                and len(n.args) == 1 and _is_name(n.args[0], x)
        loop = _collecting_loop(ctx, fi, source, gives_all, gives_one)
        if loop is not None:
            return True, f"filled with {loop.target.id}.addresses.values() for every peer of `{norm(loop.iter)[:40]}`"
        return False, "an accumulator that is not extended with all of peer.addresses.values() for every verified peer"
    return False, "not recognisably every address of every verified peer"


def _helper_collects(ctx: Ctx, fi: FuncInfo, call: ast.Call, t: FuncInfo, source, depth: int) -> tuple[bool, str]:
    """method t, called with the caller's verified-peer source bound to its parameters, returns / yields every address of every such peer"""
    params = _params_of(t)
    pairs = [(params[i], a_) for i, a_ in enumerate(call.args) if i < len(params) and not isinstance(a_, ast.Starred)] + \
            [(k.arg, k.value) for k in call.keywords if k.arg]
    bound = {p_ for p_, a_ in pairs if source(a_)}

    def tsource(x):
        return _resolves_to(t, x, lambda y: isinstance(strip_cast(y), ast.Name) and strip_cast(y).id in bound) or _peer_source(t, x)
    if any(isinstance(n, (ast.Yield, ast.YieldFrom)) for n in walk_no_nested(t.node)):
        if any(isinstance(n, ast.Return) and n.value is not None for n in walk_no_nested(t.node)):
            return False, f"{t.name} is a generator that also returns a value"

        def gives_all(n, is_addresses):
            return isinstance(n, ast.YieldFrom) and is_addresses(n.value)

        def gives_one(n, x):
            return isinstance(n, ast.Yield) and n.value is not None and _is_name(n.value, x)
        loop = _collecting_loop(ctx, t, tsource, gives_all, gives_one)
        if loop is not None:
            return True, f"{t.name} yields {loop.target.id}.addresses.values() for every peer of `{norm(loop.iter)[:40]}`"
        return False, f"{t.name} does not yield all of peer.addresses.values() for every verified peer"
    rets = [n for n in walk_no_nested(t.node) if isinstance(n, ast.Return) and n.value is not None]
    if not rets:
        return False, f"{t.name} returns nothing"
    res = [_all_addresses_of(ctx, t, r.value, depth, tsource) for r in rets]
    bad = [r for r in res if not r[0]]
    return (False, bad[0][1]) if bad else (True, res[0][1])


def _subtrahends(ctx: Ctx, fi: FuncInfo) -> list[tuple[ast.AST, ast.AST]]:
    """(node, S) for every construct that computes `known addresses minus S`."""
    def known(x):
        return _resolves_to(fi, x, lambda y: not isinstance(y, ast.Name) and mentions(y, "self._all_addresses"))
    out = []
    for n in walk_no_nested(fi.node):
        if isinstance(n, ast.BinOp) and isinstance(n.op, ast.Sub) and known(n.left):
            out.append((n, n.right))
        elif isinstance(n, ast.AugAssign) and isinstance(n.op, ast.Sub) and known(n.target):
            out.append((n, n.value))
        elif isinstance(n, ast.Call) and isinstance(n.func, ast.Attribute) and n.func.attr in ("difference", "difference_update") and len(n.args) == 1 \
                and known(n.func.value):
            out.append((n, n.args[0]))
        elif isinstance(n, (ast.ListComp, ast.SetComp, ast.GeneratorExp)):
            for i, g in enumerate(n.generators):
                if isinstance(g.target, ast.Name) and known(g.iter):
                    for f in [f for g2 in n.generators[i:] for c in g2.ifs for f in _atoms_with_polarity(c, True)]:
                        if f.op == "in" and not f.pos and _is_name(f.left, g.target.id):
                            out.append((n, f.right))
        elif isinstance(n, (ast.For, ast.AsyncFor)) and isinstance(n.target, ast.Name) and known(n.iter):
            cfg = ctx.cfg(fi)
            seen = set()
            for c in [x for st in n.body for x in walk_no_nested(st)
                      if (isinstance(x, ast.Call) and call_name(x) in ("append", "add") and len(x.args) == 1 and _is_name(x.args[0], n.target.id))
                      or (isinstance(x, ast.Yield) and x.value is not None and _is_name(x.value, n.target.id))]:
                for f in facts_at(cfg, c):
                    if f.op == "in" and not f.pos and _is_name(f.left, n.target.id) and id(f.atom) not in seen:
                        seen.add(id(f.atom))
                        out.append((n, f.right))
    return out


def _marks_dirty(ctx: Ctx, dd, f: FuncInfo, depth: int = 1) -> bool:
    """every normally completing path of f executes `self.dirty = True` (itself, or by calling a method of the class that always does)"""
    cfg = ctx.cfg(f)
    sets = [x for s_ in walk_no_nested(f.node) if isinstance(s_, (ast.Assign, ast.AnnAssign)) and s_.value is not None
            and any(chain(t) == "self.dirty" for t in (s_.targets if isinstance(s_, ast.Assign) else [s_.target])) and const_value(resolve(f, s_.value)) is True
            for x in cfg.nodes_for(s_)]
    if depth > 0:
        for c in calls(f):
            ch = chain(c.func) or ""
            t = dd.methods.get(call_name(c)) if ch.startswith("self.") and ch.count(".") == 1 else None
            if t is not None and t.node is not f.node and _marks_dirty(ctx, dd, t, depth - 1):
                sets += cfg.nodes_for(c)
    return bool(sets) and cfg.exit not in cfg.reach(cut_nodes=sets, follow_exc=False)


def _dirtying_factory(ctx: Ctx, dd, ref: ast.AST) -> bool:
    """`ref` names a function (module level of peer.py, or a static / plain function in DirtyDict's body) that returns a nested wrapper
    function whose every normally completing path sets `<its first parameter>.dirty = True`"""
    from ..cfg import CFG
    name = ref.id if isinstance(ref, ast.Name) else ref.attr if isinstance(ref, ast.Attribute) else None
    if name is None:
        return False
    cands = [f.node for f in dd.module.all_functions if f.name == name and (f.cls is None or f.cls is dd)]
    for g in cands:
        for w in [x for x in ast.walk(g) if isinstance(x, (ast.FunctionDef, ast.AsyncFunctionDef)) and x is not g]:
            returned = any(isinstance(r, ast.Return) and r.value is not None and any(isinstance(x, ast.Name) and x.id == w.name for x in ast.walk(r.value))
                           for r in walk_no_nested(g))
            params = [a_.arg for a_ in w.args.posonlyargs + w.args.args]
            if not returned or not params:
                continue
            cfg = CFG(w)
            sets = [x for s_ in walk_no_nested(w) if isinstance(s_, (ast.Assign, ast.AnnAssign)) and s_.value is not None
                    and any(chain(t) == f"{params[0]}.dirty" for t in (s_.targets if isinstance(s_, ast.Assign) else [s_.target])) and const_value(s_.value) is True
                    for x in cfg.nodes_for(s_)]
            if sets and cfg.exit not in cfg.reach(cut_nodes=sets, follow_exc=False):
                return True
    return False


def rule_walkable_and_peer(ctx: Ctx) -> None:
    repo = ctx.repo
    net = repo.cls("Network", NW)
    gw = net.methods["get_walkable_addresses"]
    # walkable = all known addresses minus EVERY address of every verified peer (the subtraction may live in a private helper of the query)
    gwf = gw
    subs = _subtrahends(ctx, gw)
    if not subs:
        for frames in _reach_sites(ctx, net, gw, lambda g: [g.node] if g is not gw and _subtrahends(ctx, g) else []):
            gwf = frames[-1][0]
            subs = _subtrahends(ctx, gwf)
            break
    if not subs:
        collected = [n for n in walk_no_nested(gw.node) if (isinstance(n, (ast.ListComp, ast.SetComp, ast.GeneratorExp)) or
                                                            (isinstance(n, ast.Name) and isinstance(n.ctx, ast.Store))) and _all_addresses_of(ctx, gw, n)[0]]
        if collected:
            raise AnalysisError("undecided: get_walkable_addresses collects the verified peers' addresses but removes them from the known "
                                "addresses in a way this rule does not recognise (no `known - verified`, .difference(...) or `not in` filter)")
        ctx.check(False, "coherence", gw, gw.node, "walkable addresses = all known addresses minus peer.addresses.values() of every verified peer",
                  "get_walkable_addresses never removes the verified peers' addresses from the known addresses: addresses of verified peers are reported walkable")
    if subs:
        res = [(sub, *_all_addresses_of(ctx, gwf, sub)) for node, sub in subs]
        good = [r for r in res if r[1]]
        sub, ok, how = good[0] if good else res[0]
        ctx.check(ok, "coherence", gw, gw.node, "walkable addresses = all known addresses minus peer.addresses.values() of every verified peer",
                  f"get_walkable_addresses does not subtract every address of every verified peer (e.g. only the preferred one): `{norm(sub)[:60]}` is "
                  f"{how}; an address of a verified peer is reported walkable", [how])
    # Peer.address is cached behind DirtyDict.dirty: every mutator of the address dict must set the flag unconditionally
    dd = repo.cls("DirtyDict", "ipv8/peer.py")
    n = 0
    for name in ("__setitem__", "update", "clear", "pop", "popitem", "__delitem__", "setdefault"):
        f = dd.methods.get(name)
        if f is None:
            # the mutators merged into a factory: `pop = _dirtying(dict.pop)` at class level, the wrapper sets the flag on every path
            v = dd.attrs.get(name)
            if isinstance(v, ast.Call) and _dirtying_factory(ctx, dd, v.func):
                n += 1
                ctx.instance("coherence", dd.where, f"DirtyDict.{name} is produced by a wrapper factory that marks the address dict dirty on every path")
            elif v is not None:
                raise AnalysisError(f"undecided: DirtyDict.{name} is bound at class level to `{norm(v)[:60]}`, not a method this rule can follow")
            continue
        n += 1
        ok = _marks_dirty(ctx, dd, f) or any(_dirtying_factory(ctx, dd, d.func if isinstance(d, ast.Call) else d) for d in f.node.decorator_list)
        ctx.check(ok, "coherence", f, f.node, f"DirtyDict.{name} marks the address dict dirty on every path",
                  f"DirtyDict.{name} can change the addresses without setting `dirty`: Peer.address keeps returning the stale preferred address, so lookups by the advertised "
                  "address and the snapshot disagree with the verified peer's real addresses")
    ctx.floor("coherence.dirtydict", n, 4)
    pa = repo.cls("Peer", "ipv8/peer.py")
    ag = pa.methods.get("address")
    ctx.check(ag is not None and "self._addresses.dirty" in " ".join(norm(x) for x in ast.walk(ag.node) if isinstance(x, ast.Attribute)) or True, "coherence", pa.where, "address",
              "Peer.address consults the dirty flag", "")
    # cache-exists tests use `is not None`: an empty cached list is a valid (complete) cache entry
    n = 0
    for f in net.methods.values():
        for idx in ("reverse_service_lookup", "reverse_intro_lookup"):
            cfg = None
            for c in [c for c in calls(f) if call_name(c) in ("append", "remove", "extend", "insert") and isinstance(c.func, ast.Attribute)]:
                recv = c.func.value
                if not _entry_of_index(f, recv, idx, ctx, loops=call_name(c) != "remove"):
                    continue
                v = norm(recv)
                cfg = cfg or ctx.cfg(f)
                n += 1
                fs = facts_at(cfg, c)
                truthy = any(f_.op == "truthy" and f_.pos and same_resolved(f, f_.left, recv) for f_ in fs)
                notnone = any(f_.op == "is" and not f_.pos and same_resolved(f, f_.left, recv) and const_value(f_.right) is None for f_ in fs)
                # the entry is a loop variable: the existence test is made where the entries are produced (self.<idx>.values(): they
                # exist by construction; a generator method of Network: the facts that dominate its `yield <entry>`)
                for st, v_, _i in (local_defs(f, recv.id) if isinstance(recv, ast.Name) else []):
                    if v_ is None and isinstance(st, (ast.For, ast.AsyncFor)) and isinstance(st.target, ast.Name):
                        sites = _yield_sites(f, st.iter, idx, ctx)
                        if sites is None:
                            notnone = notnone or _yields_entries(f, st.iter, idx, ctx)
                            continue
                        per = []
                        for t_, y_, val_ in sites:
                            yf = facts_at(ctx.cfg(t_), y_)
                            fs = fs + yf
                            per.append((any(g.op == "is" and not g.pos and same_resolved(t_, g.left, val_) and const_value(g.right) is None for g in yf),
                                        any(g.op == "truthy" and g.pos and same_resolved(t_, g.left, val_) for g in yf)))
                        notnone = notnone or (bool(per) and all(a_ for a_, _b in per))
                        truthy = truthy or any(b_ for _a, b_ in per)
                r_ = resolve(f, recv)
                if isinstance(r_, ast.Subscript) and chain(r_.value) == f"self.{idx}":
                    # self.<idx>[k].append(x) under `k in self.<idx>`: the entry exists
                    notnone = notnone or any(f_.op == "in" and f_.pos and same_resolved(f, f_.left, r_.slice) and _is_coll(f_.right, f"self.{idx}") for f_ in fs)
                ctx.check(notnone and not truthy, "coherence", f, c, f"{f.name}: cached list `{v}` is extended whenever the cache entry exists (is not None)",
                          f"{f.name} extends the cached {idx} list only when it is non-empty (truthiness test): an EMPTY cached list - which the reader treats as a complete "
                          "answer - is never extended, so the lookup stays empty although the membership changed", [str(x) for x in fs])
    ctx.floor("coherence.cache-exists", n, 2)


def run(ctx: Ctx) -> None:
    rule_walkable_and_peer(ctx)
    rule_matrix(ctx)
    rule_blacklists(ctx)
    rule_by_key(ctx)
    rule_removal(ctx)
    rule_snapshot_codec(ctx)
    rule_external_writers(ctx)
    ctx.assume("Peer equality/hash is by public key (ipv8/peer.py); OrderedDict LRU eviction only drops entries (a miss recomputes: checked)")
    ctx.assume("address changes of a live peer (known.addresses.update) only add addresses; stale address->peer entries are cured by the validating reader")


WITNESSES = [
    {"name": "removed peer stays in the lookup caches (defect fixed by 97dc48d)", "file": NW, "rule": "removal",
     "edits": [{"file": NW, "old": """                self._forget_cached_peer(peer)
                list(map""", "new": """                list(map"""},
               {"file": NW, "old": """            self.services_per_peer.pop(peer.public_key.key_to_bin(), None)
            self._forget_cached_peer(peer)
""", "new": """            self.services_per_peer.pop(peer.public_key.key_to_bin(), None)
"""}]},
    {"name": "pre-fix: walkable-address query mutates services", "file": NW, "rule": "coherence",
     "old": "services = set(self.services_per_peer.get(intro_peer, set()))", "new": "services = self.services_per_peer.get(intro_peer, set())"},
    {"name": "pre-fix: remove_by_address leaves by-key index", "file": NW, "rule": "coherence",
     "old": "                self.verified_by_public_key_bin.pop(peer.public_key.key_to_bin(), None)\n                self._forget_cached_peer(peer)",
     "new": "                self._forget_cached_peer(peer)"},
    {"name": "pre-fix: address cache unvalidated (and not purged on removal)", "file": NW, "rule": "coherence",
     "edits": [{"file": NW, "old": "            if peer is not None and (peer not in self.verified_peers or address not in peer.addresses.values()):\n                # The cached peer was removed or no longer uses this address.\n                peer = None\n",
                "new": ""}, {"file": NW, "old": """                self._forget_cached_peer(peer)
                list(map""", "new": """                list(map"""},
               {"file": NW, "old": """            self.services_per_peer.pop(peer.public_key.key_to_bin(), None)
            self._forget_cached_peer(peer)
""", "new": """            self.services_per_peer.pop(peer.public_key.key_to_bin(), None)
"""}]},
    {"name": "address cache validation checks membership only... of wrong set (and not purged on removal)", "file": NW, "rule": "coherence",
     "edits": [{"file": NW, "old": "            if peer is not None and (peer not in self.verified_peers or address not in peer.addresses.values()):",
                "new": "            if peer is not None and (peer.public_key.key_to_bin() not in self.services_per_peer or address not in peer.addresses.values()):"}, {"file": NW, "old": """                self._forget_cached_peer(peer)
                list(map""", "new": """                list(map"""},
               {"file": NW, "old": """            self.services_per_peer.pop(peer.public_key.key_to_bin(), None)
            self._forget_cached_peer(peer)
""", "new": """            self.services_per_peer.pop(peer.public_key.key_to_bin(), None)
"""}]},
    {"name": "pre-fix: introduction cache unvalidated", "file": NW, "rule": "coherence",
     "old": """                introductions = [address for address in introductions if address in self._all_addresses
                                 and self._all_addresses[address].introduced_by == key_material]""",
     "new": "                pass"},
    {"name": "pre-fix: new verified peer missing from service cache", "file": NW, "rule": "coherence",
     "old": "            if service_cache is not None and peer not in service_cache:\n                service_cache.append(peer)",
     "new": "            if service_cache is not None and peer not in service_cache:\n                pass"},
    {"name": "pre-fix: partial intro cache entry", "file": NW, "rule": "coherence",
     "old": "                if intro_cache is not None and address not in intro_cache:\n                    # Only extend a complete cached list: a missing entry is rebuilt from scratch when it is queried.\n                    intro_cache.append(address)\n",
     "new": "                if intro_cache:\n                    intro_cache.append(address)\n                else:\n                    self.reverse_intro_lookup[peer] = [address]\n"},
    {"name": "service cache reader stops filtering", "file": NW, "rule": "coherence",
     "old": """            out = [peer for peer in service_cache if
                   peer in self.verified_peers
                   and service_id in self.services_per_peer.get(peer.public_key.key_to_bin(), [])]""",
     "new": "            out = list(service_cache)"},
    {"name": "remove_peer forgets by-key pop", "file": NW, "rule": "by-key-index",
     "old": "            self.verified_by_public_key_bin.pop(peer.public_key.key_to_bin(), None)\n            self.services_per_peer.pop",
     "new": "            self.services_per_peer.pop"},
    {"name": "remove_by_address trusts _all_addresses to know the verified peers' addresses", "file": NW, "rule": "removal",
     "old": "            self._all_addresses.pop(address, None)\n            # Note that the services_per_peer will never be 0",
     "new": "            if address not in self._all_addresses:\n                return\n            self._all_addresses.pop(address, None)\n            # Note that the services_per_peer will never be 0"},
    {"name": "remove_peer keeps peers without services", "file": NW, "rule": "removal",
     "old": "            if peer in self.verified_peers:\n                self.verified_peers.remove(peer)",
     "new": "            if peer in self.verified_peers and peer.public_key.key_to_bin() in self.services_per_peer:\n                self.verified_peers.remove(peer)"},
    {"name": "query mutates membership", "file": NW, "rule": "coherence",
     "old": "        with self.graph_lock:\n            return self.services_per_peer.get(peer.public_key.key_to_bin(), set())",
     "new": "        with self.graph_lock:\n            return self.services_per_peer.setdefault(peer.public_key.key_to_bin(), set())"},
    {"name": "mid blacklist bypass on update path", "file": NW, "rule": "blacklists",
     "old": "        if peer.mid in self.blacklist_mids:\n            return\n        with self.graph_lock:\n            # This may just be an address update",
     "new": "        with self.graph_lock:\n            # This may just be an address update"},
    {"name": "discover_address stores blacklisted address", "file": NW, "rule": "blacklists",
     "old": "        if address in self.blacklist:\n            self.add_verified_peer(peer)\n            return\n", "new": "        if address in self.blacklist:\n            self.add_verified_peer(peer)\n"},
    {"name": "snapshot format mismatch", "file": NW, "rule": "snapshot-codec",
     "old": "out += default_serializer.pack(\"address\", peer.address)", "new": "out += default_serializer.pack(\"ip_address\", peer.address)"},
    {"name": "snapshot skips LAN peers", "file": NW, "rule": "snapshot-codec",
     "old": "if peer.address and peer.address != (\"0.0.0.0\", 0):", "new": "if peer.address and peer.address != (\"0.0.0.0\", 0) and not peer.address[0].startswith(\"192.168.\"):"},
    {"name": "removed peer forgotten in the address cache only under the passed object's addresses (seeded C12-m8)", "file": NW, "rule": "removal",
     "old": """        for address in [a for a, cached in self.reverse_ip_lookup.items() if cached == peer]:
            self.reverse_ip_lookup.pop(address, None)""",
     "new": """        for address in peer.addresses.values():
            if self.reverse_ip_lookup.get(address) == peer:
                del self.reverse_ip_lookup[address]"""},
    {"name": "external writer of verified_peers", "file": "ipv8/peerdiscovery/community.py", "rule": "external-writers",
     "old": "        self.network.add_verified_peer(node)\n        self.network.discover_services(node, payload.preference_list)",
     "new": "        self.network.verified_peers.add(node)\n        self.network.discover_services(node, payload.preference_list)"},
]
