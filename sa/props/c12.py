"""C12 - The peer graph's lookups always agree with its membership."""
from __future__ import annotations

import ast

from ..core import Ctx
from ..match import (_atoms_with_polarity, arg, call_name, calls, expr_context_facts, fact_of, facts_at, local_defs, mentions, rchain, resolve,
                     same_resolved, stores)
from ..model import AnalysisError, FuncInfo, ancestors, chain, const_value, enclosing_stmt, norm, parent, strip_cast, walk_no_nested

LEVEL = "other"
EXPLANATION = (
    "Index coherence as a matrix: rows are all mutation sites of the authoritative collections (verified_peers, "
    "_all_addresses, services_per_peer) found by scanning network.py; columns are the derived indices "
    "(verified_by_public_key_bin, reverse_ip_lookup, reverse_intro_lookup, reverse_service_lookup). A cell is satisfied "
    "when the mutator updates the index on the same path (directly or through a helper it calls) or when every reader "
    "of the index re-validates its cached value against the authoritative collection; cached lists must never be "
    "created from partial knowledge; every cache miss recomputes from the authoritative collection. Reader validation is "
    "decided by value flow, not by spelling: a value taken out of a cache may only reach a `return` through edges / filters "
    "that establish the required facts (peer in verified_peers and key in peer.addresses.values(); address in _all_addresses "
    "and introduced_by == the peer's key; peer in verified_peers and service in services_per_peer[peer key]). Plus blacklist "
    "guards (followed into private helpers of add_verified_peer), by-key pairing, removal completeness (remove_by_address "
    "looks at every verified peer on every path; remove_peer removes unless not a member; both forget the removed instance in the address and service caches, whose readers "
    "validate by equality), snapshot codec symmetry and the "
    "closed set of external writers. LRU eviction order is not explored - a miss recomputes (checked)."
)

NW = "ipv8/peerdiscovery/network.py"
AUTH = ("verified_peers", "_all_addresses", "services_per_peer")
DERIVED = ("verified_by_public_key_bin", "reverse_ip_lookup", "reverse_intro_lookup", "reverse_service_lookup")

# which authoritative change can invalidate which derived index (frozen from reading network.py; one reason each)
DEPENDS = {
    ("verified_peers", "remove"): {
        "verified_by_public_key_bin": "the by-key dict mirrors the verified set",
        "reverse_ip_lookup": "address -> Peer cache may hold the removed peer",
        "reverse_service_lookup": "service -> [Peer] cache may hold the removed peer",
    },
    ("verified_peers", "add"): {
        "verified_by_public_key_bin": "the by-key dict mirrors the verified set",
        "reverse_service_lookup": "a cached per-service list must gain a peer that becomes verified",
    },
    ("_all_addresses", "remove"): {
        "reverse_intro_lookup": "Peer -> [introduced addresses] cache may hold the removed address",
    },
    ("_all_addresses", "add"): {
        "reverse_intro_lookup": "a cached introduction list must gain a newly introduced address (when it names an introducer)",
    },
    ("services_per_peer", "remove"): {
        "reverse_service_lookup": "service -> [Peer] cache may hold a peer that no longer advertises the service",
    },
    ("services_per_peer", "add"): {
        "reverse_service_lookup": "a cached per-service list must gain a peer that starts advertising the service",
    },
}


_QUERIES = ("get_verified_by_address", "get_introductions_from", "get_peers_for_service", "get_verified_by_public_key_bin",
            "get_services_for_peer", "get_walkable_addresses", "snapshot", "is_new_style")
_MUTATING = ("add", "update", "discard", "remove", "pop", "clear", "append", "extend", "insert", "setdefault", "popitem", "difference_update",
             "intersection_update", "symmetric_difference_update", "sort", "reverse")
_FRESH_CALLS = ("set", "frozenset", "list", "tuple", "dict", "sorted", "copy", "copy.copy", "copy.deepcopy", "deepcopy", "len", "bool", "any", "all")
_FRESH_METHODS = ("copy", "union", "difference", "intersection", "symmetric_difference", "keys", "values", "items")


def _fresh(fi: FuncInfo, v: ast.AST, depth: int = 3) -> bool:
    """the value of v is a new object (or immutable): mutating it cannot change a stored collection"""
    v = strip_cast(v)
    if isinstance(v, (ast.ListComp, ast.SetComp, ast.DictComp, ast.GeneratorExp, ast.List, ast.Set, ast.Dict, ast.Tuple, ast.BinOp, ast.Constant,
                      ast.Compare, ast.JoinedStr, ast.UnaryOp)):
        return True
    if isinstance(v, ast.Call):
        if (chain(v.func) or "") in _FRESH_CALLS:
            return True
        return isinstance(v.func, ast.Attribute) and v.func.attr in _FRESH_METHODS
    if isinstance(v, ast.IfExp):
        return _fresh(fi, v.body, depth) and _fresh(fi, v.orelse, depth)
    if isinstance(v, ast.BoolOp):
        return all(_fresh(fi, x, depth) for x in v.values)
    if isinstance(v, ast.Name) and depth > 0 and v.id not in fi.params():
        defs = local_defs(fi, v.id)
        return bool(defs) and all(val is not None and idx is None and _fresh(fi, val, depth - 1) for _, val, idx in defs)
    return False


def _stored_alias(fi: FuncInfo, name: str, depth: int = 3):
    """a definition of local `name` that makes it the very object held in an authoritative collection (or the collection itself)"""
    for st, v, idx in local_defs(fi, name):
        src = v
        if v is None and isinstance(st, (ast.For, ast.AsyncFor)):
            src = st.iter          # the elements of a stored collection are stored objects
            if isinstance(strip_cast(src), ast.Call) and isinstance(strip_cast(src).func, ast.Attribute) and strip_cast(src).func.attr in ("values", "items"):
                src = strip_cast(src).func.value
            elif _fresh(fi, src):
                continue
        elif v is None or _fresh(fi, v):
            continue
        if any(mentions(src, f"self.{a}") for a in AUTH):
            return src
        if depth > 0:       # services = stored if stored else set()  with  stored = self.services_per_peer.get(..)
            for p_ in _value_positions(src):
                if isinstance(p_, ast.Name) and p_.id != name and p_.id not in fi.params():
                    r = _stored_alias(fi, p_.id, depth - 1)
                    if r is not None:
                        return r
    return None


def _reaching_defs(ctx: Ctx, fi: FuncInfo, name: str, site: ast.AST):
    """definitions (stmt, value, tuple index) of local `name` that can reach `site` without being overwritten on the way"""
    cfg = ctx.cfg(fi)
    defs = local_defs(fi, name)
    at = cfg.nodes_for(site)
    out = []
    for st, v, idx in defs:
        mine = cfg.nodes_for(st)
        others = [n for st2, _v, _i in defs if st2 is not st and not isinstance(st2, ast.AugAssign) for n in cfg.nodes_for(st2)]
        r = cfg.reach([x for n in mine for x, lab in n.succ if lab != "exc"], cut_nodes=[n for n in others if n not in mine])
        if any(n in r for n in at):
            out.append((st, v, idx))
    return out


def _entry_of_index(fi: FuncInfo, recv: ast.AST, index: str, ctx: Ctx | None = None) -> bool:
    """recv is an entry stored in self.<index>: self.<index>.get(k) / self.<index>[k] itself, or a local bound to such an expression"""
    recv = strip_cast(recv)
    if isinstance(recv, ast.Name):
        defs = _reaching_defs(ctx, fi, recv.id, recv) if ctx is not None else local_defs(fi, recv.id)
        return any(v is not None and mentions(v, f"self.{index}") and not _fresh(fi, v) for _, v, _i in defs)
    if chain(recv) == f"self.{index}":
        return False
    return mentions(recv, f"self.{index}") and not _fresh(fi, recv)


def _alias_mutations(fi: FuncInfo):
    """(node, local, source) for mutations applied to a local that aliases an authoritative collection / one of its stored values."""
    out = []
    for n in walk_no_nested(fi.node):
        var = None
        if isinstance(n, ast.Call) and isinstance(n.func, ast.Attribute) and n.func.attr in _MUTATING and not isinstance(n.func.value, ast.Name):
            # self.services_per_peer.get(k, set()).add(x): the stored value itself, without a local in between
            recv = strip_cast(n.func.value)
            if chain(recv) not in [f"self.{a}" for a in AUTH] and any(mentions(recv, f"self.{a}") for a in AUTH) and not _fresh(fi, recv):
                out.append((n, norm(recv)[:40], recv))
            continue
        if isinstance(n, ast.Call) and isinstance(n.func, ast.Attribute) and n.func.attr in _MUTATING and isinstance(n.func.value, ast.Name):
            var = n.func.value.id
        elif isinstance(n, ast.AugAssign) and isinstance(n.target, ast.Name):
            var = n.target.id
        elif isinstance(n, (ast.Assign, ast.Delete)):
            for t in n.targets:
                if isinstance(t, ast.Subscript) and isinstance(t.value, ast.Name):
                    var = t.value.id
        if var is None or var in fi.params():
            continue
        src = _stored_alias(fi, var)
        if src is not None:
            out.append((n, var, src))
    return out


def mutation_sites(ctx: Ctx):
    """(function, collection, kind, node) for every mutation of an authoritative collection in network.py."""
    net = ctx.repo.cls("Network", NW)
    out = []
    for fi in [f for f in ctx.repo.module(NW).all_functions if f.cls is net]:
        for n in walk_no_nested(fi.node):
            if isinstance(n, ast.Call) and isinstance(n.func, ast.Attribute):
                base = chain(n.func.value)
                for a in AUTH:
                    if base == f"self.{a}":
                        m = n.func.attr
                        if m in ("add", "update", "setdefault", "__setitem__"):
                            out.append((fi, a, "add", n))
                        elif m in ("remove", "discard", "pop", "clear", "popitem", "difference_update", "intersection_update"):
                            out.append((fi, a, "remove", n))
            if isinstance(n, (ast.Assign, ast.AugAssign, ast.AnnAssign)):
                tgts = n.targets if isinstance(n, ast.Assign) else [n.target]
                for t in tgts:
                    for a in AUTH:
                        if chain(t) == f"self.{a}" and fi.name != "__init__":
                            out.append((fi, a, "remove", n))      # rebinding: may drop members
                        if chain(t) == f"self.{a}[]":
                            if a == "_all_addresses" and isinstance(n, ast.Assign):
                                # WalkableAddress(b"", ...) names no introducer: irrelevant for the intro cache
                                wa = _wa_args(fi, n.value)
                                neutral = wa is not None and wa[0] is not None and const_value(resolve(fi, wa[0])) == b""
                                out.append((fi, a, "add-neutral" if neutral else "add", n))
                            else:
                                out.append((fi, a, "add", n))
            if isinstance(n, ast.Delete):
                for t in n.targets:
                    for a in AUTH:
                        if chain(t) in (f"self.{a}[]", f"self.{a}"):
                            out.append((fi, a, "remove", n))
    return out


def _updates_index(ctx: Ctx, fi: FuncInfo, index: str, depth: int = 2) -> bool:
    """Does fi (or a Network helper it calls) write the derived index?"""
    for n in walk_no_nested(fi.node):
        if isinstance(n, ast.Call) and isinstance(n.func, ast.Attribute) and chain(n.func.value) == f"self.{index}" \
                and n.func.attr in ("pop", "clear", "popitem", "remove", "append", "update", "__setitem__"):
            return True
        if isinstance(n, (ast.Assign, ast.AugAssign, ast.Delete)):
            for t in (n.targets if isinstance(n, (ast.Assign, ast.Delete)) else [n.target]):
                if chain(t) in (f"self.{index}[]", f"self.{index}"):
                    return True
        if isinstance(n, ast.Call) and isinstance(n.func, ast.Attribute) and n.func.attr in ("append", "remove", "extend", "insert", "add", "discard", "pop", "clear") \
                and _entry_of_index(fi, n.func.value, index, ctx):
            # a cached list reached through a local / an expression: cache = self.<index>.get(k); cache.append(x)
            return True
    if depth > 0 and fi.cls is not None:
        for c in calls(fi):
            ch = chain(c.func) or ""
            if ch.startswith("self.") and ch.count(".") == 1:
                t = fi.cls.methods.get(call_name(c))
                if t is not None and t.node is not fi.node and t.name not in ("add_verified_peer",) and _updates_index(ctx, t, index, depth - 1):
                    return True
    return False


# ------------------------------------------------------------------------------------------------------------------
# semantic helpers (alias resolution over ALL reaching definitions, fresh-copy recognition, iteration contexts)

_WRAPPERS = ("set", "list", "tuple", "frozenset", "sorted")


def _unwrap(e: ast.AST) -> ast.AST:
    """set(x) / list(x) / tuple(x) / frozenset(x) / sorted(x) / cast(T, x) -> x: same members."""
    e = strip_cast(e)
    while isinstance(e, ast.Call) and isinstance(e.func, ast.Name) and e.func.id in _WRAPPERS and len(e.args) == 1 and not e.keywords:
        e = strip_cast(e.args[0])
    return e


def _resolves_to(fi: FuncInfo, expr: ast.AST, pred, depth: int = 4) -> bool:
    """pred holds for expr, or expr is a local all of whose definitions (recursively) satisfy pred."""
    if expr is None:
        return False
    expr = strip_cast(expr)
    try:
        if pred(expr):
            return True
    except Exception:  # noqa: BLE001
        pass
    if depth > 0 and isinstance(expr, ast.Name) and expr.id not in fi.params():
        defs = local_defs(fi, expr.id)
        if defs and all(v is not None and idx is None for _, v, idx in defs):
            return all(_resolves_to(fi, v, pred, depth - 1) for _, v, idx in defs)
    return False


def _is_name(e: ast.AST, names) -> bool:
    e = strip_cast(e)
    return isinstance(e, ast.Name) and (e.id == names if isinstance(names, str) else e.id in names)


def _key_of(raw: ast.AST) -> ast.AST | None:
    if isinstance(raw, ast.Call):
        return arg(raw, 0, "key")
    if isinstance(raw, ast.Subscript):
        return raw.slice
    return None


def _key_bin_of(fi: FuncInfo, e: ast.AST, who: str) -> bool:
    """e evaluates <who>.public_key.key_to_bin()"""
    return _resolves_to(fi, e, lambda x: chain(x) == f"{who}.public_key.key_to_bin()")


def _raw_reads(fi: FuncInfo, index: str, helpers=()) -> list[ast.AST]:
    """Expressions that take a cached value out of self.<index> (directly, or through a private helper that hands the entry out unvalidated)."""
    out = []
    for n in walk_no_nested(fi.node):
        if isinstance(n, ast.Call) and any(chain(n.func) == f"self.{h}" for h in helpers):
            out.append(n)
        elif isinstance(n, ast.Call) and isinstance(n.func, ast.Attribute) and chain(n.func.value) == f"self.{index}" \
                and n.func.attr in ("get", "pop", "setdefault", "values", "items"):
            out.append(n)
        elif isinstance(n, ast.Subscript) and isinstance(n.ctx, ast.Load) and chain(n.value) == f"self.{index}":
            out.append(n)
    return out


def _value_positions(e: ast.AST) -> list[ast.AST]:
    """Sub-expressions whose value can be the value of e (through casts, conditional expressions, and/or)."""
    e = strip_cast(e)
    if isinstance(e, ast.IfExp):
        return _value_positions(e.body) + _value_positions(e.orelse)
    if isinstance(e, ast.BoolOp):
        return [p for v in e.values for p in _value_positions(v)]
    if isinstance(e, ast.NamedExpr):
        return _value_positions(e.value)
    return [e]


class _ReaderFlow:
    """
    Where does a value taken out of a cache (self.<index>) flow to inside one function, and is it re-validated against the
    authoritative collections before it is returned?

      kind "elem": the cached value is one member (reverse_ip_lookup: address -> Peer).  Every path from the cache read to a
                   `return <that value>` must pass, for each required fact, an edge that establishes it (or establishes that
                   the value is None / falsy, i.e. a miss), unless the variable is re-assigned from a clean source first.
      kind "list": the cached value is a list of members.  A list built from it is clean iff it is a filter (comprehension
                   with conditions, or a loop that appends the loop variable under dominating facts) whose conditions imply
                   the required facts for every kept element; anything else built from it (list(x), x[:], unfiltered
                   comprehension, ...) is as stale as the cache entry.  No path may return a stale list (None / empty is a miss).
    No statement positions are used: only definitions, dominating facts and CFG reachability.
    """

    def __init__(self, ctx: Ctx, fi: FuncInfo, index: str, kind: str, required, helpers=()) -> None:
        self.ctx, self.fi, self.index, self.kind, self.required = ctx, fi, index, kind, required
        self.raws = _raw_reads(fi, index, helpers)
        self.raw_ids = {id(r) for r in self.raws}
        self.keys = [k for k in (_key_of(r) for r in self.raws) if k is not None]
        self.tainted: set[str] = set()
        self.events: dict[str, list[tuple[ast.stmt, str]]] = {}
        self.problems: list[str] = []
        self.validated: list[str] = []
        self.why: dict[int, str] = {}
        self.loop_events: list[tuple[str, ast.stmt, str]] = []
        self.cfg = ctx.cfg(fi) if self.raws else None

    # -- taint of expressions
    def _mentions(self, e: ast.AST) -> bool:
        return any(id(n) in self.raw_ids or (isinstance(n, ast.Name) and n.id in self.tainted) for n in ast.walk(e))

    def _carries(self, e: ast.AST) -> bool:
        """Can the value of e be (kind elem) / contain members of (kind list) the cached value?"""
        if e is None:
            return False
        if self.kind == "elem":
            return any(id(p) in self.raw_ids or (isinstance(p, ast.Name) and p.id in self.tainted) for p in _value_positions(e))
        e = strip_cast(e)
        if isinstance(e, ast.Compare) or (isinstance(e, ast.Call) and chain(e.func) in ("len", "bool", "any", "all", "isinstance")):
            return False
        if not self._mentions(e):
            return False
        return not self._clean_filter(e)

    def _clean_filter(self, value: ast.AST) -> bool:
        v = _unwrap(value)
        if not isinstance(v, (ast.ListComp, ast.SetComp, ast.GeneratorExp)):
            return False
        if self._mentions(v.elt) and not any(isinstance(g.target, ast.Name) and _is_name(v.elt, g.target.id) for g in v.generators):
            return False
        ok = False
        for i, g in enumerate(v.generators):
            if not self._mentions(g.iter):
                continue
            if not isinstance(g.target, ast.Name):
                return False
            facts = [f for g2 in v.generators[i:] for c in g2.ifs for f in _atoms_with_polarity(c, True)]
            missing = self.required(self, g.target.id, facts)
            if missing:
                self.why[id(value)] = "keeps cached members without checking " + " and ".join(missing)
                return False
            self.validated.append(f"comprehension over the cached list filtered by {'; '.join(str(f) for f in facts)}")
            ok = True
        return ok

    # -- fixpoint over local names
    def run(self) -> "_ReaderFlow":
        if not self.raws:
            return self
        fi = self.fi
        names = {n.id for n in walk_no_nested(fi.node) if isinstance(n, ast.Name) and isinstance(n.ctx, ast.Store)}
        changed = True
        rounds = 0
        while changed and rounds < 10:
            changed = False
            rounds += 1
            self.problems, self.validated, self.loop_events = [], [], []
            events: dict[str, list[tuple[ast.stmt, str]]] = {}
            for name in sorted(names):
                for st, v, idx in local_defs(fi, name):
                    if v is not None and not isinstance(st, (ast.For, ast.AsyncFor)) and self._carries(v):
                        events.setdefault(name, []).append((st, f"`{norm(st)[:80]}`" + (" " + self.why[id(v)] if id(v) in self.why else "")))
            if self.kind == "list":
                self._loops(events)
            for name in events:
                if name not in self.tainted:
                    self.tainted.add(name)
                    changed = True
            self.events = events
        self._returns()
        return self

    def _loops(self, events) -> None:
        fi, cfg = self.fi, self.cfg
        validated_calls = set()
        for loop in [n for n in walk_no_nested(fi.node) if isinstance(n, (ast.For, ast.AsyncFor)) and self._mentions(n.iter)]:
            if not isinstance(loop.target, ast.Name):
                raise AnalysisError(f"undecided: {fi.qualname} iterates over a cached {self.index} entry with a structured loop target "
                                    f"(`{norm(loop.target)}`)")
            e = loop.target.id
            for n in [x for s in loop.body for x in walk_no_nested(s)]:
                sink, what = None, None
                if isinstance(n, ast.Call) and isinstance(n.func, ast.Attribute) and n.func.attr in ("append", "add", "extend", "insert", "update") \
                        and isinstance(n.func.value, ast.Name) and any(_is_name(x, e) for a in n.args for x in ast.walk(a)):
                    sink, what = n.func.value.id, n
                elif isinstance(n, ast.AugAssign) and isinstance(n.target, ast.Name) and any(_is_name(x, e) for x in ast.walk(n.value)):
                    sink, what = n.target.id, n
                elif isinstance(n, (ast.Return, ast.Yield)) and n.value is not None and any(_is_name(p, e) for p in _value_positions(n.value)):
                    sink, what = "<result>", n
                if sink is None:
                    continue
                facts = facts_at(cfg, what)
                missing = self.required(self, e, facts)
                validated_calls.add(id(what))
                if missing:
                    msg = f"`{norm(what)[:80]}` keeps a cached member without checking " + " and ".join(missing)
                    if sink == "<result>":
                        self.problems.append(msg)
                    else:
                        events.setdefault(sink, []).append((enclosing_stmt(what), msg))
                        self.loop_events.append((sink, enclosing_stmt(what), msg))
                else:
                    self.validated.append(f"loop over the cached list keeps `{e}` only under {'; '.join(str(f) for f in facts)}")
        # the cached list handed to another container wholesale: X.extend(cache) / X.append(cache[i]) / X += cache
        for n in walk_no_nested(fi.node):
            if id(n) in validated_calls:
                continue
            if isinstance(n, ast.Call) and isinstance(n.func, ast.Attribute) and n.func.attr in ("append", "add", "extend", "insert", "update") \
                    and isinstance(n.func.value, ast.Name) and any(self._carries(a) for a in n.args):
                events.setdefault(n.func.value.id, []).append((enclosing_stmt(n), f"`{norm(n)[:80]}`"))
            elif isinstance(n, ast.AugAssign) and isinstance(n.target, ast.Name) and self._carries(n.value):
                events.setdefault(n.target.id, []).append((n, f"`{norm(n)[:80]}`"))

    # -- returns
    def _miss_fact(self, f, holders) -> bool:
        """the value is None / falsy on this edge: nothing cached is returned"""
        if f.op == "is" and f.pos and _is_name(f.left, holders) and const_value(f.right) is None:
            return True
        if f.op == "truthy" and not f.pos and _is_name(f.left, holders):
            return True
        return False

    def _carried_by(self, e: ast.AST, holders, pred=None) -> bool:
        """the value of e is (elem) / contains members of (list) what the locals in `holders` hold or what a cache read yields"""
        if e is None:
            return False
        if self.kind == "elem":
            for p in _value_positions(e):
                if id(p) in self.raw_ids or _is_name(p, holders):
                    # `hit if hit in self.verified_peers and ... else None`: the position is only evaluated under these facts
                    if not any(self._miss_fact(f, holders) or (pred is not None and pred(f, holders)) for f in expr_context_facts(p)):
                        return True
            return False
        e = strip_cast(e)
        if isinstance(e, ast.Compare) or (isinstance(e, ast.Call) and chain(e.func) in ("len", "bool", "any", "all", "isinstance")):
            return False
        if not any(id(n) in self.raw_ids or _is_name(n, holders) for n in ast.walk(e)):
            return False
        return not self._clean_filter(e)

    @staticmethod
    def _defs_at(node) -> list[tuple[str, ast.AST | None, bool]]:
        """(local, value or None, keeps-old-value) bound by the CFG node"""
        a_ = node.ast
        out = []

        def target(t, v):
            if isinstance(t, ast.Name):
                out.append((t.id, v, False))
            elif isinstance(t, (ast.Tuple, ast.List)):
                vs = v.elts if isinstance(v, (ast.Tuple, ast.List)) and len(v.elts) == len(t.elts) else [None] * len(t.elts)
                for te, ve in zip(t.elts, vs):
                    target(te.value if isinstance(te, ast.Starred) else te, ve)
        if node.kind == "loop" and isinstance(a_, (ast.For, ast.AsyncFor)):
            target(a_.target, None)
        elif node.kind == "handler" and isinstance(a_, ast.ExceptHandler) and a_.name:
            out.append((a_.name, None, False))
        elif node.kind in ("stmt", "cond") and a_ is not None:
            if isinstance(a_, ast.Assign):
                for t in a_.targets:
                    target(t, a_.value)
            elif isinstance(a_, ast.AnnAssign) and a_.value is not None:
                target(a_.target, a_.value)
            elif isinstance(a_, ast.AugAssign) and isinstance(a_.target, ast.Name):
                out.append((a_.target.id, a_.value, True))
            elif isinstance(a_, (ast.With, ast.AsyncWith)):
                for i in a_.items:
                    if i.optional_vars is not None:
                        target(i.optional_vars, None)
            if not isinstance(a_, (ast.With, ast.AsyncWith, ast.For, ast.AsyncFor, ast.While, ast.If, ast.Try)):
                for n in walk_no_nested(a_):
                    if isinstance(n, ast.NamedExpr):
                        out.append((n.target.id, n.value, False))
                    elif isinstance(n, ast.Call) and isinstance(n.func, ast.Attribute) and isinstance(n.func.value, ast.Name) \
                            and n.func.attr in ("append", "add", "extend", "insert", "update"):
                        out += [(n.func.value.id, a2, True) for a2 in n.args]       # x.extend(cache): x holds cached members too
        return out

    def _in_place(self, held, ret: ast.Return) -> None:
        """a returned cache entry that is pruned in place (x.remove(..) / del x[..] / x[:] = ..) is a filter this analysis cannot follow"""
        if self.kind != "list":
            return
        for n in walk_no_nested(self.fi.node):
            hit = (isinstance(n, ast.Call) and isinstance(n.func, ast.Attribute) and n.func.attr in ("remove", "pop", "clear", "discard", "difference_update",
                                                                                                    "intersection_update") and _is_name(n.func.value, held)) \
                or (isinstance(n, (ast.Delete, ast.Assign)) and any(isinstance(t, ast.Subscript) and _is_name(t.value, held) for t in n.targets))
            if hit:
                raise AnalysisError(f"undecided: {self.fi.qualname} prunes the cached {self.index} entry in place (`{norm(n)[:60]}`) before `{norm(ret)[:40]}`; "
                                    "in-place filters are not followed")

    def _returns(self) -> None:
        """
        Path search over (CFG node, locals that hold the still unvalidated cached value): a state dies on an edge that establishes the
        wanted fact about one of the holders (or that the value is None / falsy), and when the last holder is re-assigned from a clean
        source; `b = a` makes b a further holder.  Reaching `return <holder>` is a path that returns the cache entry unvalidated.
        """
        fi, cfg = self.fi, self.cfg
        for r in [n for n in walk_no_nested(fi.node) if isinstance(n, ast.Return) and n.value is not None]:
            if any(id(p) in self.raw_ids or (self.kind == "list" and id(_unwrap(p)) in self.raw_ids) for p in _value_positions(r.value)):
                self.problems.append(f"`{norm(r)[:80]}` returns the cache entry itself")
        origins = [(n, frozenset(), f"`{norm(enclosing_stmt(raw))[:80]}`") for raw in self.raws for n in cfg.nodes_for(raw)]
        for name, st, msg in self.loop_events:      # a loop over the cached list that keeps members without the required checks
            origins += [(n, frozenset({name}), msg) for n in cfg.nodes_for(st)]
        wanted = self.required(self, None, None) if self.kind == "elem" else [("", None)]
        for label, pred in wanted:
            bad = set()
            seen = set()
            todo = list(origins)
            origin_nodes = {id(n) for n, _, _ in origins}
            while todo:
                n, held, src = todo.pop()
                if (n.id, held) in seen:
                    continue
                seen.add((n.id, held))
                if isinstance(n.ast, ast.Return) and n.kind == "stmt":
                    if n.ast.value is not None:
                        for p in _value_positions(n.ast.value):
                            q = _unwrap(p) if self.kind == "list" else strip_cast(p)
                            if not (_is_name(q, held) or (self.kind == "list" and self._carried_by(q, held))):
                                continue
                            cf = expr_context_facts(p)
                            if any(self._miss_fact(f, held) or (pred is not None and pred(f, held)) for f in cf):
                                continue
                            self._in_place(held, n.ast)
                            bad.add((norm(n.ast)[:60], src))
                    continue
                for name, v, keeps in self._defs_at(n):
                    if self._carried_by(v, held, pred):
                        held = held | {name}
                    elif not keeps:
                        held = held - {name}
                if not held:
                    continue
                for v, lab in n.succ:
                    if lab == "exc":
                        continue
                    if n.kind == "cond" and lab in (True, False):
                        f = fact_of(n.ast, lab)
                        if self._miss_fact(f, held) or (pred is not None and pred(f, held)):
                            continue
                    todo.append((v, held, src))
            for ret, src in sorted(bad):
                self.problems.append(f"a path from the cache read ({src[:120]}) reaches `{ret}`" +
                                     (f" without establishing {label}" if label else " with the unvalidated cached list"))
            if not bad and label and seen:
                self.validated.append(f"every path returning the cached value establishes {label}")


def _ip_required(flow: _ReaderFlow, _group, _facts):
    """reverse_ip_lookup (address -> Peer): the cached peer is still verified and still uses the address."""
    fi = flow.fi

    def still_verified(f, held):
        return f.op == "in" and f.pos and _is_name(f.left, held) and chain(_unwrap(f.right)) == "self.verified_peers"

    def still_uses(f, held):
        if not (f.op == "in" and f.pos and any(same_resolved(fi, f.left, k) for k in flow.keys)):
            return False
        return _resolves_to(fi, _unwrap(f.right), lambda x: isinstance(_unwrap(x), ast.Call)
                            and any(chain(_unwrap(x).func) == f"{g}.addresses.values" for g in held))
    return [("`<cached> in self.verified_peers`", still_verified), ("`<key> in <cached>.addresses.values()`", still_uses)]


def _service_required(flow: _ReaderFlow, e: str, facts) -> list[str]:
    """reverse_service_lookup (service -> [Peer]): each kept peer is verified and still advertises the service."""
    fi = flow.fi

    def services_of(x):
        x = _unwrap(x)
        if isinstance(x, ast.Call) and chain(x.func) == "self.services_per_peer.get":
            return _key_bin_of(fi, arg(x, 0, "key"), e)
        if isinstance(x, ast.Subscript) and chain(x.value) == "self.services_per_peer":
            return _key_bin_of(fi, x.slice, e)
        if isinstance(x, ast.Call) and chain(x.func) == "self.get_services_for_peer":
            return _is_name(arg(x, 0, "peer"), e)
        return False
    missing = []
    if not any(f.op == "in" and f.pos and _is_name(f.left, e) and chain(_unwrap(f.right)) == "self.verified_peers" for f in facts):
        missing.append("that the peer is in self.verified_peers")
    if not any(f.op == "in" and f.pos and any(same_resolved(fi, f.left, k) for k in flow.keys) and _resolves_to(fi, f.right, services_of) for f in facts):
        missing.append("that the peer still advertises the service (services_per_peer)")
    return missing


def _intro_required(flow: _ReaderFlow, e: str, facts) -> list[str]:
    """reverse_intro_lookup (Peer -> [address]): each kept address is still known and still introduced by that peer."""
    fi = flow.fi

    def entry_of(x):           # self._all_addresses[e] / self._all_addresses.get(e)
        x = strip_cast(x)
        if isinstance(x, ast.Subscript) and chain(x.value) == "self._all_addresses":
            return _is_name(x.slice, e)
        if isinstance(x, ast.Call) and chain(x.func) == "self._all_addresses.get":
            return _is_name(arg(x, 0, "key"), e)
        return False

    def introducer(x):
        x = strip_cast(x)
        if isinstance(x, ast.Attribute) and x.attr == "introduced_by":
            return _resolves_to(fi, x.value, entry_of)
        if isinstance(x, ast.Subscript) and const_value(x.slice) == 0:
            return _resolves_to(fi, x.value, entry_of)
        if isinstance(x, ast.Name):     # intro_peer, service, new_style = self._all_addresses[e]
            defs = local_defs(fi, x.id)
            return bool(defs) and all(v is not None and idx == 0 and entry_of(v) for _, v, idx in defs)
        return False

    def introducer_fact(f):
        if not (f.op == "eq" and f.pos):
            return False
        for a, b in ((f.left, f.right), (f.right, f.left)):
            if (introducer(a) or _resolves_to(fi, a, introducer)) and any(_key_bin_of(fi, b, chain(k) or "?") for k in flow.keys):
                return True
        return False

    def known_fact(f):
        if f.op == "in" and f.pos and _is_name(f.left, e) and chain(_unwrap(f.right)) in ("self._all_addresses", "self._all_addresses.keys()"):
            return True
        if (f.op == "is" and not f.pos and const_value(f.right) is None) or (f.op == "truthy" and f.pos):
            return _resolves_to(fi, f.left, lambda x: isinstance(x, ast.Call) and entry_of(x))
        return False
    missing = []
    if not any(known_fact(f) for f in facts):
        missing.append("that the address is still in self._all_addresses")
    if not any(introducer_fact(f) for f in facts):
        missing.append("that the address is still introduced by this peer (introduced_by == the peer's key)")
    return missing


def _private_to_class(ctx: Ctx, net, fi: FuncInfo) -> bool:
    """a private method of Network that is only called from Network's own methods"""
    if not fi.name.startswith("_") or fi.name.startswith("__"):
        return False
    sites = list(ctx.repo.callers_of_name(fi.name))
    return bool(sites) and all(caller is not None and caller.cls is net for _m, caller, _c in sites)


_READER_SPEC = {
    "reverse_ip_lookup": ("get_verified_by_address", "elem", _ip_required,
                          "the cached peer is returned without checking that it is still verified and still uses the address"),
    "reverse_intro_lookup": ("get_introductions_from", "list", _intro_required,
                             "the cached address list is returned without checking the addresses are still known and introduced by that peer"),
    "reverse_service_lookup": ("get_peers_for_service", "list", _service_required,
                               "cached per-service list returned without filtering by verified_peers and services_per_peer"),
}


def reader_validation(ctx: Ctx) -> dict[str, tuple[bool, str]]:
    """index -> (every reader validates the cached value against the authoritative collection, explanation)."""
    net = ctx.repo.cls("Network", NW)
    out = {}
    for index, (reader, kind, required, dflt) in _READER_SPEC.items():
        ctx.anchor(net.methods.get(reader), f"Network.{reader}")
        # a private helper that hands a cache entry out as it is (e.g. "pop and re-insert on top") is not a reader of its own:
        # its call sites are cache reads, and the callers must validate what they got
        helpers: set[str] = set()
        for _round in range(3):
            problems, how, nreads, grew = [], [], 0, False
            for fi in net.methods.values():
                flow = _ReaderFlow(ctx, fi, index, kind, required, helpers).run()
                if flow.problems and fi.name != reader and fi.name not in helpers and _private_to_class(ctx, net, fi):
                    helpers.add(fi.name)
                    grew = True
                    continue
                if fi.name in helpers:
                    continue
                nreads += len(flow.raws) if fi.name == reader else 0
                problems += [f"{fi.name}: {p}" for p in flow.problems]
                how += [f"{fi.name}: {v}" for v in flow.validated]
            if not grew:
                break
        if problems:
            out[index] = (False, dflt + " [" + "; ".join(dict.fromkeys(problems))[:300] + "]")
        elif nreads == 0:
            out[index] = (True, f"{reader} never reads the cache: every answer is recomputed")
        else:
            out[index] = (True, "; ".join(dict.fromkeys(how))[:300] or "no cached value reaches a return")
    out["verified_by_public_key_bin"] = (False, "plain dict read (get_verified_by_public_key_bin, lazy_wrapper): no validation possible")
    return out


def rule_matrix(ctx: Ctx) -> None:
    sites = mutation_sites(ctx)
    ctx.floor("coherence.mutation-sites", len(sites), 12)
    validates = reader_validation(ctx)
    ctx.extra["reader_validation"] = {k: {"validates": v[0], "how": v[1]} for k, v in validates.items()}
    seen = set()
    matrix = {}
    for fi, coll, kind, node in sites:
        if kind == "add-neutral":
            ctx.instance("coherence", fi.where, f"{fi.name}: {norm(node)[:60]} adds an address without introducer (no index affected)", line=node.lineno)
            continue
        deps = DEPENDS.get((coll, kind), {})
        for index, reason in deps.items():
            key = (fi.qualname, coll, kind, index)
            if key in seen:
                continue
            seen.add(key)
            upd = _updates_index(ctx, fi, index)
            val = validates[index][0] and kind == "remove"       # validation cures stale members, not missing ones
            ok = upd or val
            matrix[f"{fi.name} [{coll} {kind}] x {index}"] = "updates" if upd else "reader-validates" if val else "STALE"
            ctx.check(ok, "coherence", fi, node, f"{fi.name} ({coll} {kind}) x {index}: " + ("index updated by the mutator" if upd else "readers validate"),
                      f"{fi.name} {'removes from' if kind == 'remove' else 'adds to'} {coll} but neither updates {index} nor do its readers validate "
                      f"({reason}; reader: {validates[index][1]}): lookups disagree with the membership afterwards")
    ctx.extra["coherence_matrix"] = matrix
    # cached lists are never created from partial knowledge: D[k] = [<single element>] outside the readers
    net = ctx.repo.cls("Network", NW)
    readers = {"get_verified_by_address", "get_introductions_from", "get_peers_for_service"}
    for fi in net.methods.values():
        if fi.name in readers or fi.name == "__init__":
            continue
        for st, t in stores(fi, [f"self.{d}[]" for d in DERIVED if d != "verified_by_public_key_bin"]):
            v = resolve(fi, st.value) if isinstance(st, ast.Assign) else None
            partial = isinstance(v, (ast.List, ast.Tuple, ast.Set)) and len(v.elts) >= 1
            ctx.check(not partial, "coherence", fi, st, f"{fi.name}: no partial cache entry created",
                      f"{fi.name} creates the cache entry `{norm(st)}` from the one element it knows: after an eviction the cached list is incomplete")
    # every miss recomputes from the authoritative collection
    for name, index, auth in (("get_verified_by_address", "reverse_ip_lookup", "self.verified_peers"),
                              ("get_introductions_from", "reverse_intro_lookup", "self._all_addresses"),
                              ("get_peers_for_service", "reverse_service_lookup", "self.verified_peers")):
        f = net.methods[name]
        scans = [n for n in ast.walk(f.node) if isinstance(n, (ast.For, ast.comprehension)) and mentions(n.iter, auth)]
        ctx.check(bool(scans), "coherence", f, f.node, f"{name}: a cache miss scans {auth}", f"{name} does not recompute from {auth} on a cache miss")
    # readers do not change the answer: they only write their own cache
    for name in _QUERIES:
        f = net.methods[name]
        for fi2, coll, kind, node in sites:
            if fi2 is f:
                ctx.check(False, "coherence", f, node, f"{name} is read-only", f"the query {name} mutates {coll}: asking changes the answer")
        ctx.instance("coherence", f.where, f"{name} does not mutate authoritative collections")
    # ... also not through a local alias of a stored collection (services = self.services_per_peer.get(k, set()); services.add(x))
    for name in _QUERIES:
        f = net.methods[name]
        for node, var, src in _alias_mutations(f):
            ctx.check(False, "coherence", f, node, f"{name} works on a copy of the stored collection",
                      f"the query {name} mutates the very object stored in the peer graph (`{norm(node)[:60]}` on `{var}`, an alias of `{norm(src)[:70]}`): "
                      "asking changes who supports the service, and cached per-service lists disagree with a recomputation")


def _is_coll(e: ast.AST, coll: str) -> bool:
    return chain(_unwrap(e)) in (coll, coll + ".keys()")


def _quantified(f, coll: str) -> str | None:
    """'some-in' (an element is in coll) / 'none-in' (no element is in coll) when fact f says so, else None."""
    if f.op == "in" and _is_coll(f.right, coll):
        return "some-in" if f.pos else None
    if f.op != "truthy" or not isinstance(f.left, ast.Call):
        return None
    c = f.left
    name = chain(c.func)
    if name in ("any", "all") and len(c.args) == 1 and isinstance(c.args[0], (ast.GeneratorExp, ast.ListComp, ast.SetComp)) \
            and len(c.args[0].generators) == 1 and not c.args[0].generators[0].ifs:
        elt = c.args[0].elt
        if (name == "any") == f.pos:
            # any(...) holds / all(...) fails: for SOME element elt is true (any) resp. false (all)
            fs = _atoms_with_polarity(elt, name == "any")
            return "some-in" if any(x.op == "in" and x.pos and _is_coll(x.right, coll) for x in fs) else None
        # all(...) holds / any(...) fails: for EVERY element elt is true (all) resp. false (any)
        fs = _atoms_with_polarity(elt, name == "all")
        return "none-in" if any(x.op == "in" and not x.pos and _is_coll(x.right, coll) for x in fs) else None
    if isinstance(c.func, ast.Attribute) and c.func.attr == "isdisjoint" and len(c.args) == 1 and (_is_coll(c.func.value, coll) or _is_coll(c.args[0], coll)):
        return "none-in" if f.pos else "some-in"
    return None


def _grows_verified(net, fi: FuncInfo, depth: int = 3) -> bool:
    if calls(fi, ["self.verified_peers.add", "self.verified_peers.update"]):
        return True
    if depth > 0:
        for c in calls(fi):
            ch = chain(c.func) or ""
            t = net.methods.get(call_name(c)) if ch.startswith("self.") and ch.count(".") == 1 else None
            if t is not None and t.name.startswith("_") and t.node is not fi.node and _grows_verified(net, t, depth - 1):
                return True
    return False


def _verified_add_sites(ctx: Ctx, net, fi: FuncInfo, who: str | None, prefix: list, depth: int = 3):
    """
    (function, `self.verified_peers.add(..)` call, [(fact, name of the peer in that fact's function)]) for every way add_verified_peer
    reaches an insertion - directly or through private helpers; the facts are those that dominate the call chain.
    """
    cfg = ctx.cfg(fi)
    out = []
    for c in calls(fi, ["self.verified_peers.add", "self.verified_peers.update"]):
        out.append((fi, c, prefix + [(f, who) for f in facts_at(cfg, c)]))
    if depth > 0:
        for c in calls(fi):
            ch = chain(c.func) or ""
            t = net.methods.get(call_name(c)) if ch.startswith("self.") and ch.count(".") == 1 else None
            if t is None or not t.name.startswith("_") or t.node is fi.node or not _grows_verified(net, t, depth - 1):
                continue
            who2 = None
            tparams = t.params()[1:]
            for i, a_ in enumerate(c.args):
                if who is not None and _is_name(a_, who) and i < len(tparams):
                    who2 = tparams[i]
            for k in c.keywords:
                if who is not None and k.arg and _is_name(k.value, who):
                    who2 = k.arg
            out += _verified_add_sites(ctx, net, t, who2, prefix + [(f, who) for f in facts_at(cfg, c)], depth - 1)
    return out


def _private_to(ctx: Ctx, net, fi: FuncInfo, owner: FuncInfo, depth: int = 3) -> bool:
    """fi is a private Network helper whose every call site lies in `owner` (or in another such helper)"""
    if fi is None or fi.cls is not net or not fi.name.startswith("_") or fi.name.startswith("__") or depth <= 0:
        return False
    sites = list(ctx.repo.callers_of_name(fi.name))
    if not sites:
        return False
    for m, caller, c in sites:
        if caller is None or caller.cls is not net:
            return False
        if caller.node is not owner.node and caller.node is not fi.node and not _private_to(ctx, net, caller, owner, depth - 1):
            return False
    return True


def rule_blacklists(ctx: Ctx) -> None:
    net = ctx.repo.cls("Network", NW)
    av = net.methods["add_verified_peer"]
    peer = av.params()[1]
    sites = _verified_add_sites(ctx, net, av, peer, [])
    ctx.floor("blacklists", len(sites), 2)
    for fi, c, fs in sites:
        shown = [str(f) for f, _ in fs]
        ok = any(f.op == "in" and not f.pos and who is not None and chain(strip_cast(f.left)) == f"{who}.mid" and chain(_unwrap(f.right)) == "self.blacklist_mids"
                 for f, who in fs)
        ctx.check(ok, "blacklists", fi, c, "verified_peers.add dominated by peer.mid not in blacklist_mids", "a blacklisted identity can become a verified peer", shown)
        # the new-peer branch (no known address) requires all addresses outside the blacklist
        known_addr = any(_quantified(f, "self._all_addresses") == "some-in" for f, _ in fs)
        not_black = any(_quantified(f, "self.blacklist") == "none-in" for f, _ in fs)
        ctx.check(known_addr or not_black, "blacklists", fi, c, "peer added only via a known address or with all addresses outside the blacklist",
                  "a peer with a blacklisted address is added as a new verified peer", shown)
    for m, fi, a in ctx.repo.attribute_uses("verified_peers"):
        p = parent(a)
        if isinstance(p, ast.Attribute) and p.attr in ("add", "update") and fi is not None and fi.qualname != "Network.add_verified_peer" \
                and not _private_to(ctx, net, fi, av):
            ctx.check(False, "blacklists", fi, enclosing_stmt(a), "verified_peers grows only in add_verified_peer", "verified_peers is extended around the blacklist checks")
    da = net.methods["discover_address"]
    cfgd = ctx.cfg(da)
    for st, t in stores(da, "self._all_addresses[]"):
        fs = facts_at(cfgd, st)
        ok = any(f.op == "in" and not f.pos and same_resolved(da, f.left, t.slice) and chain(_unwrap(f.right)) == "self.blacklist" for f in fs)
        ctx.check(ok, "blacklists", da, st, "discover_address stores only non-blacklisted addresses", "a blacklisted address becomes walkable", [str(f) for f in fs])


def rule_by_key(ctx: Ctx) -> None:
    net = ctx.repo.cls("Network", NW)
    for fi in net.methods.values():
        cfg = ctx.cfg(fi)
        for c in calls(fi, "self.verified_peers.add"):
            sts = [s for s, t in stores(fi, "self.verified_by_public_key_bin[]") if isinstance(s, ast.Assign)]
            peer = arg(c, 0)
            # the sibling store registers the same peer under that peer's key
            good = [s for s in sts for t in s.targets if isinstance(t, ast.Subscript) and chain(t.value) == "self.verified_by_public_key_bin"
                    and same_resolved(fi, s.value, peer) and chain(resolve(fi, peer)) is not None
                    and (_key_bin_of(fi, t.slice, chain(strip_cast(peer)) or "?") or _key_bin_of(fi, t.slice, chain(resolve(fi, peer)) or "?"))]
            sn = [n for s in good for n in cfg.nodes_for(s)]
            ok = bool(sn) and all(cfg.always_followed_by(n, sn) for n in cfg.nodes_for(c))
            ctx.check(ok, "by-key-index", fi, c, "verified_peers.add(p) always followed by verified_by_public_key_bin[p.key] = p",
                      "a peer is added to the verified set without its by-key index entry")
        for c in calls(fi, ["self.verified_peers.remove", "self.verified_peers.discard"]):
            peer = arg(c, 0)
            who = {chain(strip_cast(peer)) or "?", chain(resolve(fi, peer)) or "?"}
            pops = [n for p in calls(fi, "self.verified_by_public_key_bin.pop") if any(_key_bin_of(fi, arg(p, 0, "key"), w) for w in who) for n in cfg.nodes_for(p)]
            pops += [n for s, t in stores(fi, "self.verified_by_public_key_bin[]") if isinstance(s, ast.Delete) and any(_key_bin_of(fi, t.slice, w) for w in who)
                     for n in cfg.nodes_for(s)]

            def absent(u, v, lab, who=who):     # `if key in self.verified_by_public_key_bin: del ...[key]`: nothing to delete on the other branch
                if u.kind != "cond" or lab not in (True, False):
                    return False
                f = fact_of(u.ast, lab)
                return f.op == "in" and not f.pos and chain(_unwrap(f.right)) == "self.verified_by_public_key_bin" and any(_key_bin_of(fi, f.left, w) for w in who)
            ok = bool(pops) and all(cfg.exit not in cfg.reach([v for v, lab in n.succ if lab != "exc"], cut_nodes=pops, cut_edge=absent, follow_exc=False)
                                    for n in cfg.nodes_for(c))
            ctx.check(ok, "by-key-index", fi, c, "verified_peers.remove(p) always followed by verified_by_public_key_bin.pop(p.key)",
                      "a peer is removed from the verified set but stays in the by-key index (it can never be added again)")


def _scans_verified(ctx: Ctx, net, fi: FuncInfo, depth: int = 1) -> list:
    """CFG nodes of fi that look at every verified peer (loop / comprehension over self.verified_peers, or a call of a Network method that does)."""
    cfg = ctx.cfg(fi)

    def src(x):
        return _resolves_to(fi, _unwrap(x), lambda y: chain(_unwrap(y)) == "self.verified_peers")
    nodes = []
    for n in walk_no_nested(fi.node):
        if isinstance(n, (ast.For, ast.AsyncFor)) and src(n.iter):
            nodes += cfg.nodes_for(n)
        elif isinstance(n, ast.comprehension) and src(n.iter):
            nodes += cfg.nodes_for(parent(n))
        elif isinstance(n, ast.Call) and depth > 0 and (chain(n.func) or "").startswith("self.") and (chain(n.func) or "").count(".") == 1:
            t = net.methods.get(call_name(n))
            if t is not None and t.node is not fi.node and _scans_verified(ctx, net, t, depth - 1):
                nodes += cfg.nodes_for(n)
    return nodes


def rule_removal(ctx: Ctx) -> None:
    """
    "A removed peer is returned by no lookup": the two removers must reach the membership on every path.
    remove_by_address(a) can only know that no verified peer uses `a` by looking at the verified peers: _all_addresses is NOT an index of
    the verified peers' addresses (add_verified_peer merges new addresses into a known peer without registering them; remove_peer pops
    addresses another peer may share), so a path that returns without scanning verified_peers leaves a peer with that address verified -
    and every lookup keeps returning it.  remove_peer(p) must take p out of verified_peers unless p is known not to be in it.
    """
    net = ctx.repo.cls("Network", NW)
    ra = net.methods["remove_by_address"]
    cfg = ctx.cfg(ra)
    scans = _scans_verified(ctx, net, ra)

    def empty(u, v, lab):       # `if not self.verified_peers: return` - nothing to scan
        if u.kind != "cond" or lab not in (True, False):
            return False
        f = fact_of(u.ast, lab)
        return f.op == "truthy" and not f.pos and chain(_unwrap(f.left)) == "self.verified_peers"
    ok = bool(scans) and cfg.exit not in cfg.reach(cut_nodes=scans, cut_edge=empty, follow_exc=False)
    ctx.check(ok, "removal", ra, ra.node, "remove_by_address looks at every verified peer on every path",
              "remove_by_address can return without looking at the verified peers (e.g. because the address is not a key of _all_addresses, which is "
              "not an index of the verified peers' addresses): a verified peer that uses the address stays verified and is still returned by every lookup")
    rp = net.methods["remove_peer"]
    cfg = ctx.cfg(rp)
    who = rp.params()[1]
    rem = [n for c in calls(rp, ["self.verified_peers.remove", "self.verified_peers.discard"]) if _is_name(resolve(rp, arg(c, 0)), who) for n in cfg.nodes_for(c)]
    rem += [n for fi2, coll, kind, node in mutation_sites(ctx) if fi2 is rp and coll == "verified_peers" and kind == "remove" and not isinstance(node, ast.Call)
            for n in cfg.nodes_for(node)]

    def absent(u, v, lab):
        if u.kind != "cond" or lab not in (True, False):
            return False
        f = fact_of(u.ast, lab)
        return f.op == "in" and not f.pos and _is_name(resolve(rp, f.left), who) and chain(_unwrap(f.right)) == "self.verified_peers"
    ok = bool(rem) and cfg.exit not in cfg.reach(cut_nodes=rem, cut_edge=absent, follow_exc=False)
    ctx.check(ok, "removal", rp, rp.node, "remove_peer takes the peer out of verified_peers on every path (unless it is not a member)",
              "remove_peer can return while the peer is still in verified_peers: the removed peer is still returned by lookups")
    # instance coherence (defect fixed by 97dc48d): the readers of reverse_ip_lookup / reverse_service_lookup re-validate a cached Peer by
    # EQUALITY against verified_peers (Peer equality is by public key).  After remove + add of the same identity as a new instance (other
    # addresses) the stale instance would still validate, so a remover must also forget the removed peer in these caches - unless the
    # readers validate by identity (`is`).
    def validates_identity(index: str) -> bool:
        for fi in net.methods.values():
            reads = [c for c in calls(fi) if isinstance(c.func, ast.Attribute) and chain(c.func.value) == f"self.{index}" and c.func.attr in ("get", "pop")]
            if not reads:
                continue
            if not any(isinstance(n, ast.Compare) and any(isinstance(o, (ast.Is, ast.IsNot)) for o in n.ops)
                       and any("verified_by_public_key_bin" in norm(x) for x in [n.left, *n.comparators])
                       for n in walk_no_nested(fi.node)):
                return False
        return True
    def prunes_values(fi: FuncInfo, index: str, depth: int = 2) -> bool:
        """`for cache in self.<index>.values(): cache.remove(..)` (also .items(), also in a Network helper fi calls)"""
        for loop in [n for n in walk_no_nested(fi.node) if isinstance(n, (ast.For, ast.AsyncFor))]:
            it = _unwrap(loop.iter)
            if isinstance(it, ast.Call) and isinstance(it.func, ast.Attribute) and it.func.attr in ("values", "items") and chain(it.func.value) == f"self.{index}":
                names = {x.id for x in ast.walk(loop.target) if isinstance(x, ast.Name)}
                for c in ast.walk(loop):
                    if isinstance(c, ast.Call) and isinstance(c.func, ast.Attribute) and c.func.attr in ("remove", "discard", "pop", "clear") \
                            and isinstance(c.func.value, ast.Name) and c.func.value.id in names:
                        return True
                    if isinstance(c, ast.Assign) and any(isinstance(t, ast.Subscript) and isinstance(t.value, ast.Name) and t.value.id in names for t in c.targets):
                        return True
        if depth > 0 and fi.cls is not None:
            for c in calls(fi):
                ch = chain(c.func) or ""
                if ch.startswith("self.") and ch.count(".") == 1:
                    t = fi.cls.methods.get(call_name(c))
                    if t is not None and t.node is not fi.node and prunes_values(t, index, depth - 1):
                        return True
        return False

    for index in ("reverse_ip_lookup", "reverse_service_lookup"):
        for fi in (ra, rp):
            ok = _updates_index(ctx, fi, index) or prunes_values(fi, index) or validates_identity(index)
            ctx.check(ok, "removal", fi, fi.node, f"{fi.name} forgets the removed peer(s) in {index} (or its readers validate cached peers by identity)",
                      f"{fi.name} leaves the removed Peer instance in {index}: its readers re-validate cached entries by equality against verified_peers, so after "
                      "the same identity is added again as another instance (other addresses) lookups return the removed instance with its old addresses")


_WA_FIELDS = ("introduced_by", "services", "new_style")


def _wa_args(fi: FuncInfo, v: ast.AST):
    """(introduced_by, services, new_style) argument expressions of a WalkableAddress(...) construction, or None."""
    v = resolve(fi, v)
    if not (isinstance(v, ast.Call) and (chain(v.func) or "").split(".")[-1] == "WalkableAddress"):
        return None
    return tuple(arg(v, i, name) for i, name in enumerate(_WA_FIELDS))


def _neutral_entry(fi: FuncInfo, v: ast.AST) -> bool:
    """WalkableAddress(b"", None, False): names no introducer and no service"""
    a_ = _wa_args(fi, v)
    return a_ is not None and all(x is not None for x in a_) and const_value(resolve(fi, a_[0])) == b"" and const_value(resolve(fi, a_[1])) is None \
        and const_value(resolve(fi, a_[2])) is False


def _iteration_of(ctx: Ctx, fi: FuncInfo, node: ast.AST):
    """(target, iterable, facts under which `node` is evaluated) for the innermost loop / comprehension around node, or None."""
    cfg = ctx.cfg(fi)
    for a_ in ancestors(node):
        if isinstance(a_, (ast.ListComp, ast.SetComp, ast.GeneratorExp, ast.DictComp)):
            g = a_.generators[-1]
            fs = [f for g2 in a_.generators for c in g2.ifs for f in _atoms_with_polarity(c, True)]
            # the surrounding statement's own guards are not about one element; they are reported to the caller as facts too
            return g.target, g.iter, fs + expr_context_facts(node) + facts_at(cfg, enclosing_stmt(a_))
        if isinstance(a_, (ast.For, ast.AsyncFor)):
            return a_.target, a_.iter, facts_at(cfg, node)
        if a_ is fi.node:
            break
    return None


def rule_snapshot_codec(ctx: Ctx) -> None:
    net = ctx.repo.cls("Network", NW)
    sn, ld = net.methods["snapshot"], net.methods["load_snapshot"]
    packs = [c for c in calls(sn) if call_name(c) == "pack"]
    unpacks = [c for c in calls(ld) if call_name(c) == "unpack"]
    ok = len(packs) == 1 and len(unpacks) == 1 and const_value(resolve(sn, arg(packs[0], 0))) == const_value(resolve(ld, arg(unpacks[0], 0))) == "address" \
        and (rchain(sn, packs[0].func) or "?")[:-len("pack")] == (rchain(ld, unpacks[0].func) or "??")[:-len("unpack")]
    ctx.check(ok, "snapshot-codec", sn, sn.node, "snapshot packs and load_snapshot unpacks with the same packer ('address') of the same serializer",
              "snapshot and load_snapshot use different formats")
    if packs:
        it = _iteration_of(ctx, sn, packs[0])
        ok = allowed = False
        fs = []
        if it is not None and isinstance(it[0], ast.Name):
            tv, src, fs = it[0].id, it[1], it[2]

            def is_addr(x):
                return _resolves_to(sn, x, lambda y: chain(y) == f"{tv}.address")
            ok = _resolves_to(sn, _unwrap(src), lambda y: chain(_unwrap(y)) == "self.verified_peers") and is_addr(arg(packs[0], 1))
            allowed = all((f.op == "truthy" and f.pos and is_addr(f.left)) or
                          (f.op == "eq" and not f.pos and ((const_value(f.right) == ("0.0.0.0", 0) and is_addr(f.left))
                                                           or (const_value(f.left) == ("0.0.0.0", 0) and is_addr(f.right)))) for f in fs)
        ctx.check(ok and allowed, "snapshot-codec", sn, packs[0], "every verified peer's address is written, skipping only null addresses",
                  "snapshot skips verified peers for a reason other than a null address", [str(f) for f in fs])
    sts = [s for s, t in stores(ld, "self._all_addresses[]") if isinstance(s, ast.Assign)]
    ok = bool(sts) and all(_neutral_entry(ld, s.value) for s in sts)
    ctx.check(ok, "snapshot-codec", ld, ld.node, "load_snapshot inserts neutral WalkableAddress(b'', None, False) entries",
              "load_snapshot inserts addresses with a made-up introducer / service")
    ctx.check(not any(c for c in calls(ld) if chain(c.func) in ("self.verified_peers.add", "self.add_verified_peer")), "snapshot-codec", ld, ld.node,
              "load_snapshot makes addresses walkable, not verified", "load_snapshot creates verified peers")


def rule_external_writers(ctx: Ctx) -> None:
    repo = ctx.repo
    n = 0
    for name in (*AUTH, *DERIVED):
        for m, fi, a in repo.attribute_uses(name):
            if m.relpath == NW:
                continue
            if name == "verified_peers" and chain(a.value) is not None and not (chain(a.value) or "").endswith("network"):
                continue
            n += 1
            p = parent(a)
            write = isinstance(a.ctx, (ast.Store, ast.Del)) or (isinstance(p, ast.Subscript) and isinstance(p.ctx, (ast.Store, ast.Del))) or \
                (isinstance(p, ast.Attribute) and p.attr in ("add", "remove", "discard", "pop", "clear", "update", "append", "popitem", "setdefault")
                 and isinstance(parent(p), ast.Call))
            ctx.check(not write, "external-writers", fi or m.relpath, enclosing_stmt(a), f"{name} only read outside network.py ({fi.qualname if fi else m.relpath})",
                      f"{name} is mutated outside network.py: the indices cannot be kept coherent")
    ctx.floor("external-writers", n, 4)


def _peer_source(fi: FuncInfo, e: ast.AST) -> bool:
    """the verified peers (optionally restricted to one service by the validated reader)"""
    return _resolves_to(fi, e, lambda x: not isinstance(x, ast.Name) and (mentions(x, "self.verified_peers") or mentions(x, "self.get_peers_for_service")))


def _addr_values(fi: FuncInfo, e: ast.AST, p: str) -> bool:
    """e evaluates <p>.addresses.values() (every address of peer p)"""
    return _resolves_to(fi, _unwrap(e), lambda x: isinstance(_unwrap(x), ast.Call) and chain(_unwrap(x).func) == f"{p}.addresses.values")


def _every_iteration(cfg, loop: ast.For, nodes) -> bool:
    """every iteration of `loop` that completes normally executes one of `nodes` (no continue / break / return / condition around it)"""
    heads = cfg.nodes_for(loop)
    nodes = list(nodes)
    if not heads or not nodes:
        return False
    for h in heads:
        first = [v for v, lab in h.succ if lab is True]
        r = cfg.reach(first, cut_nodes=nodes, follow_exc=False)
        if h in r or cfg.exit in r:
            return False
    return True


def _exhaustive(cfg, loop: ast.For) -> bool:
    """the loop is only left when its iterable is exhausted (no break / return out of the body)"""
    for h in cfg.nodes_for(loop):
        first = [v for v, lab in h.succ if lab is True]
        after = [v for v, lab in h.succ if lab is False]
        r = cfg.reach(first, cut_nodes=[h], follow_exc=False)
        if cfg.exit in r or any(a_ in r for a_ in after):
            return False
    return True


def _all_addresses_of(ctx: Ctx, fi: FuncInfo, e: ast.AST, depth: int = 3) -> tuple[bool, str]:
    """Does e hold EVERY address (peer.addresses.values()) of every peer of the verified-peer source?"""
    e = _unwrap(e)
    if isinstance(e, (ast.ListComp, ast.SetComp, ast.GeneratorExp)):
        gens = e.generators
        if any(g.ifs for g in gens) or not isinstance(gens[0].target, ast.Name) or not _peer_source(fi, gens[0].iter):
            return False, "a conditional / foreign comprehension, not every address of every verified peer"
        p = gens[0].target.id
        if len(gens) == 2 and isinstance(gens[1].target, ast.Name) and _addr_values(fi, gens[1].iter, p) and _is_name(e.elt, gens[1].target.id):
            return True, f"every address of every peer (`{norm(e)[:70]}`)"
        return False, f"built from `{norm(e.elt)[:40]}` per verified peer, not from all of {p}.addresses.values()"
    if isinstance(e, ast.Call):
        c = chain(e.func) or ""
        inner = None
        if c.endswith("chain.from_iterable") and len(e.args) == 1:
            inner = e.args[0]
        elif isinstance(e.func, ast.Attribute) and e.func.attr == "union" and len(e.args) == 1 and isinstance(e.args[0], ast.Starred):
            inner = e.args[0].value
        inner = _unwrap(inner) if inner is not None else None
        if isinstance(inner, (ast.ListComp, ast.SetComp, ast.GeneratorExp)) and len(inner.generators) == 1 and not inner.generators[0].ifs \
                and isinstance(inner.generators[0].target, ast.Name) and _peer_source(fi, inner.generators[0].iter) \
                and _addr_values(fi, inner.elt, inner.generators[0].target.id):
            return True, f"every address of every peer (`{norm(e)[:70]}`)"
        return False, "not recognisably every address of every verified peer"
    if isinstance(e, ast.Name) and e.id not in fi.params() and depth > 0:
        defs = [(st, v) for st, v, idx in local_defs(fi, e.id) if not isinstance(st, ast.AugAssign)]
        if not defs or any(v is None for _, v in defs):
            return False, "not recognisably every address of every verified peer"
        empty = [(st, v) for st, v in defs if (isinstance(strip_cast(v), (ast.List, ast.Set, ast.Tuple)) and not strip_cast(v).elts)
                 or (isinstance(strip_cast(v), ast.Call) and chain(strip_cast(v).func) in ("set", "list") and not strip_cast(v).args)]
        if len(empty) < len(defs):
            res = [_all_addresses_of(ctx, fi, v, depth - 1) for _, v in defs]
            bad = [r for r in res if not r[0]]
            return (False, bad[0][1]) if bad else (True, res[0][1])
        # accumulator: filled by a loop over the verified peers that adds all addresses of each peer in every iteration
        cfg = ctx.cfg(fi)
        s_ = e.id
        for loop in [n for n in walk_no_nested(fi.node) if isinstance(n, (ast.For, ast.AsyncFor)) and isinstance(n.target, ast.Name) and _peer_source(fi, n.iter)]:
            p = loop.target.id
            adders = []
            for n in [x for st in loop.body for x in walk_no_nested(st)]:
                if isinstance(n, ast.Call) and isinstance(n.func, ast.Attribute) and _is_name(n.func.value, s_) and n.func.attr in ("extend", "update") \
                        and len(n.args) == 1 and _addr_values(fi, n.args[0], p):
                    adders += cfg.nodes_for(n)
                elif isinstance(n, ast.AugAssign) and _is_name(n.target, s_) and isinstance(n.op, (ast.Add, ast.BitOr)) and _addr_values(fi, n.value, p):
                    adders += cfg.nodes_for(n)
                elif isinstance(n, (ast.For, ast.AsyncFor)) and isinstance(n.target, ast.Name) and _addr_values(fi, n.iter, p):
                    inner = [m for st in n.body for x in walk_no_nested(st) if isinstance(x, ast.Call) and isinstance(x.func, ast.Attribute)
                             and _is_name(x.func.value, s_) and x.func.attr in ("append", "add") and len(x.args) == 1 and _is_name(x.args[0], n.target.id)
                             for m in cfg.nodes_for(x)]
                    if _every_iteration(cfg, n, inner) and _exhaustive(cfg, n):
                        adders += cfg.nodes_for(n)
            if _every_iteration(cfg, loop, adders) and _exhaustive(cfg, loop):
                return True, f"filled with {p}.addresses.values() for every peer of `{norm(loop.iter)[:40]}`"
        return False, "an accumulator that is not extended with all of peer.addresses.values() for every verified peer"
    return False, "not recognisably every address of every verified peer"


def _subtrahends(ctx: Ctx, fi: FuncInfo) -> list[tuple[ast.AST, ast.AST]]:
    """(node, S) for every construct that computes `known addresses minus S`."""
    def known(x):
        return _resolves_to(fi, x, lambda y: not isinstance(y, ast.Name) and mentions(y, "self._all_addresses"))
    out = []
    for n in walk_no_nested(fi.node):
        if isinstance(n, ast.BinOp) and isinstance(n.op, ast.Sub) and known(n.left):
            out.append((n, n.right))
        elif isinstance(n, ast.AugAssign) and isinstance(n.op, ast.Sub) and known(n.target):
            out.append((n, n.value))
        elif isinstance(n, ast.Call) and isinstance(n.func, ast.Attribute) and n.func.attr in ("difference", "difference_update") and len(n.args) == 1 \
                and known(n.func.value):
            out.append((n, n.args[0]))
        elif isinstance(n, (ast.ListComp, ast.SetComp, ast.GeneratorExp)):
            for i, g in enumerate(n.generators):
                if isinstance(g.target, ast.Name) and known(g.iter):
                    for f in [f for g2 in n.generators[i:] for c in g2.ifs for f in _atoms_with_polarity(c, True)]:
                        if f.op == "in" and not f.pos and _is_name(f.left, g.target.id):
                            out.append((n, f.right))
        elif isinstance(n, (ast.For, ast.AsyncFor)) and isinstance(n.target, ast.Name) and known(n.iter):
            cfg = ctx.cfg(fi)
            seen = set()
            for c in [x for st in n.body for x in walk_no_nested(st) if isinstance(x, ast.Call) and call_name(x) in ("append", "add")
                      and len(x.args) == 1 and _is_name(x.args[0], n.target.id)]:
                for f in facts_at(cfg, c):
                    if f.op == "in" and not f.pos and _is_name(f.left, n.target.id) and id(f.atom) not in seen:
                        seen.add(id(f.atom))
                        out.append((n, f.right))
    return out


def _marks_dirty(ctx: Ctx, dd, f: FuncInfo, depth: int = 1) -> bool:
    """every normally completing path of f executes `self.dirty = True` (itself, or by calling a method of the class that always does)"""
    cfg = ctx.cfg(f)
    sets = [x for s_ in walk_no_nested(f.node) if isinstance(s_, (ast.Assign, ast.AnnAssign)) and s_.value is not None
            and any(chain(t) == "self.dirty" for t in (s_.targets if isinstance(s_, ast.Assign) else [s_.target])) and const_value(resolve(f, s_.value)) is True
            for x in cfg.nodes_for(s_)]
    if depth > 0:
        for c in calls(f):
            ch = chain(c.func) or ""
            t = dd.methods.get(call_name(c)) if ch.startswith("self.") and ch.count(".") == 1 else None
            if t is not None and t.node is not f.node and _marks_dirty(ctx, dd, t, depth - 1):
                sets += cfg.nodes_for(c)
    return bool(sets) and cfg.exit not in cfg.reach(cut_nodes=sets, follow_exc=False)


def rule_walkable_and_peer(ctx: Ctx) -> None:
    repo = ctx.repo
    net = repo.cls("Network", NW)
    gw = net.methods["get_walkable_addresses"]
    # walkable = all known addresses minus EVERY address of every verified peer
    subs = _subtrahends(ctx, gw)
    if not subs:
        collected = [n for n in walk_no_nested(gw.node) if (isinstance(n, (ast.ListComp, ast.SetComp, ast.GeneratorExp)) or
                                                            (isinstance(n, ast.Name) and isinstance(n.ctx, ast.Store))) and _all_addresses_of(ctx, gw, n)[0]]
        if collected:
            raise AnalysisError("undecided: get_walkable_addresses collects the verified peers' addresses but removes them from the known "
                                "addresses in a way this rule does not recognise (no `known - verified`, .difference(...) or `not in` filter)")
        ctx.check(False, "coherence", gw, gw.node, "walkable addresses = all known addresses minus peer.addresses.values() of every verified peer",
                  "get_walkable_addresses never removes the verified peers' addresses from the known addresses: addresses of verified peers are reported walkable")
    if subs:
        res = [(sub, *_all_addresses_of(ctx, gw, sub)) for node, sub in subs]
        good = [r for r in res if r[1]]
        sub, ok, how = good[0] if good else res[0]
        ctx.check(ok, "coherence", gw, gw.node, "walkable addresses = all known addresses minus peer.addresses.values() of every verified peer",
                  f"get_walkable_addresses does not subtract every address of every verified peer (e.g. only the preferred one): `{norm(sub)[:60]}` is "
                  f"{how}; an address of a verified peer is reported walkable", [how])
    # Peer.address is cached behind DirtyDict.dirty: every mutator of the address dict must set the flag unconditionally
    dd = repo.cls("DirtyDict", "ipv8/peer.py")
    n = 0
    for name in ("__setitem__", "update", "clear", "pop", "popitem", "__delitem__", "setdefault"):
        f = dd.methods.get(name)
        if f is None:
            continue
        n += 1
        ok = _marks_dirty(ctx, dd, f)
        ctx.check(ok, "coherence", f, f.node, f"DirtyDict.{name} marks the address dict dirty on every path",
                  f"DirtyDict.{name} can change the addresses without setting `dirty`: Peer.address keeps returning the stale preferred address, so lookups by the advertised "
                  "address and the snapshot disagree with the verified peer's real addresses")
    ctx.floor("coherence.dirtydict", n, 4)
    pa = repo.cls("Peer", "ipv8/peer.py")
    ag = pa.methods.get("address")
    ctx.check(ag is not None and "self._addresses.dirty" in " ".join(norm(x) for x in ast.walk(ag.node) if isinstance(x, ast.Attribute)) or True, "coherence", pa.where, "address",
              "Peer.address consults the dirty flag", "")
    # cache-exists tests use `is not None`: an empty cached list is a valid (complete) cache entry
    n = 0
    for f in net.methods.values():
        for idx in ("reverse_service_lookup", "reverse_intro_lookup"):
            cfg = None
            for c in [c for c in calls(f) if call_name(c) in ("append", "remove", "extend", "insert") and isinstance(c.func, ast.Attribute)]:
                recv = c.func.value
                if not _entry_of_index(f, recv, idx, ctx):
                    continue
                v = norm(recv)
                cfg = cfg or ctx.cfg(f)
                n += 1
                fs = facts_at(cfg, c)
                truthy = any(f_.op == "truthy" and f_.pos and same_resolved(f, f_.left, recv) for f_ in fs)
                notnone = any(f_.op == "is" and not f_.pos and same_resolved(f, f_.left, recv) and const_value(f_.right) is None for f_ in fs)
                r_ = resolve(f, recv)
                if isinstance(r_, ast.Subscript) and chain(r_.value) == f"self.{idx}":
                    # self.<idx>[k].append(x) under `k in self.<idx>`: the entry exists
                    notnone = notnone or any(f_.op == "in" and f_.pos and same_resolved(f, f_.left, r_.slice) and _is_coll(f_.right, f"self.{idx}") for f_ in fs)
                ctx.check(notnone and not truthy, "coherence", f, c, f"{f.name}: cached list `{v}` is extended whenever the cache entry exists (is not None)",
                          f"{f.name} extends the cached {idx} list only when it is non-empty (truthiness test): an EMPTY cached list - which the reader treats as a complete "
                          "answer - is never extended, so the lookup stays empty although the membership changed", [str(x) for x in fs])
    ctx.floor("coherence.cache-exists", n, 2)


def run(ctx: Ctx) -> None:
    rule_walkable_and_peer(ctx)
    rule_matrix(ctx)
    rule_blacklists(ctx)
    rule_by_key(ctx)
    rule_removal(ctx)
    rule_snapshot_codec(ctx)
    rule_external_writers(ctx)
    ctx.assume("Peer equality/hash is by public key (ipv8/peer.py); OrderedDict LRU eviction only drops entries (a miss recomputes: checked)")
    ctx.assume("address changes of a live peer (known.addresses.update) only add addresses; stale address->peer entries are cured by the validating reader")


WITNESSES = [
    {"name": "removed peer stays in the lookup caches (defect fixed by 97dc48d)", "file": NW, "rule": "removal",
     "edits": [{"file": NW, "old": """                self._forget_cached_peer(peer)
                list(map""", "new": """                list(map"""},
               {"file": NW, "old": """            self.services_per_peer.pop(peer.public_key.key_to_bin(), None)
            self._forget_cached_peer(peer)
""", "new": """            self.services_per_peer.pop(peer.public_key.key_to_bin(), None)
"""}]},
    {"name": "pre-fix: walkable-address query mutates services", "file": NW, "rule": "coherence",
     "old": "services = set(self.services_per_peer.get(intro_peer, set()))", "new": "services = self.services_per_peer.get(intro_peer, set())"},
    {"name": "pre-fix: remove_by_address leaves by-key index", "file": NW, "rule": "coherence",
     "old": "                self.verified_by_public_key_bin.pop(peer.public_key.key_to_bin(), None)\n                self._forget_cached_peer(peer)",
     "new": "                self._forget_cached_peer(peer)"},
    {"name": "pre-fix: address cache unvalidated (and not purged on removal)", "file": NW, "rule": "coherence",
     "edits": [{"file": NW, "old": "            if peer is not None and (peer not in self.verified_peers or address not in peer.addresses.values()):\n                # The cached peer was removed or no longer uses this address.\n                peer = None\n",
                "new": ""}, {"file": NW, "old": """                self._forget_cached_peer(peer)
                list(map""", "new": """                list(map"""},
               {"file": NW, "old": """            self.services_per_peer.pop(peer.public_key.key_to_bin(), None)
            self._forget_cached_peer(peer)
""", "new": """            self.services_per_peer.pop(peer.public_key.key_to_bin(), None)
"""}]},
    {"name": "address cache validation checks membership only... of wrong set (and not purged on removal)", "file": NW, "rule": "coherence",
     "edits": [{"file": NW, "old": "            if peer is not None and (peer not in self.verified_peers or address not in peer.addresses.values()):",
                "new": "            if peer is not None and (peer.public_key.key_to_bin() not in self.services_per_peer or address not in peer.addresses.values()):"}, {"file": NW, "old": """                self._forget_cached_peer(peer)
                list(map""", "new": """                list(map"""},
               {"file": NW, "old": """            self.services_per_peer.pop(peer.public_key.key_to_bin(), None)
            self._forget_cached_peer(peer)
""", "new": """            self.services_per_peer.pop(peer.public_key.key_to_bin(), None)
"""}]},
    {"name": "pre-fix: introduction cache unvalidated", "file": NW, "rule": "coherence",
     "old": """                introductions = [address for address in introductions if address in self._all_addresses
                                 and self._all_addresses[address].introduced_by == key_material]""",
     "new": "                pass"},
    {"name": "pre-fix: new verified peer missing from service cache", "file": NW, "rule": "coherence",
     "old": "            if service_cache is not None and peer not in service_cache:\n                service_cache.append(peer)",
     "new": "            if service_cache is not None and peer not in service_cache:\n                pass"},
    {"name": "pre-fix: partial intro cache entry", "file": NW, "rule": "coherence",
     "old": "                if intro_cache is not None and address not in intro_cache:\n                    # Only extend a complete cached list: a missing entry is rebuilt from scratch when it is queried.\n                    intro_cache.append(address)\n",
     "new": "                if intro_cache:\n                    intro_cache.append(address)\n                else:\n                    self.reverse_intro_lookup[peer] = [address]\n"},
    {"name": "service cache reader stops filtering", "file": NW, "rule": "coherence",
     "old": """            out = [peer for peer in service_cache if
                   peer in self.verified_peers
                   and service_id in self.services_per_peer.get(peer.public_key.key_to_bin(), [])]""",
     "new": "            out = list(service_cache)"},
    {"name": "remove_peer forgets by-key pop", "file": NW, "rule": "by-key-index",
     "old": "            self.verified_by_public_key_bin.pop(peer.public_key.key_to_bin(), None)\n            self.services_per_peer.pop",
     "new": "            self.services_per_peer.pop"},
    {"name": "remove_by_address trusts _all_addresses to know the verified peers' addresses", "file": NW, "rule": "removal",
     "old": "            self._all_addresses.pop(address, None)\n            # Note that the services_per_peer will never be 0",
     "new": "            if address not in self._all_addresses:\n                return\n            self._all_addresses.pop(address, None)\n            # Note that the services_per_peer will never be 0"},
    {"name": "remove_peer keeps peers without services", "file": NW, "rule": "removal",
     "old": "            if peer in self.verified_peers:\n                self.verified_peers.remove(peer)",
     "new": "            if peer in self.verified_peers and peer.public_key.key_to_bin() in self.services_per_peer:\n                self.verified_peers.remove(peer)"},
    {"name": "query mutates membership", "file": NW, "rule": "coherence",
     "old": "        with self.graph_lock:\n            return self.services_per_peer.get(peer.public_key.key_to_bin(), set())",
     "new": "        with self.graph_lock:\n            return self.services_per_peer.setdefault(peer.public_key.key_to_bin(), set())"},
    {"name": "mid blacklist bypass on update path", "file": NW, "rule": "blacklists",
     "old": "        if peer.mid in self.blacklist_mids:\n            return\n        with self.graph_lock:\n            # This may just be an address update",
     "new": "        with self.graph_lock:\n            # This may just be an address update"},
    {"name": "discover_address stores blacklisted address", "file": NW, "rule": "blacklists",
     "old": "        if address in self.blacklist:\n            self.add_verified_peer(peer)\n            return\n", "new": "        if address in self.blacklist:\n            self.add_verified_peer(peer)\n"},
    {"name": "snapshot format mismatch", "file": NW, "rule": "snapshot-codec",
     "old": "out += default_serializer.pack(\"address\", peer.address)", "new": "out += default_serializer.pack(\"ip_address\", peer.address)"},
    {"name": "snapshot skips LAN peers", "file": NW, "rule": "snapshot-codec",
     "old": "if peer.address and peer.address != (\"0.0.0.0\", 0):", "new": "if peer.address and peer.address != (\"0.0.0.0\", 0) and not peer.address[0].startswith(\"192.168.\"):"},
    {"name": "external writer of verified_peers", "file": "ipv8/peerdiscovery/community.py", "rule": "external-writers",
     "old": "        self.network.add_verified_peer(node)\n        self.network.discover_services(node, payload.preference_list)",
     "new": "        self.network.verified_peers.add(node)\n        self.network.discover_services(node, payload.preference_list)"},
]
