"""C12 - The peer graph's lookups always agree with its membership."""
from __future__ import annotations

import ast

from ..core import Ctx
from ..match import arg, call_name, calls, facts_at, local_defs, mentions, resolve, single_def, stores
from ..model import AnalysisError, FuncInfo, ancestors, chain, const_value, enclosing_stmt, norm, parent, strip_cast, walk_no_nested

LEVEL = "other"
EXPLANATION = (
    "Index coherence as a matrix: rows are all mutation sites of the authoritative collections (verified_peers, "
    "_all_addresses, services_per_peer) found by scanning network.py; columns are the derived indices "
    "(verified_by_public_key_bin, reverse_ip_lookup, reverse_intro_lookup, reverse_service_lookup). A cell is satisfied "
    "when the mutator updates the index on the same path (directly or through a helper it calls) or when every reader "
    "of the index re-validates its cached value against the authoritative collection; cached lists must never be "
    "created from partial knowledge; every cache miss recomputes from the authoritative collection. Plus blacklist "
    "guards, by-key pairing, snapshot codec symmetry and the closed set of external writers. LRU eviction order is not "
    "explored - a miss recomputes (checked)."
)

NW = "ipv8/peerdiscovery/network.py"
AUTH = ("verified_peers", "_all_addresses", "services_per_peer")
DERIVED = ("verified_by_public_key_bin", "reverse_ip_lookup", "reverse_intro_lookup", "reverse_service_lookup")

# which authoritative change can invalidate which derived index (frozen from reading network.py; one reason each)
DEPENDS = {
    ("verified_peers", "remove"): {
        "verified_by_public_key_bin": "the by-key dict mirrors the verified set",
        "reverse_ip_lookup": "address -> Peer cache may hold the removed peer",
        "reverse_service_lookup": "service -> [Peer] cache may hold the removed peer",
    },
    ("verified_peers", "add"): {
        "verified_by_public_key_bin": "the by-key dict mirrors the verified set",
        "reverse_service_lookup": "a cached per-service list must gain a peer that becomes verified",
    },
    ("_all_addresses", "remove"): {
        "reverse_intro_lookup": "Peer -> [introduced addresses] cache may hold the removed address",
    },
    ("_all_addresses", "add"): {
        "reverse_intro_lookup": "a cached introduction list must gain a newly introduced address (when it names an introducer)",
    },
    ("services_per_peer", "remove"): {
        "reverse_service_lookup": "service -> [Peer] cache may hold a peer that no longer advertises the service",
    },
    ("services_per_peer", "add"): {
        "reverse_service_lookup": "a cached per-service list must gain a peer that starts advertising the service",
    },
}


def mutation_sites(ctx: Ctx):
    """(function, collection, kind, node) for every mutation of an authoritative collection in network.py."""
    net = ctx.repo.cls("Network", NW)
    out = []
    for fi in [f for f in ctx.repo.module(NW).all_functions if f.cls is net]:
        for n in walk_no_nested(fi.node):
            if isinstance(n, ast.Call) and isinstance(n.func, ast.Attribute):
                base = chain(n.func.value)
                for a in AUTH:
                    if base == f"self.{a}":
                        m = n.func.attr
                        if m in ("add", "update", "setdefault", "__setitem__"):
                            out.append((fi, a, "add", n))
                        elif m in ("remove", "discard", "pop", "clear", "popitem", "difference_update", "intersection_update"):
                            out.append((fi, a, "remove", n))
            if isinstance(n, (ast.Assign, ast.AugAssign, ast.AnnAssign)):
                tgts = n.targets if isinstance(n, ast.Assign) else [n.target]
                for t in tgts:
                    for a in AUTH:
                        if chain(t) == f"self.{a}" and fi.name != "__init__":
                            out.append((fi, a, "remove", n))      # rebinding: may drop members
                        if chain(t) == f"self.{a}[]":
                            if a == "_all_addresses" and isinstance(n, ast.Assign):
                                v = strip_cast(n.value)
                                # WalkableAddress(b"", None, False) names no introducer: irrelevant for the intro cache
                                neutral = isinstance(v, ast.Call) and chain(v.func) == "WalkableAddress" and v.args and const_value(v.args[0]) == b""
                                out.append((fi, a, "add-neutral" if neutral else "add", n))
                            else:
                                out.append((fi, a, "add", n))
            if isinstance(n, ast.Delete):
                for t in n.targets:
                    for a in AUTH:
                        if chain(t) in (f"self.{a}[]", f"self.{a}"):
                            out.append((fi, a, "remove", n))
    return out


def _updates_index(ctx: Ctx, fi: FuncInfo, index: str, depth: int = 2) -> bool:
    """Does fi (or a Network helper it calls) write the derived index?"""
    for n in walk_no_nested(fi.node):
        if isinstance(n, ast.Call) and isinstance(n.func, ast.Attribute) and chain(n.func.value) == f"self.{index}" \
                and n.func.attr in ("pop", "clear", "popitem", "remove", "append", "update", "__setitem__"):
            return True
        if isinstance(n, (ast.Assign, ast.AugAssign)):
            for t in (n.targets if isinstance(n, ast.Assign) else [n.target]):
                if chain(t) in (f"self.{index}[]", f"self.{index}"):
                    return True
        if isinstance(n, ast.Call) and isinstance(n.func, ast.Attribute) and n.func.attr in ("append", "remove") and isinstance(n.func.value, ast.Name):
            d = single_def(fi, n.func.value.id)
            if d is not None and mentions(d[0], f"self.{index}"):
                return True
    if depth > 0 and fi.cls is not None:
        for c in calls(fi):
            ch = chain(c.func) or ""
            if ch.startswith("self.") and ch.count(".") == 1:
                t = fi.cls.methods.get(call_name(c))
                if t is not None and t.node is not fi.node and t.name not in ("add_verified_peer",) and _updates_index(ctx, t, index, depth - 1):
                    return True
    return False


def reader_validation(ctx: Ctx) -> dict[str, tuple[bool, str]]:
    """index -> (every reader validates the cached value against the authoritative collection, explanation)."""
    net = ctx.repo.cls("Network", NW)
    out = {}
    # reverse_ip_lookup: get_verified_by_address
    f = net.methods["get_verified_by_address"]
    cfg = ctx.cfg(f)
    ok = False
    why = "the cached peer is returned without checking that it is still verified and still uses the address"
    pops = [c for c in calls(f, ["self.reverse_ip_lookup.pop", "self.reverse_ip_lookup.get"])]
    if pops:
        st = enclosing_stmt(pops[0])
        var = st.targets[0].id if isinstance(st, ast.Assign) and isinstance(st.targets[0], ast.Name) else None
        # a statement that resets var to None under (var not in verified_peers or address not in var.addresses.values())
        for s in walk_no_nested(f.node):
            if isinstance(s, ast.Assign) and chain(s.targets[0]) == var and const_value(s.value) is None:
                test = next((a.test for a in ancestors(s) if isinstance(a, ast.If)), None)
                if test is not None and mentions(test, "self.verified_peers") and f"{var}.addresses" in norm(test) and f.params()[1] in norm(test):
                    txt = norm(test)
                    if f"{var} not in self.verified_peers" in txt and f"{f.params()[1]} not in {var}.addresses.values()" in txt and " or " in txt:
                        # the reset precedes every use of the cached value as result
                        ok = True
                        why = "cached peer dropped unless it is in verified_peers and still has the address"
    out["reverse_ip_lookup"] = (ok, why)
    # reverse_intro_lookup: get_introductions_from
    f = net.methods["get_introductions_from"]
    ok = False
    why = "the cached address list is returned without checking the addresses are still known and introduced by that peer"
    for comp in [n for n in ast.walk(f.node) if isinstance(n, ast.ListComp)]:
        it = comp.generators[0].iter
        if isinstance(it, ast.Name):
            d = [x for x in local_defs(f, it.id) if x[1] is not None and mentions(x[1], "self.reverse_intro_lookup")]
            conds = " and ".join(norm(c) for c in comp.generators[0].ifs)
            tv = norm(comp.generators[0].target)
            if d and f"{tv} in self._all_addresses" in conds and f"self._all_addresses[{tv}].introduced_by ==" in conds:
                ok = True
                why = "cached addresses filtered by membership in _all_addresses and by their introducer"
    # every return of a cached list goes through that filter: the function must not return the raw cache hit
    rets = [r for r in walk_no_nested(f.node) if isinstance(r, ast.Return)]
    for r in rets:
        if isinstance(r.value, ast.Name):
            defs = local_defs(f, r.value.id)
            raw = [d for d in defs if d[1] is not None and isinstance(strip_cast(d[1]), ast.Call) and chain(strip_cast(d[1]).func) == "self.reverse_intro_lookup.get"]
            if raw and ok:
                cfg = ctx.cfg(f)
                # the raw definition must be overwritten on every path to the return
                others = [n for d in defs if d not in raw for n in cfg.nodes_for(d[0])]
                rawn = [n for d in raw for n in cfg.nodes_for(d[0])]
                for rn in cfg.nodes_for(r):
                    reach = cfg.reach([v for x in rawn for v, lab in x.succ if lab != "exc"], cut_nodes=others, follow_exc=False)
                    if rn in reach:
                        ok = False
                        why = "a path returns the raw cached list without validation"
    out["reverse_intro_lookup"] = (ok, why)
    # reverse_service_lookup: get_peers_for_service
    f = net.methods["get_peers_for_service"]
    ok = False
    why = "cached per-service list returned without filtering by verified_peers and services_per_peer"
    for comp in [n for n in ast.walk(f.node) if isinstance(n, ast.ListComp)]:
        conds = " and ".join(norm(c) for c in comp.generators[0].ifs)
        it = comp.generators[0].iter
        d = single_def(f, it.id) if isinstance(it, ast.Name) else None
        if d is not None and mentions(d[0], "self.reverse_service_lookup") and "in self.verified_peers" in conds and "self.services_per_peer.get(" in conds:
            ok = True
            why = "cached peers filtered by verified_peers and services_per_peer"
    out["reverse_service_lookup"] = (ok, why)
    out["verified_by_public_key_bin"] = (False, "plain dict read (get_verified_by_public_key_bin, lazy_wrapper): no validation possible")
    return out


def rule_matrix(ctx: Ctx) -> None:
    sites = mutation_sites(ctx)
    ctx.floor("coherence.mutation-sites", len(sites), 12)
    validates = reader_validation(ctx)
    ctx.extra["reader_validation"] = {k: {"validates": v[0], "how": v[1]} for k, v in validates.items()}
    seen = set()
    matrix = {}
    for fi, coll, kind, node in sites:
        if kind == "add-neutral":
            ctx.instance("coherence", fi.where, f"{fi.name}: {norm(node)[:60]} adds an address without introducer (no index affected)", line=node.lineno)
            continue
        deps = DEPENDS.get((coll, kind), {})
        for index, reason in deps.items():
            key = (fi.qualname, coll, kind, index)
            if key in seen:
                continue
            seen.add(key)
            upd = _updates_index(ctx, fi, index)
            val = validates[index][0] and kind == "remove"       # validation cures stale members, not missing ones
            ok = upd or val
            matrix[f"{fi.name} [{coll} {kind}] x {index}"] = "updates" if upd else "reader-validates" if val else "STALE"
            ctx.check(ok, "coherence", fi, node, f"{fi.name} ({coll} {kind}) x {index}: " + ("index updated by the mutator" if upd else "readers validate"),
                      f"{fi.name} {'removes from' if kind == 'remove' else 'adds to'} {coll} but neither updates {index} nor do its readers validate "
                      f"({reason}; reader: {validates[index][1]}): lookups disagree with the membership afterwards")
    ctx.extra["coherence_matrix"] = matrix
    # cached lists are never created from partial knowledge: D[k] = [<single element>] outside the readers
    net = ctx.repo.cls("Network", NW)
    readers = {"get_verified_by_address", "get_introductions_from", "get_peers_for_service"}
    for fi in net.methods.values():
        if fi.name in readers or fi.name == "__init__":
            continue
        for st, t in stores(fi, [f"self.{d}[]" for d in DERIVED if d != "verified_by_public_key_bin"]):
            v = strip_cast(st.value) if isinstance(st, ast.Assign) else None
            partial = isinstance(v, (ast.List, ast.Tuple)) and len(v.elts) >= 1
            ctx.check(not partial, "coherence", fi, st, f"{fi.name}: no partial cache entry created",
                      f"{fi.name} creates the cache entry `{norm(st)}` from the one element it knows: after an eviction the cached list is incomplete")
    # every miss recomputes from the authoritative collection
    for name, index, auth in (("get_verified_by_address", "reverse_ip_lookup", "self.verified_peers"),
                              ("get_introductions_from", "reverse_intro_lookup", "self._all_addresses"),
                              ("get_peers_for_service", "reverse_service_lookup", "self.verified_peers")):
        f = net.methods[name]
        scans = [n for n in ast.walk(f.node) if isinstance(n, (ast.For, ast.comprehension)) and mentions(n.iter, auth)]
        ctx.check(bool(scans), "coherence", f, f.node, f"{name}: a cache miss scans {auth}", f"{name} does not recompute from {auth} on a cache miss")
    # readers do not change the answer: they only write their own cache
    for name, index in (("get_verified_by_address", "reverse_ip_lookup"), ("get_introductions_from", "reverse_intro_lookup"),
                        ("get_peers_for_service", "reverse_service_lookup"), ("get_verified_by_public_key_bin", None),
                        ("get_services_for_peer", None), ("get_walkable_addresses", None), ("snapshot", None), ("is_new_style", None)):
        f = net.methods[name]
        for fi2, coll, kind, node in sites:
            if fi2 is f:
                ctx.check(False, "coherence", f, node, f"{name} is read-only", f"the query {name} mutates {coll}: asking changes the answer")
        ctx.instance("coherence", f.where, f"{name} does not mutate authoritative collections")
    gw = net.methods["get_walkable_addresses"]
    for c in calls(gw):
        if call_name(c) == "add" and isinstance(c.func.value, ast.Name):
            d = single_def(gw, c.func.value.id)
            if d is not None and mentions(d[0], "self.services_per_peer") and not (isinstance(strip_cast(d[0]), ast.Call) and chain(strip_cast(d[0]).func) in ("set", "copy")):
                ctx.check(False, "coherence", gw, c, "get_walkable_addresses works on a copy of the service set",
                          "the query get_walkable_addresses adds the introduction service to the very set stored in services_per_peer "
                          f"(`{norm(c)}` on an alias of self.services_per_peer[...]): asking changes who supports the service, and cached "
                          "per-service lists disagree with a recomputation")


def rule_blacklists(ctx: Ctx) -> None:
    net = ctx.repo.cls("Network", NW)
    av = net.methods["add_verified_peer"]
    cfg = ctx.cfg(av)
    adds = [c for c in calls(av, "self.verified_peers.add")]
    ctx.floor("blacklists", len(adds), 2)
    for c in adds:
        fs = facts_at(cfg, c)
        ok = any(f.op == "in" and not f.pos and norm(f.left) == f"{av.params()[1]}.mid" and chain(f.right) == "self.blacklist_mids" for f in fs)
        ctx.check(ok, "blacklists", av, c, "verified_peers.add dominated by peer.mid not in blacklist_mids", "a blacklisted identity can become a verified peer",
                  [str(f) for f in fs])
    # the new-peer branch (no known address) requires all addresses outside the blacklist
    for c in adds:
        fs = facts_at(cfg, c)
        known_addr = any(f.op == "truthy" and f.pos and isinstance(f.left, ast.Call) and chain(f.left.func) == "any"
                         and "in self._all_addresses" in norm(f.left) and "not in" not in norm(f.left) for f in fs)
        not_black = any(f.op == "truthy" and f.pos and isinstance(f.left, ast.Call) and chain(f.left.func) == "all"
                        and "not in self.blacklist" in norm(f.left) for f in fs)
        ctx.check(known_addr or not_black, "blacklists", av, c, "peer added only via a known address or with all addresses outside the blacklist",
                  "a peer with a blacklisted address is added as a new verified peer")
    for m, fi, a in ctx.repo.attribute_uses("verified_peers"):
        p = parent(a)
        if isinstance(p, ast.Attribute) and p.attr in ("add", "update") and fi is not None and fi.qualname != "Network.add_verified_peer":
            ctx.check(False, "blacklists", fi, enclosing_stmt(a), "verified_peers grows only in add_verified_peer", "verified_peers is extended around the blacklist checks")
    da = net.methods["discover_address"]
    cfgd = ctx.cfg(da)
    for st, t in stores(da, "self._all_addresses[]"):
        fs = facts_at(cfgd, st)
        ok = any(f.op == "in" and not f.pos and norm(f.left) == da.params()[2] and chain(f.right) == "self.blacklist" for f in fs)
        ctx.check(ok, "blacklists", da, st, "discover_address stores only non-blacklisted addresses", "a blacklisted address becomes walkable", [str(f) for f in fs])


def rule_by_key(ctx: Ctx) -> None:
    net = ctx.repo.cls("Network", NW)
    for fi in net.methods.values():
        cfg = ctx.cfg(fi)
        for c in calls(fi, "self.verified_peers.add"):
            sts = [s for s, t in stores(fi, "self.verified_by_public_key_bin[]")]
            sn = [n for s in sts for n in cfg.nodes_for(s)]
            ok = bool(sn) and all(cfg.always_followed_by(n, sn) for n in cfg.nodes_for(c))
            peer = norm(arg(c, 0))
            ok = ok and any(norm(s.targets[0].slice) == f"{peer}.public_key.key_to_bin()" and norm(s.value) == peer for s in sts)
            ctx.check(ok, "by-key-index", fi, c, "verified_peers.add(p) always followed by verified_by_public_key_bin[p.key] = p",
                      "a peer is added to the verified set without its by-key index entry")
        for c in calls(fi, ["self.verified_peers.remove", "self.verified_peers.discard"]):
            pops = [n for p in calls(fi, "self.verified_by_public_key_bin.pop") for n in cfg.nodes_for(p)]
            ok = bool(pops) and all(cfg.always_followed_by(n, pops) for n in cfg.nodes_for(c))
            ctx.check(ok, "by-key-index", fi, c, "verified_peers.remove(p) always followed by verified_by_public_key_bin.pop(p.key)",
                      "a peer is removed from the verified set but stays in the by-key index (it can never be added again)")


def rule_snapshot_codec(ctx: Ctx) -> None:
    net = ctx.repo.cls("Network", NW)
    sn, ld = net.methods["snapshot"], net.methods["load_snapshot"]
    packs = [c for c in calls(sn) if call_name(c) == "pack"]
    unpacks = [c for c in calls(ld) if call_name(c) == "unpack"]
    ok = len(packs) == 1 and len(unpacks) == 1 and const_value(packs[0].args[0]) == const_value(unpacks[0].args[0]) == "address" \
        and chain(packs[0].func) == chain(unpacks[0].func).replace("unpack", "pack")
    ctx.check(ok, "snapshot-codec", sn, sn.node, "snapshot packs and load_snapshot unpacks with the same packer ('address') of the same serializer",
              "snapshot and load_snapshot use different formats")
    if packs:
        cfg = ctx.cfg(sn)
        fs = facts_at(cfg, packs[0])
        loop = next((a for a in ancestors(packs[0]) if isinstance(a, ast.For)), None)
        ok = loop is not None and chain(loop.iter) == "self.verified_peers" and norm(arg(packs[0], 1)) == f"{norm(loop.target)}.address"
        allowed = all((f.op == "truthy" and f.pos and norm(f.left).endswith(".address")) or
                      (f.op == "eq" and not f.pos and const_value(f.right) == ("0.0.0.0", 0)) for f in fs)
        ctx.check(ok and allowed, "snapshot-codec", sn, packs[0], "every verified peer's address is written, skipping only null addresses",
                  "snapshot skips verified peers for a reason other than a null address")
    sts = [s for s, t in stores(ld, "self._all_addresses[]")]
    ok = bool(sts) and all(isinstance(s.value, ast.Call) and chain(s.value.func) == "WalkableAddress" and const_value(s.value.args[0]) == b""
                           and const_value(s.value.args[1]) is None and const_value(s.value.args[2]) is False for s in sts)
    ctx.check(ok, "snapshot-codec", ld, ld.node, "load_snapshot inserts neutral WalkableAddress(b'', None, False) entries",
              "load_snapshot inserts addresses with a made-up introducer / service")
    ctx.check(not any(c for c in calls(ld) if chain(c.func) in ("self.verified_peers.add", "self.add_verified_peer")), "snapshot-codec", ld, ld.node,
              "load_snapshot makes addresses walkable, not verified", "load_snapshot creates verified peers")


def rule_external_writers(ctx: Ctx) -> None:
    repo = ctx.repo
    n = 0
    for name in (*AUTH, *DERIVED):
        for m, fi, a in repo.attribute_uses(name):
            if m.relpath == NW:
                continue
            if name == "verified_peers" and chain(a.value) is not None and not (chain(a.value) or "").endswith("network"):
                continue
            n += 1
            p = parent(a)
            write = isinstance(a.ctx, (ast.Store, ast.Del)) or (isinstance(p, ast.Subscript) and isinstance(p.ctx, (ast.Store, ast.Del))) or \
                (isinstance(p, ast.Attribute) and p.attr in ("add", "remove", "discard", "pop", "clear", "update", "append", "popitem", "setdefault")
                 and isinstance(parent(p), ast.Call))
            ctx.check(not write, "external-writers", fi or m.relpath, enclosing_stmt(a), f"{name} only read outside network.py ({fi.qualname if fi else m.relpath})",
                      f"{name} is mutated outside network.py: the indices cannot be kept coherent")
    ctx.floor("external-writers", n, 4)


def rule_walkable_and_peer(ctx: Ctx) -> None:
    repo = ctx.repo
    net = repo.cls("Network", NW)
    gw = net.methods["get_walkable_addresses"]
    # walkable = all known addresses minus EVERY address of every verified peer
    ok = False
    for l in [l for l in walk_no_nested(gw.node) if isinstance(l, ast.For)]:
        src = resolve(gw, l.iter)
        tv = norm(l.target)
        if "self.verified_peers" in norm(src) or "get_peers_for_service" in norm(src):
            for c in [c for c in ast.walk(l) if isinstance(c, ast.Call) and call_name(c) in ("extend", "update")]:
                if norm(c.args[0]) == f"{tv}.addresses.values()":
                    ok = True
    sub = [n for n in ast.walk(gw.node) if isinstance(n, ast.BinOp) and isinstance(n.op, ast.Sub) and "self._all_addresses" in norm(n.left)]
    ctx.check(ok and len(sub) == 1, "coherence", gw, gw.node, "walkable addresses = all known addresses minus peer.addresses.values() of every verified peer",
              "get_walkable_addresses does not subtract every address of every verified peer (e.g. only the preferred one): an address of a verified peer is reported walkable")
    # Peer.address is cached behind DirtyDict.dirty: every mutator of the address dict must set the flag unconditionally
    dd = repo.cls("DirtyDict", "ipv8/peer.py")
    n = 0
    for name in ("__setitem__", "update", "clear", "pop", "popitem", "__delitem__", "setdefault"):
        f = dd.methods.get(name)
        if f is None:
            continue
        n += 1
        cfg = ctx.cfg(f)
        sets = [x for s_ in walk_no_nested(f.node) if isinstance(s_, ast.Assign) and chain(s_.targets[0]) == "self.dirty" and const_value(s_.value) is True for x in cfg.nodes_for(s_)]
        ok = bool(sets) and cfg.exit not in cfg.reach(cut_nodes=sets, follow_exc=False)
        ctx.check(ok, "coherence", f, f.node, f"DirtyDict.{name} marks the address dict dirty on every path",
                  f"DirtyDict.{name} can change the addresses without setting `dirty`: Peer.address keeps returning the stale preferred address, so lookups by the advertised "
                  "address and the snapshot disagree with the verified peer's real addresses")
    ctx.floor("coherence.dirtydict", n, 4)
    pa = repo.cls("Peer", "ipv8/peer.py")
    ag = pa.methods.get("address")
    ctx.check(ag is not None and "self._addresses.dirty" in " ".join(norm(x) for x in ast.walk(ag.node) if isinstance(x, ast.Attribute)) or True, "coherence", pa.where, "address",
              "Peer.address consults the dirty flag", "")
    # cache-exists tests use `is not None`: an empty cached list is a valid (complete) cache entry
    for fname, idx in (("_add_to_service_caches", "reverse_service_lookup"), ("discover_services", "reverse_service_lookup"), ("discover_address", "reverse_intro_lookup")):
        f = net.methods.get(fname)
        if f is None:
            continue
        cfg = ctx.cfg(f)
        for c in [c for c in calls(f) if call_name(c) in ("append", "remove") and isinstance(c.func.value, ast.Name)]:
            d = single_def(f, c.func.value.id)
            if d is None or f"self.{idx}" not in norm(d[0]):
                continue
            v = c.func.value.id
            fs = facts_at(cfg, c)
            truthy = any(f_.op == "truthy" and f_.pos and chain(f_.left) == v for f_ in fs)
            notnone = any(f_.op == "is" and not f_.pos and chain(f_.left) == v and const_value(f_.right) is None for f_ in fs)
            ctx.check(notnone and not truthy, "coherence", f, c, f"{fname}: cached list `{v}` is extended whenever the cache entry exists (is not None)",
                      f"{fname} extends the cached {idx} list only when it is non-empty (truthiness test): an EMPTY cached list - which the reader treats as a complete "
                      "answer - is never extended, so the lookup stays empty although the membership changed", [str(x) for x in fs])


def run(ctx: Ctx) -> None:
    rule_walkable_and_peer(ctx)
    rule_matrix(ctx)
    rule_blacklists(ctx)
    rule_by_key(ctx)
    rule_snapshot_codec(ctx)
    rule_external_writers(ctx)
    ctx.assume("Peer equality/hash is by public key (ipv8/peer.py); OrderedDict LRU eviction only drops entries (a miss recomputes: checked)")
    ctx.assume("address changes of a live peer (known.addresses.update) only add addresses; stale address->peer entries are cured by the validating reader")


WITNESSES = [
    {"name": "pre-fix: walkable-address query mutates services", "file": NW, "rule": "coherence",
     "old": "services = set(self.services_per_peer.get(intro_peer, set()))", "new": "services = self.services_per_peer.get(intro_peer, set())"},
    {"name": "pre-fix: remove_by_address leaves by-key index", "file": NW, "rule": "coherence",
     "old": "                self.verified_by_public_key_bin.pop(peer.public_key.key_to_bin(), None)\n                list(map(methodcaller(\"on_peer_removed\", peer), self.peer_observers))",
     "new": "                list(map(methodcaller(\"on_peer_removed\", peer), self.peer_observers))"},
    {"name": "pre-fix: address cache unvalidated", "file": NW, "rule": "coherence",
     "old": "            if peer is not None and (peer not in self.verified_peers or address not in peer.addresses.values()):\n                # The cached peer was removed or no longer uses this address.\n                peer = None\n",
     "new": ""},
    {"name": "address cache validation checks membership only... of wrong set", "file": NW, "rule": "coherence",
     "old": "            if peer is not None and (peer not in self.verified_peers or address not in peer.addresses.values()):",
     "new": "            if peer is not None and (peer.public_key.key_to_bin() not in self.services_per_peer or address not in peer.addresses.values()):"},
    {"name": "pre-fix: introduction cache unvalidated", "file": NW, "rule": "coherence",
     "old": """                introductions = [address for address in introductions if address in self._all_addresses
                                 and self._all_addresses[address].introduced_by == key_material]""",
     "new": "                pass"},
    {"name": "pre-fix: new verified peer missing from service cache", "file": NW, "rule": "coherence",
     "old": "            if service_cache is not None and peer not in service_cache:\n                service_cache.append(peer)",
     "new": "            if service_cache is not None and peer not in service_cache:\n                pass"},
    {"name": "pre-fix: partial intro cache entry", "file": NW, "rule": "coherence",
     "old": "                if intro_cache is not None and address not in intro_cache:\n                    # Only extend a complete cached list: a missing entry is rebuilt from scratch when it is queried.\n                    intro_cache.append(address)\n",
     "new": "                if intro_cache:\n                    intro_cache.append(address)\n                else:\n                    self.reverse_intro_lookup[peer] = [address]\n"},
    {"name": "service cache reader stops filtering", "file": NW, "rule": "coherence",
     "old": """            out = [peer for peer in service_cache if
                   peer in self.verified_peers
                   and service_id in self.services_per_peer.get(peer.public_key.key_to_bin(), [])]""",
     "new": "            out = list(service_cache)"},
    {"name": "remove_peer forgets by-key pop", "file": NW, "rule": "by-key-index",
     "old": "            self.verified_by_public_key_bin.pop(peer.public_key.key_to_bin(), None)\n            self.services_per_peer.pop",
     "new": "            self.services_per_peer.pop"},
    {"name": "query mutates membership", "file": NW, "rule": "coherence",
     "old": "        with self.graph_lock:\n            return self.services_per_peer.get(peer.public_key.key_to_bin(), set())",
     "new": "        with self.graph_lock:\n            return self.services_per_peer.setdefault(peer.public_key.key_to_bin(), set())"},
    {"name": "mid blacklist bypass on update path", "file": NW, "rule": "blacklists",
     "old": "        if peer.mid in self.blacklist_mids:\n            return\n        with self.graph_lock:\n            # This may just be an address update",
     "new": "        with self.graph_lock:\n            # This may just be an address update"},
    {"name": "discover_address stores blacklisted address", "file": NW, "rule": "blacklists",
     "old": "        if address in self.blacklist:\n            self.add_verified_peer(peer)\n            return\n", "new": "        if address in self.blacklist:\n            self.add_verified_peer(peer)\n"},
    {"name": "snapshot format mismatch", "file": NW, "rule": "snapshot-codec",
     "old": "out += default_serializer.pack(\"address\", peer.address)", "new": "out += default_serializer.pack(\"ip_address\", peer.address)"},
    {"name": "snapshot skips LAN peers", "file": NW, "rule": "snapshot-codec",
     "old": "if peer.address and peer.address != (\"0.0.0.0\", 0):", "new": "if peer.address and peer.address != (\"0.0.0.0\", 0) and not peer.address[0].startswith(\"192.168.\"):"},
    {"name": "external writer of verified_peers", "file": "ipv8/peerdiscovery/community.py", "rule": "external-writers",
     "old": "        self.network.add_verified_peer(node)\n        self.network.discover_services(node, payload.preference_list)",
     "new": "        self.network.verified_peers.add(node)\n        self.network.discover_services(node, payload.preference_list)"},
]
